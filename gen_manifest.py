"""Writes MANIFEST.json from the table below (kept as a script so that the file stays consistent)."""
import json
import os

HERE = os.path.dirname(os.path.abspath(__file__))
PY = '/venv/bin/python'

CHECKS = {
    'C01': ('bounded exhaustive enumeration of OID trees x module placement x declaration order x spelling x node kind, '
            'compiled through the real pipeline and compared with ground-truth OIDs',
            'Ground-truth OID trees are built first; every labelled tree (<=3 / <=4 nodes), every partition into modules, '
            'every declaration order, every sub-identifier spelling and every OID-bearing declaration kind is rendered '
            'and compiled with MibCompiler.compile() and both code generators; JSON oid, executed pysnmp constructor '
            'argument and status.oids / identity / compliance / enterprise must equal the ground truth.', '5.C01'),
    'C03': ('bounded exhaustive enumeration of declaration sequences compiled to JSON against a reference record model',
            'All sequences of <=2 / <=3 declarations over 13 declaration kinds (x genTexts), optional-part subsets and '
            'identifier styles are compiled with the real JSON back end; the document must parse, hold exactly the '
            'declared symbols and each entry must carry its own declaration\'s class, node type, status, access, units, '
            'revisions.', '5.C03'),
    'C04': ('bounded exhaustive enumeration of declaration sequences, cross-module uses and adversarial identifiers; generated '
            'Python executed against a recording builder and loaded by the real pysnmp MibBuilder; compared with the JSON back end',
            'Every declaration sequence (<=2 / <=3 over 13 kinds), every way module B can use a symbol of module A (11 uses x 3 '
            'name styles) and 14 adversarial identifiers are compiled by both back ends; the pysnmp text must be valid Python, '
            'bind and export every JSON entry under its MIB name with equal OID, kind, base type and access, import only '
            'symbols the other generated module exports, and load in the real MibBuilder.', '5.C04'),
    'C05': ('bounded exhaustive enumeration of syntaxes, refinements, type chains and DEFVAL notations against a '
            'denotational reference model, both back ends',
            'Every type word x grammar-allowed refinement (lists of 1..2/3 alternatives over literal classes) x placement, '
            'and every DEFVAL notation x base type x type-chain shape (inline / derived / TC / imported) is compiled; '
            'constraints must be equal in order and value, defaults must denote the written value under the base type '
            'resolved by an independent walker; pysnmp output is executed against a recording builder.', '5.C05'),
    'C15': ('complete product of text slots x adversarial text alphabet x genTexts x text filter on both back ends',
            'All 27 text-bearing clause slots x 23 texts (backslash sequences, quotes, line breaks, non-ASCII, long words, '
            'template syntax, empty) x genTexts on/off x default/identity filter: gated keys absent without genTexts, JSON text '
            'equal (exactly / as word sequence), pysnmp module valid Python whose executed set*() argument equals the source '
            'as a word sequence.', '5.C15'),
    'C02': ('bounded exhaustive enumeration of MIB specs x layouts against a reference model of the parser',
            'Every catalogue spec (all clause kinds x optional-part subsets, all SYNTAX alternatives, numeric token '
            'classes at their boundaries) is rendered and parsed by the real parser under all three dialects; the tree '
            'must equal a reference tree written from the grammar; every single (quick) / pair (thorough) placement of '
            'separators over all token gaps is enumerated.', '5.C02'),
    'C06': ('bounded exhaustive enumeration of tables, INDEX / AUGMENTS relations, object lists and compliance statements '
            'against a reference model, both back ends',
            'Tables with 1..3 columns x every INDEX list (own, foreign, imported, hyphenated, IMPLIED) or AUGMENTS target x '
            'declaration orders; every object list of length 0..3 over local / hyphenated / imported objects in every '
            'order for the four list-bearing clauses; compliance MODULE parts x MANDATORY-GROUPS x GROUP/OBJECT sequences; '
            'JSON records and the calls recorded while executing the pysnmp module must name the same objects, order, '
            'IMPLIED flags and defining modules.', '5.C06'),
    'C11': ('exhaustive enumeration of prefixes, single-token mutations and noise placements on the real parser',
            'Every proper prefix, every single-token deletion/duplication/replacement/insertion and every single noise '
            'character at every offset of the seed texts is parsed; oracle: list of modules or located PySmiLexerError, '
            'exact line for lexical errors, layout-independent line for grammar errors, truncated text never accepted.',
            '5.C11'),
}
CHECKS['C16'] = ('complete enumeration of SMIv1 base-module symbols against an independent home table; bounded exhaustive '
                 'enumeration of SMIv1 module shapes compared with their SMIv2 transliteration',
                 'Every (SMIv1 module, symbol) with an SMIv2 home is imported by a test module and the JSON imports table / the '
                 'importSymbols() calls of the executed pysnmp module must name the home given by an independent rule table; '
                 'SMIv1 scalars of every type x ACCESS word, tables, traps and sequences of them are rendered as SMIv1 and as '
                 'SMIv2 text and must yield the same symbols, OIDs, classes, node types, access, lists and pysnmp classes.',
                 '5.C16')
_H = ('stateless exploration of the real MibCompiler.compile() over scripted environments (every assignment of answers to '
      'source / parser / symbol-table / code-generator / searcher / borrower / writer calls within a deviation bound), '
      'judged by a reference model of compile() and call-log invariants')
CHECKS['C07'] = (_H, 'All import graphs x requests x 64 option vectors in the default environment, and every single (quick) / pair '
                 '(thorough) of deviations: no exception escapes, every closure module has one of six statuses, <=1 putData per '
                 'module, compiled/borrowed iff written, payload = generator/borrower output, failed entries carry the causing '
                 'error, agreement with the reference model.', '5.C07')
CHECKS['C08'] = (_H, 'All 512 digraphs on 3 modules, all holdings of modules over 3 sources with distinct texts, multi-module and '
                 'misnamed files: result keys = import closure, each (source, module) asked once in list order up to the first '
                 'holder, parsed text and payload are the first holder\'s, every call returns within time and call budgets.', '5.C08')
CHECKS['C09'] = (_H, 'Every placement of one or two failures of 8 kinds in every graph x request x ignoreErrors x borrower settings: '
                 'nothing written and built modules unprocessed unless errors are ignored; with ignoreErrors everything built is '
                 'written once.', '5.C09')
CHECKS['C10'] = (_H + '; complete product of directory states x mtime differences for the real file searchers',
                 'Searcher lists (<=2) x 4 answers per module x stub-likeness x rebuild x noDeps on compile(); real AnyFile/PyFile/'
                 'PyPackage searchers over every combination of directory entries x mtime difference -2..2 s x rebuild.', '5.C10')
CHECKS['C19'] = (_H + '; real borrowers over a real directory with every extension variant',
                 'All borrower lists <=2 (flavour x per-module answers) x failure placements x noDeps x genTexts x ignoreErrors x '
                 'requests: borrowing only for unbuilt modules, list order, flavour filter, verbatim payload, requested modules '
                 'eligible under noDeps; PyFileBorrower/AnyFileBorrower serve only their own extensions.', '5.C19')
CHECKS['C18'] = ('explicit-state breadth-first search over index documents produced by the real genIndex() / buildIndex(), '
                 'invariants evaluated in every reached state',
                 'States = (canonical index document, facts indexed so far); transitions = index a module with an ordered OID '
                 'tuple from a menu with digit-sharing sibling arcs and nested subtrees, on top of the state; BFS to depth 3 with '
                 'deduplication; in every state: identity/enterprise/compliance entries present, every indexed OID covered by a '
                 'component-wise prefix naming its module, modules listed only under OIDs they define, re-indexing is a no-op.',
                 '5.C18')
CHECKS['C13'] = ('fault enumeration over discovered system-call sites of the real writers (every occurrence x every fault kind, '
                 '<=1 / <=2 faults) on a scratch directory; exhaustive interleaving exploration of two writers under a '
                 'cooperative scheduler',
                 'The os / tempfile / py_compile names inside the writer modules are replaced by recording proxies; call sites are '
                 'discovered from the fault-free trace and each is failed in every way it can fail (errno errors, short and partial '
                 'writes, access()=False, byte-compile errors); after every execution the destination must hold the old or the new '
                 'complete content, no stray entry, only PySmiWriterError may escape, normal return implies the new content; '
                 'dry-run leaves the tree unchanged; all interleavings of two writers of the same module are explored.', '5.C13')
CHECKS['C14'] = ('complete enumeration of request names x matching-option vectors x candidate file names x placements (directory depth, '
                 'ZIP nesting) on the real readers against a reference variant-set model; URL shapes against a dispatch table',
                 'Every candidate file name (case forms x suffix added/removed x 7 extensions, near misses) is placed alone in a '
                 'scratch directory / ZIP archive at several depths and requested under all 16 option vectors: found iff it is a '
                 'documented variant and reachable, content = bytes.decode(utf-8, ignore), mtime = stat/ZIP time, never an unrelated '
                 'file; byte contents, size limit, pairs, .index files, archive shapes (duplicates, corrupt members) and URL '
                 'dispatch (scheme x path x credentials) are enumerated completely.', '5.C14')
CHECKS['C12'] = ('exhaustive enumeration of input histories (sequences up to a depth over a 12-input alphabet) on one live parser / '
                 'generator pair / compiler, compared element-wise with fresh objects; enumeration of hash seeds in subprocesses',
                 'Every sequence of <=2 / <=3 valid and invalid MIBs is fed to one parser, one symbol-table+code generator pair and '
                 'one MibCompiler (both back ends); each element\'s tree, masked output, MibInfo, statuses or error class and line '
                 'must equal what fresh objects give; triple repetition; the single-input jobs are re-run under PYTHONHASHSEED '
                 '0..7 / 0..63 and must be byte-identical.', '5.C12')
CHECKS['C17'] = ('exhaustive walk of the lattice of relaxation-option subsets (all covering edges) over a text corpus on the real '
                 'parser factory; breakage placements against reference trees',
                 'For every buildable subset S of the nine options (24 quick / all 384 thorough) and every o not in S the whole '
                 'corpus (575 catalogue texts + breakage texts) is parsed under S and S+{o}: accepted texts keep their tree; each '
                 'documented breakage at every position is accepted under its option with the corrected text\'s tree; exactly the '
                 'subsets with supportIndex => supportSmiV1Keywords build; unknown options raise PySmiError.', '5.C17')
CHECKS['C20'] = ('bounded exhaustive enumeration of on-disk worlds x option subsets x formats for mibdump (judged by the compile() '
                 'reference model) and of all source-argument permutations for mibcopy, scripts executed in-process',
                 'Worlds of the compile() reference model are realised as directories (absent / broken / misnamed / two-module '
                 'files, up-to-date destination copies, borrowable copies) and mibdump is run with every option subset of the bound: '
                 'exit code 0 iff nothing is missing/failed, every module named in exactly the report line of its status, destination '
                 'files = written modules; usage errors exit 64.  mibcopy: every multiset of 2-3 copies with revisions none/old/mid/'
                 'new x destination state x every permutation of the source arguments: the destination holds a latest-revision copy.',
                 '5.C20')
NOT_YET = {}

ALL = ['C%02d' % i for i in range(1, 21)]


def main():
    checks = []
    for pid in ALL:
        if pid not in CHECKS:
            continue
        tech, text, ref = CHECKS[pid]
        checks.append({
            'property_id': pid,
            'quick_cmd': 'cd /verif && %s -m mc.run %s --tier quick' % (PY, pid),
            'thorough_cmd': 'cd /verif && %s -m mc.run %s --tier thorough' % (PY, pid),
            'evidence_file': '/verif/evidence/%s.json' % pid,
            'replay_cmd_template': 'cd /verif && %s -m mc.run %s --replay {path}' % (PY, pid),
            'engine': 'mc',
            'level_claimed': {'category': 'model_checking', 'text': text, 'design_ref': 'DESIGN.md ' + ref},
            'level_note': 'Holds within the stated bounds (see evidence coverage.bounds); trusted base: the hand-written '
                          'reference models in /verif/mc and the Python interpreter; PYTHONHASHSEED is pinned to 0 '
                          'except where seeds are enumerated.',
            'technique': tech,
        })
    manifest = {
        'version': 1,
        'setup_cmd': 'cd /verif && %s -m mc.selftest' % PY,
        'hooks': {
            'guard': 'ETINGOF_PYSMI_VERIF',
            'enable': 'no hooks are needed: every seam is injectable (components are constructor arguments; the '
                      'writers reach the OS through module globals that the harness rebinds at run time)',
            'baseline_off_cmd': 'cd /repo && /venv/bin/python -m pytest -ra -q -p no:cacheprovider --timeout=900 '
                                '--continue-on-collection-errors',
            'source_commits': [],
            'add_only': True,
        },
        'engines': [{'name': 'mc', 'path': '/verif/mc', 'serves_properties': sorted(CHECKS),
                     'kind_free_text': 'hand-written stateless bounded-exhaustive explorer for Python (block-parallel '
                                       'enumeration of input shapes, environment answers, histories and schedules on the '
                                       'real implementation, compared with reference models)'}],
        'checks': checks,
        'notes': 'Run as: cd /verif && /venv/bin/python -m mc.run <Cxx> --tier quick|thorough.  VERIF_REPO selects the '
                 'tree (default /repo).  Known findings: /verif/known_findings.json.',
        'not_applicable': [{'property_id': pid, 'reason': NOT_YET.get(pid, 'check not built yet (work in progress)')}
                           for pid in ALL if pid not in CHECKS],
    }
    with open(os.path.join(HERE, 'MANIFEST.json'), 'w') as f:
        json.dump(manifest, f, indent=1)
        f.write('\n')


if __name__ == '__main__':
    main()
