"""Catalogue of well-formed MIB specs: every clause kind with every subset of its optional parts,
every SYNTAX alternative, every numeric token class at its boundaries, lists of length 1..3.
Pure data generation (no pysmi).  Each entry: {'id', 'mods', 'v1' (needs the SMIv1 keywords)}.
"""
import itertools

U32 = 4294967295
U64 = 18446744073709551615
I64MIN = -9223372036854775808   # the smallest number 64 bits hold (anything below is 'beyond 64 bits', C11)

NUMS = [0, 1, U32, U32 + 1, U64, -1, -U32, -(U32 + 1), I64MIN]
LITS = ["'ff'H", "''H", "'0aF9'h", "'0101'B", "''B", "'11111111'b"]


def mod(decls, name='TEST-MIB', **kw):
    m = {'name': name, 'decls': decls}
    m.update(kw)
    return m


def ot(name='testObj', **kw):
    d = {'k': 'ot', 'name': name, 'syntax': ('simple', 'Integer32'), 'access': ('MAX-ACCESS', 'read-only'),
         'status': 'current', 'descr': 'An object.', 'oid': ['testRoot', 1]}
    d.update(kw)
    return d


def powerset(items):
    for r in range(len(items) + 1):
        for c in itertools.combinations(items, r):
            yield c


DEFVALS = [None, ('num', 5), ('num', -3), ('num', U32 + 1), ('num', -(U32 + 1)), ('lit', "'ff'H"), ('lit', "'0101'B"),
           ('str', 'abc'), ('str', ''), ('id', 'enabled'), ('bits', ['bitA']), ('bits', ['bitA', 'bitB', 'bitC']),
           ('bits', []), ('oidnum', [0, 0]), ('oidnum', [['iso', 1], 3]), ('num', 0)]

INDEXES = [(None, None), ('otherEntry', None), (None, [(0, 'ifIndex')]),
           (None, [(0, 'ifIndex'), (1, 'name-col')]), (None, [(0, 'a'), (0, 'b'), (1, 'c')]),
           (None, [(1, 'a')])]

SYNTAXES = []
for w in ('INTEGER', 'Integer32'):
    SYNTAXES.append(('simple', w))
    SYNTAXES.append(('simple', w, ('range', [(0, 10)])))
SYNTAXES += [
    ('simple', 'INTEGER', ('enum', [('up', 1)])),
    ('simple', 'INTEGER', ('enum', [('up', 1), ('down', 2), ('neg-val', -1)])),
    ('simple', 'INTEGER', ('range', [(1,), (3, 5), (-7, -6)])),
    ('simple', 'OCTET STRING'),
    ('simple', 'OCTET STRING', ('size', [(0, 255)])),
    ('simple', 'OCTET STRING', ('size', [(4,), (16,), (20, 24)])),
    ('simple', 'OBJECT IDENTIFIER'),
    ('ref', 'DisplayString'),
    ('ref', 'DisplayString', ('size', [(0, 32)])),
    ('ref', 'MyInt', ('range', [(1, 2)])),
    ('ref', 'MyEnum', ('enum', [('a', 1), ('b', 2)])),
    ('bits', [('b0', 0)]),
    ('bits', [('b0', 0), ('b1', 1), ('b-7', 7)]),
    ('seqof', 'TestEntry'),
    ('ref', 'TestEntry'),
    ('app', 'IpAddress'), ('app', 'TimeTicks'), ('app', 'Opaque'), ('app', 'Opaque', ('size', [(1, 8)])),
    ('tagged', 'APPLICATION', 4, ('simple', 'OCTET STRING', ('size', [(4,)]))),
    ('tagged', 'UNIVERSAL', 2, ('simple', 'INTEGER')),
]
for w in ('Counter32', 'Gauge32', 'Unsigned32', 'Counter64'):
    SYNTAXES.append(('app', w))
    SYNTAXES.append(('app', w, ('range', [(0, 100)])))
SYNTAXES += [('app', 'Counter'), ('app', 'Gauge'), ('app', 'Gauge', ('range', [(0, 9)]))]
V1_SYNTAXES = [('app', 'NetworkAddress')]
# numeric token classes at their boundaries, every literal class
for v in NUMS:
    SYNTAXES.append(('simple', 'INTEGER', ('range', [(v,)])))
for a, b in [(I64MIN, U64), (-(U32 + 1), U32 + 1), (0, U32), (-U32, -1)]:
    SYNTAXES.append(('simple', 'INTEGER', ('range', [(a, b)])))
# a range whose two ends are the same value stays a range of two ends
SYNTAXES += [('simple', 'INTEGER', ('range', [(6, 6)])), ('simple', 'INTEGER', ('range', [(1, 1), (3, 5), (-7, -7)])),
             ('simple', 'OCTET STRING', ('size', [(4, 4)])), ('simple', 'OCTET STRING', ('size', [("'10'h", "'10'h")]))]
for lit in LITS:
    SYNTAXES.append(('simple', 'INTEGER', ('range', [(lit,)])))
    SYNTAXES.append(('simple', 'OCTET STRING', ('size', [(lit, "'ffff'H")])))

TEXTS = ['An object.', '', 'two  spaces', 'multi\n    line\n\ttext', "it's -- not a comment END ::= { x 1 }",
         'café 中', 'crlf\r\ninside', 'mixed\rline\nends\r\nin one\rtext']


def entries(tier):
    thorough = tier == 'thorough'
    out = []

    def add(eid, mods, v1=False, only=None):
        out.append({'id': eid, 'mods': mods if isinstance(mods, list) else [mods], 'v1': v1, 'only': only})

    # --- OBJECT-TYPE: all optional part subsets
    accesses = [('MAX-ACCESS', 'read-only'), ('ACCESS', 'read-write'), None]
    n = 0
    for units, acc, descr, ref, (aug, idx), dv in itertools.product(
            [None, 'seconds'], accesses, [None, 'An object.'], [None, 'RFC 0000'], INDEXES, DEFVALS):
        if not thorough:
            # quick: every value of every dimension with all others at default, plus all pairs with DEFVAL/INDEX
            nondef = sum([units is not None, acc != accesses[0], descr is None, ref is not None,
                          (aug, idx) != INDEXES[0], dv is not None])
            if nondef > 2:
                continue
        add('ot-parts-%d' % n, mod([ot(units=units, access=acc, descr=descr, ref=ref, augments=aug, index=idx,
                                       defval=dv)]))
        n += 1
    for i, idx in enumerate([[(0, 0)], [(0, 5)], [(0, 'a'), (0, 0)], [(1, 0)]]):
        add('ot-index-number-%d' % i, mod([ot(index=idx)]))   # the grammar takes an object name given by number
    for i, syn in enumerate(SYNTAXES):
        add('ot-syntax-%d' % i, mod([ot(syntax=syn)]))
    for i, syn in enumerate(V1_SYNTAXES):
        add('ot-syntax-v1-%d' % i, mod([ot(syntax=syn, access=('ACCESS', 'read-only'), status='mandatory')]), v1=True)
    for i, txt in enumerate(TEXTS):
        add('ot-text-%d' % i, mod([ot(descr=txt, units=txt, ref=txt)]))
    for i, oid in enumerate([[1], [1, 3, 6], ['iso', 3], [['iso', 1], ['org', 3], 6], ['a-b', 1], ['a', ['b', 2], 3],
                             ['Upper', 1], [0, 0], ['x', U32]]):
        add('ot-oid-%d' % i, mod([ot(oid=oid)]))
    # v1 type valued INDEX
    for i, idx in enumerate([[(0, 'INTEGER')], [(0, 'OCTET STRING'), (0, 'ifIndex')], [(0, 'IpAddress')],
                             [(0, 'NetworkAddress'), (0, 'INTEGER')]]):
        add('ot-index-v1-%d' % i, mod([ot(index=idx, access=('ACCESS', 'read-only'), status='mandatory')]), v1=True)

    # words that only the SMIv1 keyword set reserves are ordinary identifiers for the strict dialect
    add('v2only-0', mod([ot(syntax=('ref', 'NetworkAddress'))]), only=['smiV2'])
    add('v2only-1', mod([{'k': 'value', 'name': 'a', 'oid': ['x', 1]}], imports=[('OTHER-MIB', ['NetworkAddress', 'b'])]), only=['smiV2'])
    add('v2only-2', mod([{'k': 'type', 'name': 'NetworkAddress', 'syntax': ('simple', 'OCTET STRING', ('size', [(4,)]))}]), only=['smiV2'])
    add('v2only-3', mod([{'k': 'type', 'name': 'Row', 'syntax': ('seq', [('addr', 'NetworkAddress'), ('n', 'INTEGER')])}]), only=['smiV2'])

    # --- value declarations and names
    for i, name in enumerate(['foo', 'fooBar', 'foo-bar2', '1abc', 'Upper', 'x9']):
        add('value-name-%d' % i, mod([{'k': 'value', 'name': name, 'oid': ['enterprises', 1]}]))

    # --- type declarations
    for i, syn in enumerate(SYNTAXES + [('seq', [('colA', 'Integer32')]),
                                        ('seq', [('colA', 'INTEGER'), ('colB', 'OCTET STRING'), ('colC', 'DisplayString')]),
                                        ('seq', [('c1', 'OBJECT IDENTIFIER'), ('c2', 'BITS'), ('c3', 'IpAddress'),
                                                 ('c4', 'Counter64'), ('c5', 'Opaque'), ('c6', 'TimeTicks')]),
                                        ('seq', [('c1', 'INTEGER', ('range', [(0, 5)])),
                                                 ('c2', 'OCTET STRING', ('size', [(0, 5)])),
                                                 ('c3', 'MyType', ('size', [(1, 2)])),
                                                 ('c4', 'Gauge32', ('range', [(0, 5)]))])]):
        add('type-%d' % i, mod([{'k': 'type', 'name': 'MyType', 'syntax': syn}]))
    for i, w in enumerate(['IpAddress', 'TimeTicks', 'Opaque', 'Integer32', 'Unsigned32', 'Counter32', 'Gauge32',
                           'Counter64']):
        add('type-smi-%d' % i, mod([{'k': 'type', 'name': w, 'syntax': ('simple', 'INTEGER', ('range', [(0, 5)]))}]))
    for display, ref in itertools.product([None, '255a', ''], [None, 'RFC 1']):
        for j, syn in enumerate([('simple', 'OCTET STRING', ('size', [(0, 255)])), ('simple', 'INTEGER', ('enum', [('t', 1), ('f', 2)])),
                                 ('bits', [('x', 0), ('y', 1)]), ('ref', 'Other')]):
            add('tc-%s-%s-%d' % (display, ref, j),
                mod([{'k': 'tc', 'name': 'MyTc', 'display': display, 'status': 'current', 'descr': 'A TC.',
                      'ref': ref, 'syntax': syn}]))
    for i, body in enumerate([' { a INTEGER, b OCTET STRING }', '\n{\n  a\n  INTEGER\n}', ' { }', '{ x [0] IMPLICIT Foo -- c\n }',
                              '\r{\n a\r INTEGER\r\n}']):
        add('choice-%d' % i, mod([{'k': 'choice', 'name': 'MyChoice', 'body': body},
                                  {'k': 'value', 'name': 'after', 'oid': ['x', 1]}]))

    # --- MACRO, EXPORTS
    for i, body in enumerate([' ::= BEGIN TYPE NOTATION ::= "x" VALUE NOTATION ::= value(VALUE OBJECT IDENTIFIER) ',
                              '\n::=\nBEGIN\n  TYPE NOTATION ::=\n     "STATUS" Status\n  Status ::= "current" | "obsolete"\n',
                              ' ', '\n::= BEGIN\r  mixed\n  line ends\r\n  in the body\r']):
        for j, mname in enumerate(['OBJECT-TYPE', 'MODULE-IDENTITY', 'TRAP-TYPE', 'NOTIFICATION-TYPE',
                                   'OBJECT-IDENTITY', 'TEXTUAL-CONVENTION', 'OBJECT-GROUP', 'NOTIFICATION-GROUP',
                                   'MODULE-COMPLIANCE', 'AGENT-CAPABILITIES']):
            if j and i:
                continue
            add('macro-%d-%d' % (i, j), mod([{'k': 'value', 'name': 'before', 'oid': ['x', 1]},
                                             {'k': 'macro', 'name': mname, 'body': body},
                                             {'k': 'value', 'name': 'after', 'oid': ['x', 2]}]))
    # adversarial block contents: END inside words / quoted words of a MACRO body (RFC 3159 has "EXTENDS"), nested braces in a
    # CHOICE, a semicolon inside a comment of an EXPORTS list
    for i, body in enumerate([' ::= BEGIN TYPE NOTATION ::= "EXTENDS" value(VALUE ObjectName) | "APPEND" BENDS ENDING xEND ',
                              '\n::= BEGIN\n  ExtendsPart ::= "EXTENDS" "{" Entry "}" | empty\n  SENDER ::= x\n']):
        add('macro-adv-%d' % i, mod([{'k': 'value', 'name': 'before', 'oid': ['x', 1]},
                                     {'k': 'macro', 'name': 'OBJECT-TYPE', 'body': body},
                                     {'k': 'value', 'name': 'after', 'oid': ['x', 2]}]))
    # comments and quoted strings inside the skipped sections (not recognised there: K36)
    for i, body in enumerate([' ::= BEGIN TYPE NOTATION ::= "x" -- the END of the type notation\n VALUE NOTATION ::= value(VALUE INTEGER) ',
                              ' ::= BEGIN TYPE NOTATION ::= "THE END OF IT" VALUE NOTATION ::= value(VALUE INTEGER) ']):
        add('macro-cmt-%d' % i, mod([{'k': 'value', 'name': 'before', 'oid': ['x', 1]},
                                     {'k': 'macro', 'name': 'OBJECT-TYPE', 'body': body},
                                     {'k': 'value', 'name': 'after', 'oid': ['x', 2]}]))
    for i, body in enumerate([' { a INTEGER, -- closing } in a comment\n b INTEGER }', ' { a INTEGER -- opening { in a comment\n }']):
        add('choice-cmt-%d' % i, mod([{'k': 'choice', 'name': 'MyChoice', 'body': body},
                                      {'k': 'value', 'name': 'after', 'oid': ['x', 1]}]))
    for i, body in enumerate([' { a INTEGER { x(1) }, b INTEGER }', ' { a BITS { p(0), q(1) }, b SEQUENCE { c INTEGER { y(2) } } }']):
        add('choice-adv-%d' % i, mod([{'k': 'choice', 'name': 'MyChoice', 'body': body},
                                      {'k': 'value', 'name': 'after', 'oid': ['x', 1]}]))
    for i, body in enumerate([' a, -- x; y\n b', '\n a -- first; second; third\n']):
        add('exports-adv-%d' % i, mod([{'k': 'value', 'name': 'a', 'oid': ['x', 1]}], exports=body))
    # identifiers that merely begin with the words that open a skipped block
    for i, tname in enumerate(['MACROType', 'CHOICEKind', 'EXPORTSList', 'MACRO-Type', 'CHOICE2']):
        add('block-word-prefix-%d' % i, mod([{'k': 'type', 'name': tname, 'syntax': ('simple', 'INTEGER')},
                                             ot(syntax=('ref', tname))]))
    for i, mname in enumerate(['EXPORTS-MIB', 'MACRO-MIB', 'CHOICES-MIB']):
        add('block-word-module-%d' % i, mod([{'k': 'value', 'name': 'a', 'oid': ['x', 1]}], name=mname))
    for i, body in enumerate([' a, b, C', '\n  a,\n  b -- c\n', ' ', '\n a,\r b,\r\n c\r']):
        add('exports-%d' % i, mod([{'k': 'value', 'name': 'a', 'oid': ['x', 1]}], exports=body))
        add('exports-imp-%d' % i, mod([{'k': 'value', 'name': 'a', 'oid': ['x', 1]}], exports=body,
                                      imports=[('SNMPv2-SMI', ['x'])]))

    # --- imports
    imps = [[('SNMPv2-SMI', ['enterprises'])],
            [('SNMPv2-SMI', ['enterprises', 'OBJECT-TYPE', 'Integer32'])],
            [('SNMPv2-SMI', ['MODULE-IDENTITY', 'Counter32']), ('SNMPv2-TC', ['DisplayString', 'TEXTUAL-CONVENTION']),
             ('SNMPv2-CONF', ['MODULE-COMPLIANCE', 'OBJECT-GROUP', 'NOTIFICATION-GROUP', 'AGENT-CAPABILITIES'])],
            [('A-MIB', ['a']), ('B-MIB', ['b']), ('A-MIB', ['c', 'D'])],
            [('SNMPv2-SMI', ['BITS', 'Integer32', 'IpAddress', 'MANDATORY-GROUPS', 'MODULE-COMPLIANCE',
                             'MODULE-IDENTITY', 'OBJECT-GROUP', 'OBJECT-IDENTITY', 'OBJECT-TYPE', 'Opaque',
                             'TEXTUAL-CONVENTION', 'TimeTicks', 'Unsigned32', 'AGENT-CAPABILITIES', 'Counter32',
                             'Counter64', 'Gauge32', 'NOTIFICATION-GROUP', 'NOTIFICATION-TYPE', 'TRAP-TYPE'])],
            []]
    for i, imp in enumerate(imps):
        add('imports-%d' % i, mod([{'k': 'value', 'name': 'a', 'oid': ['x', 1]}], imports=imp))
    add('imports-v1-0', mod([{'k': 'value', 'name': 'a', 'oid': ['x', 1]}],
                            imports=[('RFC1155-SMI', ['NetworkAddress', 'Counter', 'Gauge'])]), v1=True)
    add('empty-module', mod([]))
    add('empty-module-imports', mod([], imports=[('SNMPv2-SMI', ['x'])]))
    for i, oid in enumerate([[1, 3], ['iso', ['org', 3]], ['a-b', 2]]):
        add('module-oid-%d' % i, mod([{'k': 'value', 'name': 'a', 'oid': ['x', 1]}], oid=oid))

    # --- OBJECT-IDENTITY, NOTIFICATION-TYPE, groups
    for ref in (None, 'RFC 2'):
        add('oi-%s' % ref, mod([{'k': 'oi', 'name': 'testId', 'status': 'current', 'descr': 'An identity.', 'ref': ref,
                                 'oid': ['enterprises', 5]}]))
        for objs in (None, ['a'], ['a', 'b-c'], ['a', 'b', 'c']):
            add('nt-%s-%s' % (ref, objs and len(objs)),
                mod([{'k': 'nt', 'name': 'testNotif', 'objects': objs, 'status': 'deprecated', 'descr': 'A notification.',
                      'ref': ref, 'oid': ['testRoot', 0, 1]}]))
        for objs in (['a'], ['a', 'b-c'], ['c', 'b', 'a']):
            add('og-%s-%d' % (ref, len(objs)), mod([{'k': 'og', 'name': 'testGroup', 'objects': objs, 'status': 'current',
                                                    'descr': 'A group.', 'ref': ref, 'oid': ['testRoot', 7]}]))
            add('ng-%s-%d' % (ref, len(objs)), mod([{'k': 'ng', 'name': 'testNGroup', 'objects': objs, 'status': 'obsolete',
                                                    'descr': 'A group.', 'ref': ref, 'oid': ['testRoot', 8]}]))

    # --- TRAP-TYPE
    for vars_, descr, ref in itertools.product([None, ['a'], ['a', 'b'], ['c', 'b', 'a']], [None, 'A trap.'],
                                               [None, 'RFC 3']):
        add('trap-%s-%s-%s' % (vars_ and len(vars_), descr is not None, ref is not None),
            mod([{'k': 'trap', 'name': 'testTrap', 'enterprise': ['testRoot'], 'vars': vars_, 'descr': descr,
                  'ref': ref, 'num': 7}]))
    add('trap-upper', mod([{'k': 'trap', 'name': 'TestTrap', 'enterprise': ['snmp'], 'vars': None, 'descr': None,
                            'ref': None, 'num': 0}]))

    # --- MODULE-IDENTITY
    for nrev, subj in itertools.product(range(4), [None, ['all'], [['tcp', 3], 'udp']]):
        revs = [('20200%d010000Z' % (9 - i), 'Revision %d.' % i) for i in range(nrev)]
        add('mi-%d-%s' % (nrev, subj and len(subj)),
            mod([{'k': 'mi', 'name': 'testModule', 'last': '202009010000Z', 'org': 'Org', 'contact': 'Contact\n  line 2',
                  'descr': 'Module.', 'revs': revs, 'subjcat': subj, 'oid': ['enterprises', 99]}]))
    add('mi-shortdate', mod([{'k': 'mi', 'name': 'testModule', 'last': '9505241811Z', 'org': '', 'contact': '',
                              'descr': '', 'revs': [('9505241811Z', '')], 'oid': [1, 3]}]))

    # --- MODULE-COMPLIANCE: MODULE parts x MANDATORY-GROUPS x item sequences
    g = lambda n: ('GROUP', n, 'Optional group.')
    o = lambda n, *a: ('OBJECT', n) + (a if a else (None, None, None)) + ('Restricted.',)
    item_alpha = [g('grpA'), g('grp-b'), o('objA'), o('objB', ('simple', 'INTEGER', ('range', [(1, 2)])), None, None),
                  o('objC', None, ('simple', 'OCTET STRING', ('size', [(0, 4)])), 'read-only'),
                  o('objD', ('bits', [('x', 0)]), ('bits', [('x', 0)]), 'not-accessible')]
    maxlen = 3 if thorough else 2
    seqs = [()]
    for ln in range(1, maxlen + 1):
        seqs += list(itertools.product(range(len(item_alpha) if thorough else 3), repeat=ln))
    n = 0
    for mname, mand, seq in itertools.product([None, 'OTHER-MIB'], [None, ['m1'], ['m1', 'm-2']], seqs):
        m = {'name': mname, 'mandatory': mand, 'items': [item_alpha[i] for i in seq]}
        add('mc-%d' % n, mod([{'k': 'mc', 'name': 'testCompliance', 'status': 'current', 'descr': 'Compliance.',
                               'ref': None, 'modules': [m], 'oid': ['testRoot', 9]}]))
        n += 1
    m1 = {'name': None, 'mandatory': ['m1'], 'items': [g('grpA')]}
    m2 = {'name': 'OTHER-MIB', 'mandatory': None, 'items': [o('objA'), g('grpB')]}
    m3 = {'name': 'THIRD-MIB', 'mandatory': ['m3', 'm4'], 'items': []}
    for i, mods_ in enumerate([[m1, m2], [m2, m1], [m1, m2, m3], [m3]]):
        add('mc-multi-%d' % i, mod([{'k': 'mc', 'name': 'testCompliance', 'status': 'current', 'descr': 'Compliance.',
                                     'ref': 'RFC 4', 'modules': mods_, 'oid': ['testRoot', 9]}]))

    # --- AGENT-CAPABILITIES
    var_alpha = [{'name': 'objA', 'descr': 'V.'},
                 {'name': 'objB', 'syntax': ('simple', 'INTEGER', ('range', [(1, 2)])), 'access': 'read-only', 'descr': 'V.'},
                 {'name': 'objC', 'wsyntax': ('simple', 'OCTET STRING'), 'creation': ['c1', 'c2'],
                  'defval': ('num', 5), 'descr': 'V.'},
                 {'name': 'objD', 'creation': ['c1'], 'defval': ('bits', ['x']), 'descr': 'V.'}]
    sup_alpha = [[], [{'module': 'A-MIB', 'groups': ['g1']}],
                 [{'module': 'A-MIB', 'groups': ['g1', 'g2'], 'variations': var_alpha[:1]}],
                 [{'module': 'A-MIB', 'groups': ['g1'], 'variations': var_alpha},
                  {'module': 'B-MIB', 'groups': ['g3', 'g4', 'g5'], 'variations': var_alpha[1:3]}]]
    for i, sup in enumerate(sup_alpha):
        for ref in (None, 'RFC 5'):
            add('ac-%d-%s' % (i, ref is not None),
                mod([{'k': 'ac', 'name': 'testAgent', 'release': 'v1.0', 'status': 'current', 'descr': 'Agent.',
                      'ref': ref, 'supports': sup, 'oid': ['testRoot', 10]}]))

    # --- several declarations, several modules per file
    v = lambda n, i: {'k': 'value', 'name': n, 'oid': ['enterprises', i]}
    add('multi-decl', mod([v('a', 1), ot('b'), v('c', 3), {'k': 'type', 'name': 'T', 'syntax': ('simple', 'INTEGER')}, v('d', 4)]))
    add('two-modules', [mod([v('a', 1)], name='A-MIB'), mod([v('b', 2)], name='B-MIB', imports=[('A-MIB', ['a'])])])
    add('three-modules', [mod([v('a', 1)], name='A-MIB'), mod([], name='EMPTY-MIB'),
                          mod([v('c', 2), ot('d')], name='C-MIB', oid=[1, 3, 9])])
    add('table', mod([
        ot('testTable', syntax=('seqof', 'TestEntry'), access=('MAX-ACCESS', 'not-accessible'), oid=['testRoot', 2]),
        ot('testEntry', syntax=('ref', 'TestEntry'), access=('MAX-ACCESS', 'not-accessible'), index=[(0, 'testIndex')],
           oid=['testTable', 1]),
        {'k': 'type', 'name': 'TestEntry', 'syntax': ('seq', [('testIndex', 'Integer32'), ('testValue', 'OCTET STRING')])},
        ot('testIndex', oid=['testEntry', 1]), ot('testValue', syntax=('simple', 'OCTET STRING'), oid=['testEntry', 2])]))
    return out
