"""Cooperative scheduler for a handful of real threads: exactly one thread runs at any time (baton), control
changes hands only at explicit points (calls through the fault-injecting proxies).  Exhaustive exploration of
all interleavings by depth-first search over choice vectors; replaying a prefix must reproduce the same enabled
sets, otherwise the run is aborted as a harness error.
"""
import threading


class Divergence(Exception):
    pass


class Run(object):
    def __init__(self):
        self.decisions = []   # (enabled thread ids in canonical order, chosen index)
        self.errors = {}      # tid -> exception escaping the body
        self.results = {}


class Scheduler(object):
    def __init__(self, bodies):
        self.bodies = bodies      # list of callables taking (tid)
        self.n = len(bodies)

    def execute(self, choices, expect=None):
        """Run all bodies to completion, taking choices[i] at the i-th decision (0 afterwards).
        expect: decisions of the run this prefix was taken from (replay must not diverge)."""
        run = Run()
        sems = [threading.Semaphore(0) for _ in range(self.n)]
        back = threading.Semaphore(0)
        state = {'finished': [False] * self.n, 'current': None}
        self._tls = threading.local()

        def point(site=None):
            tid = self._tls.tid
            back.release()        # hand the baton back
            sems[tid].acquire()   # wait to be scheduled again

        self.point = point

        def wrapper(tid):
            self._tls.tid = tid
            sems[tid].acquire()   # wait for the first scheduling
            try:
                run.results[tid] = self.bodies[tid](tid)
            except BaseException as exc:  # noqa: the harness reports it
                run.errors[tid] = exc
            state['finished'][tid] = True
            back.release()

        threads = [threading.Thread(target=wrapper, args=(i,), daemon=True) for i in range(self.n)]
        for t in threads:
            t.start()
        current = None
        di = 0
        while not all(state['finished']):
            enabled = [i for i in range(self.n) if not state['finished'][i]]
            # canonical order: the running thread first if still enabled, then ascending ids
            if current in enabled:
                enabled = [current] + [i for i in enabled if i != current]
            if len(enabled) > 1:
                c = choices[di] if di < len(choices) else 0
                if c >= len(enabled):
                    raise Divergence('choice %d out of range at decision %d (enabled %r)' % (c, di, enabled))
                if expect is not None and di < len(choices) and di < len(expect) and expect[di][0] != enabled:
                    raise Divergence('enabled set %r differs from %r at decision %d' % (enabled, expect[di][0], di))
                run.decisions.append((enabled, c))
                di += 1
                chosen = enabled[c]
            else:
                chosen = enabled[0]
            current = chosen
            sems[chosen].release()
            if not back.acquire(timeout=300):
                raise Divergence('thread %d neither reached a point nor finished within 300 s (deadlock?)' % chosen)
        for t in threads:
            t.join(5)
        return run


def explore(make_scheduler, check, bound=None):
    """Depth-first over choice vectors.  make_scheduler() -> (Scheduler, context) builds a fresh world for each
    execution; check(run, context, choices) judges it.  Yields one result per complete schedule."""
    stack = [([], None)]
    while stack:
        prefix, expect = stack.pop()
        sch, ctx = make_scheduler()
        run = sch.execute(prefix, expect)
        yield check(run, ctx, [c for _, c in run.decisions])
        for i in range(len(prefix), len(run.decisions)):
            enabled, c = run.decisions[i]
            if bound is not None:
                # switching away from the running thread (index 0) is a preemption
                used = sum(1 for _, cc in run.decisions[:i] if cc != 0)
                if used >= bound:
                    continue
            for alt in range(1, len(enabled)):
                stack.append(([cc for _, cc in run.decisions[:i]] + [alt], run.decisions))
