"""Stand-ins for the SMIv1 base modules and for the SMIv2 modules that took over their symbols (harness inputs,
compiled by the code under test).  The *expected home* of every SMIv1 symbol comes from the rule table below, which
is written from RFC 2578/2579/3418/2863/4293/4022/4113 (which module defines what), not from pysmi's table.
"""

SMI_SYMBOLS = ['internet', 'directory', 'mgmt', 'experimental', 'private', 'enterprises', 'OBJECT-TYPE', 'ObjectName',
               'ObjectSyntax', 'SimpleSyntax', 'ApplicationSyntax', 'NetworkAddress', 'IpAddress', 'Counter', 'Gauge',
               'TimeTicks', 'Opaque']
SMI_RENAMES = {'NetworkAddress': 'IpAddress', 'Counter': 'Counter32', 'Gauge': 'Gauge32'}
MIB1158_SPECIAL = {'nullSpecific': ('SNMPv2-SMI', 'zeroDotZero'), 'ipRoutingTable': ('RFC1213-MIB', 'ipRouteTable'),
                   'snmpEnableAuthTraps': ('SNMPv2-MIB', 'snmpEnableAuthenTraps'),
                   'ipAdEntReasmMaxSiz': ('IP-MIB', 'ipAdEntReasmMaxSize')}
# (the symbol list is the union of what the two RFCs define; checked against the RFC1213-MIB / RFC1158-MIB modules pysnmp ships)
ONLY_1158 = set(MIB1158_SPECIAL) | set(['snmpInBadTypes', 'snmpOutReadOnlys'])
ONLY_1213 = set(['PhysAddress', 'ipRouteInfo', 'ipRouteMetric5', 'ipRouteTable', 'ipRoutingDiscards', 'ipAdEntReasmMaxSize'])
NO_V2_HOME = set(['snmpInBadTypes', 'snmpOutReadOnlys'])   # dropped by RFC 1213, never taken over by SNMPv2-MIB


def expected_home(v1mod, sym):
    """-> (module, symbol) the output must import instead, or None if the symbol has no SMIv2 home."""
    if v1mod in ('RFC1155-SMI', 'RFC1065-SMI'):
        if sym in SMI_SYMBOLS:
            return ('SNMPv2-SMI', SMI_RENAMES.get(sym, sym))
        return None
    if v1mod == 'RFC-1212':
        return ('SNMPv2-SMI', 'OBJECT-TYPE') if sym == 'OBJECT-TYPE' else None
    if v1mod == 'RFC-1215':
        return ('SNMPv2-SMI', 'TRAP-TYPE') if sym == 'TRAP-TYPE' else None
    if v1mod in ('RFC1213-MIB', 'RFC1158-MIB'):
        if v1mod == 'RFC1158-MIB' and sym in MIB1158_SPECIAL:
            return MIB1158_SPECIAL[sym]
        if sym in NO_V2_HOME:
            return None
        if sym in ('mib-2', 'transmission'):
            return ('SNMPv2-SMI', sym)
        if sym in ('DisplayString', 'PhysAddress'):
            return ('SNMPv2-TC', sym)
        if sym.startswith('ipRoute') or sym.startswith('egp') or sym == 'at' or (sym.startswith('at') and sym[2:3].isupper()):
            # groups that no SMIv2 module took over: RFC1213-MIB remains their home
            return ('RFC1213-MIB', sym) if v1mod == 'RFC1158-MIB' else None
        if sym == 'system' or sym.startswith('sys') or sym.startswith('snmp'):
            return ('SNMPv2-MIB', sym)
        if sym == 'interfaces' or sym.startswith('if'):
            return ('IF-MIB', sym)
        if sym in ('ip', 'icmp') or sym.startswith('ip') or sym.startswith('icmp'):
            return ('IP-MIB', sym)
        if sym.startswith('tcp'):
            return ('TCP-MIB', sym)
        if sym.startswith('udp'):
            return ('UDP-MIB', sym)
    return None


MACRO = """%s MACRO ::=
BEGIN
    TYPE NOTATION ::= "x"
    VALUE NOTATION ::= value (VALUE OBJECT IDENTIFIER)
END
"""

V1_TYPES = """
ObjectName ::= OBJECT IDENTIFIER

NetworkAddress ::= CHOICE { internet IpAddress }

IpAddress ::= [APPLICATION 0] IMPLICIT OCTET STRING (SIZE (4))

Counter ::= [APPLICATION 1] IMPLICIT INTEGER (0..4294967295)

Gauge ::= [APPLICATION 2] IMPLICIT INTEGER (0..4294967295)

TimeTicks ::= [APPLICATION 3] IMPLICIT INTEGER (0..4294967295)

Opaque ::= [APPLICATION 4] IMPLICIT OCTET STRING
"""


def smi_v1(name):
    return (name + " DEFINITIONS ::= BEGIN\n\n"
            "internet      OBJECT IDENTIFIER ::= { iso org(3) dod(6) 1 }\n"
            "directory     OBJECT IDENTIFIER ::= { internet 1 }\n"
            "mgmt          OBJECT IDENTIFIER ::= { internet 2 }\n"
            "experimental  OBJECT IDENTIFIER ::= { internet 3 }\n"
            "private       OBJECT IDENTIFIER ::= { internet 4 }\n"
            "enterprises   OBJECT IDENTIFIER ::= { private 1 }\n\n" +
            MACRO % 'OBJECT-TYPE' + V1_TYPES + "\nEND\n")


def node_module(name, root_import, root, symbols, extra=''):
    """A module defining every name in `symbols` as a node under `root` (arc = position)."""
    lines = [name + ' DEFINITIONS ::= BEGIN', '', 'IMPORTS %s FROM %s;' % (root, root_import), '', extra]
    for i, s in enumerate(symbols):
        lines.append('%s OBJECT IDENTIFIER ::= { %s %d }' % (s, root, 1000 + i))
    lines += ['', 'END', '']
    return '\n'.join(lines)


def stub_texts(mib_symbols):
    """mib_symbols: names of the RFC1213/RFC1158 symbols (the enumeration domain)."""
    texts = {
        'RFC1155-SMI': smi_v1('RFC1155-SMI'),
        'RFC1065-SMI': smi_v1('RFC1065-SMI'),
        'RFC-1212': 'RFC-1212 DEFINITIONS ::= BEGIN\n\n' + MACRO % 'OBJECT-TYPE' + '\nEND\n',
        'RFC-1215': 'RFC-1215 DEFINITIONS ::= BEGIN\n\n' + MACRO % 'TRAP-TYPE' + '\nEND\n',
    }
    by_home = {}
    for s in mib_symbols:
        for v1 in ('RFC1213-MIB', 'RFC1158-MIB'):
            h = expected_home(v1, s)
            if h and h[0] not in ('SNMPv2-SMI', 'SNMPv2-TC'):
                by_home.setdefault(h[0], [])
                if h[1] not in by_home[h[0]]:
                    by_home[h[0]].append(h[1])
    tcs = ('DisplayString ::= OCTET STRING (SIZE (0..255))\n\nPhysAddress ::= OCTET STRING\n')
    v1syms = [s for s in mib_symbols if s not in ('mib-2', 'DisplayString', 'PhysAddress')]
    for v1 in ('RFC1213-MIB', 'RFC1158-MIB'):
        extra = 'mib-2 OBJECT IDENTIFIER ::= { mgmt 1 }\n\n' + tcs
        syms = list(v1syms)
        if v1 == 'RFC1213-MIB':
            for s in by_home.get('RFC1213-MIB', []):
                if s not in syms:
                    syms.append(s)
        texts[v1] = node_module(v1, 'RFC1155-SMI', 'mgmt', syms, extra)
    for home, syms in by_home.items():
        if home == 'RFC1213-MIB':
            continue
        texts[home] = node_module(home, 'SNMPv2-SMI', 'mib-2', syms)
    return texts
