"""setup_cmd: nothing to build (pure Python); verify that the tools the checks rely on are present."""
import os
import sys

from mc import core


def main():
    sys.path.insert(0, core.REPO)
    import pysmi  # noqa
    import ply  # noqa
    import jinja2  # noqa
    os.makedirs(os.path.join(core.VERIF, 'evidence'), exist_ok=True)
    os.makedirs(os.path.join(core.VERIF, 'replays'), exist_ok=True)
    print('mc selftest ok: pysmi from %s, %d workers' % (os.path.dirname(pysmi.__file__), core.NPROC))
    return 0


if __name__ == '__main__':
    sys.exit(main())
