"""Reference model of the intermediate representation (what the JSON document / pysnmp module must say about
each declared symbol), written from the MIB semantics, not from pysmi: own OID resolution, own base-type
walk, own literal denotation, own date conversion, own import derivation.
"""
import re

BASE_OIDS = {  # names defined by the SNMPv2-SMI stand-in (basemibs/SNMPv2-SMI)
    'iso': (1,), 'org': (1, 3), 'dod': (1, 3, 6), 'internet': (1, 3, 6, 1), 'directory': (1, 3, 6, 1, 1),
    'mgmt': (1, 3, 6, 1, 2), 'mib-2': (1, 3, 6, 1, 2, 1), 'transmission': (1, 3, 6, 1, 2, 1, 10),
    'experimental': (1, 3, 6, 1, 3), 'private': (1, 3, 6, 1, 4), 'enterprises': (1, 3, 6, 1, 4, 1),
    'security': (1, 3, 6, 1, 5), 'snmpV2': (1, 3, 6, 1, 6), 'snmpDomains': (1, 3, 6, 1, 6, 1),
    'snmpProxys': (1, 3, 6, 1, 6, 2), 'snmpModules': (1, 3, 6, 1, 6, 3), 'zeroDotZero': (0, 0),
}
TC_BASE = {  # textual conventions of the SNMPv2-TC stand-in: name -> (parent syntax)
    'DisplayString': ('simple', 'OCTET STRING', ('size', [(0, 255)])),
    'PhysAddress': ('simple', 'OCTET STRING'),
    'TruthValue': ('simple', 'INTEGER', ('enum', [('true', 1), ('false', 2)])),
    'RowStatus': ('simple', 'INTEGER', ('enum', [('active', 1), ('notInService', 2), ('notReady', 3),
                                               ('createAndGo', 4), ('createAndWait', 5), ('destroy', 6)])),
    'TimeStamp': ('app', 'TimeTicks'),
}
MACRO_HOME = {'OBJECT-TYPE': 'SNMPv2-SMI', 'OBJECT-IDENTITY': 'SNMPv2-SMI', 'MODULE-IDENTITY': 'SNMPv2-SMI',
              'NOTIFICATION-TYPE': 'SNMPv2-SMI', 'TRAP-TYPE': 'SNMPv2-SMI', 'TEXTUAL-CONVENTION': 'SNMPv2-TC',
              'OBJECT-GROUP': 'SNMPv2-CONF', 'NOTIFICATION-GROUP': 'SNMPv2-CONF', 'MODULE-COMPLIANCE': 'SNMPv2-CONF',
              'AGENT-CAPABILITIES': 'SNMPv2-CONF'}
KIND_MACRO = {'ot': 'OBJECT-TYPE', 'oi': 'OBJECT-IDENTITY', 'mi': 'MODULE-IDENTITY', 'nt': 'NOTIFICATION-TYPE',
              'trap': 'TRAP-TYPE', 'tc': 'TEXTUAL-CONVENTION', 'og': 'OBJECT-GROUP', 'ng': 'NOTIFICATION-GROUP',
              'mc': 'MODULE-COMPLIANCE', 'ac': 'AGENT-CAPABILITIES'}
SMI_TYPES = ('Integer32', 'Unsigned32', 'Counter32', 'Counter64', 'Gauge32', 'IpAddress', 'TimeTicks', 'Opaque')
BUILTIN_WORDS = ('INTEGER', 'OCTET STRING', 'OBJECT IDENTIFIER', 'BITS')
# written type word -> pysnmp class name (independent table)
PYSNMP_CLASS = {'INTEGER': 'Integer32', 'Integer32': 'Integer32', 'OCTET STRING': 'OctetString',
                'OBJECT IDENTIFIER': 'ObjectIdentifier', 'Unsigned32': 'Unsigned32', 'Counter32': 'Counter32',
                'Counter64': 'Counter64', 'Gauge32': 'Gauge32', 'IpAddress': 'IpAddress', 'TimeTicks': 'TimeTicks',
                'Opaque': 'Opaque', 'Counter': 'Counter32', 'Gauge': 'Gauge32', 'NetworkAddress': 'IpAddress',
                'BITS': 'Bits'}
# written type word -> primitive base ('int' | 'octets' | 'oid' | 'bits')
PRIMITIVE = {'INTEGER': 'int', 'Integer32': 'int', 'Unsigned32': 'int', 'Counter32': 'int', 'Counter64': 'int',
             'Gauge32': 'int', 'TimeTicks': 'int', 'Counter': 'int', 'Gauge': 'int', 'OCTET STRING': 'octets',
             'IpAddress': 'octets', 'Opaque': 'octets', 'NetworkAddress': 'octets', 'OBJECT IDENTIFIER': 'oid',
             'BITS': 'bits'}


def under(name):
    return name.replace('-', '_')


def defined_names(mod):
    return [d['name'] for d in mod.get('decls') or [] if d['k'] != 'macro']


class Universe(object):
    """A set of module specs plus the base stand-ins; answers name resolution questions independently."""

    def __init__(self, mods):
        self.mods = dict((m['name'], m) for m in mods)
        self.decl = {}
        for m in mods:
            for d in m.get('decls') or []:
                self.decl[(m['name'], d['name'])] = d

    def home(self, modname, sym):
        """Module in which `sym`, as seen from `modname`, is defined."""
        if (modname, sym) in self.decl:
            return modname
        for frm, syms in self.mods[modname].get('imports') or []:
            if sym in syms:
                return frm
        if sym in BASE_OIDS or sym in TC_BASE or sym in SMI_TYPES:
            return 'SNMPv2-SMI' if (sym in BASE_OIDS or sym in SMI_TYPES) else 'SNMPv2-TC'
        raise KeyError('%s not visible in %s' % (sym, modname))

    def oid(self, modname, subids):
        out = ()
        for s in subids:
            if isinstance(s, (list, tuple)):
                out += (s[1],)
            elif isinstance(s, int):
                out += (s,)
            else:
                out += self.oid_of_name(modname, s)
        return out

    def oid_of_name(self, modname, name):
        if (modname, name) not in self.decl:
            if name in BASE_OIDS and not any(name in syms for frm, syms in self.mods[modname].get('imports') or []
                                            if frm in self.mods):
                return BASE_OIDS[name]
            home = self.home(modname, name)
            if home not in self.mods:
                return BASE_OIDS[name]
            return self.oid_of_name(home, name)
        d = self.decl[(modname, name)]
        if d['k'] == 'trap':
            return self.oid(modname, d['enterprise']) + (0, d['num'])
        return self.oid(modname, d['oid'])

    def type_chain(self, modname, syn):
        """Follow named types down to a built-in word.  -> list of syntaxes from `syn` to the built-in one."""
        chain = [syn]
        cur_mod = modname
        while syn[0] == 'ref':
            name = syn[1]
            if (cur_mod, name) in self.decl:
                syn = self.decl[(cur_mod, name)]['syntax']
            else:
                home = self.home(cur_mod, name)
                if home in self.mods:
                    cur_mod = home
                    syn = self.decl[(home, name)]['syntax']
                else:
                    syn = TC_BASE[name]
            chain.append(syn)
        return chain

    def primitive(self, modname, syn):
        last = self.type_chain(modname, syn)[-1]
        if last[0] == 'bits':
            return 'bits'
        if last[0] == 'tagged':
            last = last[3]
        return PRIMITIVE[last[1]]

    def effective_enum(self, modname, syn):
        """Named numbers in force for `syn`: the nearest link of the chain that has an enum / bit list."""
        for link in self.type_chain(modname, syn):
            if link[0] == 'bits':
                return list(link[1])
            if len(link) > 2 and link[2] and link[2][0] == 'enum':
                return list(link[2][1])
        return None


def refs_in_oid(subids):
    return [s for s in subids if isinstance(s, str)]


def finish_module(mod, universe_mods=()):
    """Derive the IMPORTS clause a careful author would write: macro keywords, SMI types, and every referenced name
    that is not defined locally (taken from the other modules of the set or from the base stand-ins)."""
    local = set(defined_names(mod))
    need = {}

    def want(sym, frm):
        if sym not in need.setdefault(frm, []):
            need[frm].append(sym)

    def ref(name):
        if name in local or name == 'iso':
            return
        for other in universe_mods:
            if other['name'] != mod['name'] and name in defined_names(other):
                want(name, other['name'])
                return
        if name in BASE_OIDS or name in SMI_TYPES:
            want(name, 'SNMPv2-SMI')
        elif name in TC_BASE:
            want(name, 'SNMPv2-TC')
        else:
            raise KeyError('unresolvable reference %s in %s' % (name, mod['name']))

    def syn_refs(syn):
        if syn is None:
            return
        if syn[0] == 'ref':
            ref(syn[1])
        elif syn[0] in ('simple', 'app') and syn[1] in SMI_TYPES:
            want(syn[1], 'SNMPv2-SMI')
        elif syn[0] == 'tagged':
            syn_refs(syn[3])
        elif syn[0] == 'seqof':
            ref(syn[1])
        elif syn[0] == 'seq':
            for m in syn[1]:
                if m[1] in SMI_TYPES:
                    want(m[1], 'SNMPv2-SMI')
                elif m[1] not in BUILTIN_WORDS and m[1] not in ('Counter', 'Gauge', 'NetworkAddress'):
                    ref(m[1])

    for d in mod.get('decls') or []:
        k = d['k']
        if k in KIND_MACRO:
            want(KIND_MACRO[k], MACRO_HOME[KIND_MACRO[k]])
        for key in ('oid', 'enterprise'):
            if d.get(key):
                for r in refs_in_oid(d[key]):
                    ref(r)
        if k in ('ot', 'type', 'tc'):
            syn_refs(d['syntax'])
        if k == 'ot':
            if d.get('augments'):
                ref(d['augments'])
            for _, n in d.get('index') or []:
                if n not in ('INTEGER', 'OCTET STRING', 'IpAddress', 'NetworkAddress'):
                    ref(n)
            dv = d.get('defval')
            if dv and dv[0] == 'id' and dv[2:] == ('oid',):
                ref(dv[1])
        if k in ('nt', 'og', 'ng'):
            for n in d.get('objects') or []:
                ref(n)
        if k == 'trap':
            for n in d.get('vars') or []:
                ref(n)
        if k == 'mc':
            for m in d['modules']:
                if m.get('name') and m['name'] != mod['name']:
                    continue  # groups of another module are named there, not imported
                for n in m.get('mandatory') or []:
                    ref(n)
                for item in m.get('items') or []:
                    ref(item[1])
    mod = dict(mod)
    mod['imports'] = sorted(need.items()) or None
    return mod


def smi_date(text):
    """ExtUTCTime -> 'YYYY-MM-DD HH:MM' (own conversion)."""
    if len(text) == 11:
        text = '19' + text
    m = re.match(r'^(\d{4})(\d{2})(\d{2})(\d{2})(\d{2})Z$', text)
    if not m:
        return None
    return '%s-%s-%s %s:%s' % m.groups()


def denote_int(v):
    """Integer denoted by a literal as written: int, 'ff'H, '0101'B."""
    if isinstance(v, int):
        return v
    body, radix = v[1:-2], v[-1].lower()
    if body == '':
        return None
    return int(body, 16 if radix == 'h' else 2)


def nodetype(mod, d):
    """table / row / column / scalar as the SYNTAX and the SEQUENCE definitions of the module dictate."""
    syn = d['syntax']
    if syn[0] == 'seqof':
        return 'table'
    seq_members = set()
    rows = set()
    for o in mod.get('decls') or []:
        if o['k'] == 'type' and o['syntax'][0] == 'seq':
            seq_members.update(m[0] for m in o['syntax'][1])
        if o['k'] == 'ot' and o['syntax'][0] == 'seqof':
            rows.add(o['syntax'][1])
    if d['name'] in seq_members:
        return 'column'
    if syn[0] == 'ref' and len(syn) < 3 and syn[1] in rows:
        return 'row'
    return 'scalar'


JSON_CLASS = {'value': 'objectidentity', 'oi': 'objectidentity', 'ot': 'objecttype', 'nt': 'notificationtype',
              'trap': 'notificationtype', 'mi': 'moduleidentity', 'og': 'objectgroup', 'ng': 'notificationgroup',
              'mc': 'modulecompliance', 'ac': 'agentcapabilities', 'type': 'type', 'tc': 'textualconvention'}
PYSNMP_NODE = {'value': 'ObjectIdentity', 'oi': 'ObjectIdentity', 'nt': 'NotificationType', 'trap': 'NotificationType',
               'mi': 'ModuleIdentity', 'og': 'ObjectGroup', 'ng': 'NotificationGroup', 'mc': 'ModuleCompliance',
               'ac': 'AgentCapabilities'}
PYSNMP_OT = {'scalar': 'MibScalar', 'table': 'MibTable', 'row': 'MibTableRow', 'column': 'MibTableColumn'}


def has_entry(d):
    """Declarations that denote a symbol of the module (DESIGN.md section 4: SEQUENCE row types and CHOICE types
    have no record kind in either back end and are skipped on purpose)."""
    if d['k'] in ('macro', 'choice'):
        return False
    if d['k'] == 'type' and d['syntax'][0] == 'seq':
        return False
    return True


def expected_core(universe, mod, d):
    """The fields C03 compares, as far as the declaration defines them (None = must be absent or empty)."""
    k = d['k']
    exp = {'name': under(d['name']), 'class': JSON_CLASS[k]}
    if k not in ('type', 'tc'):
        exp['oid'] = '.'.join(str(x) for x in universe.oid_of_name(mod['name'], d['name']))
    if k == 'ot':
        exp['nodetype'] = nodetype(mod, d)
        exp['maxaccess'] = d['access'][1] if d.get('access') else None
        exp['units'] = d.get('units') or None
    if k in ('ot', 'oi', 'nt', 'og', 'ng', 'mc', 'ac', 'tc'):
        exp['status'] = d['status']
    if k == 'mi':
        exp['revisions'] = [smi_date(r) for r, _ in d.get('revs') or []] or None
    return exp
