"""C16 - SMIv1 modules compile to the same objects as their SMIv2 transliteration.

imports      every symbol of the SMIv1 base modules that has an SMIv2 home x every SMIv1 module it may be imported
             from: the output must import it from the SMIv2 module that defines it (independent rule table) and not
             from the SMIv1 module
equivalence  SMIv1-expressible module shapes (scalars of every SMIv1 type, INTEGER ranges / enumerations, a table with
             object-name INDEX, TRAP-TYPE with 0..2 VARIABLES, every ACCESS word) rendered as SMIv1 text and as the
             mechanical SMIv2 transliteration: same symbols, OIDs, classes, node types, access, object lists, indices;
             pysnmp classes Counter32 / Gauge32 / IpAddress / Integer32; trap <-> notification OID
"""
import itertools
import json
import os

from mc import core, env, mibspec, pysnmp_rec, refir, v1stubs
from mc.env import error

BOUNDS = {
    'quick': 'imports: all 195+17+2 (module, symbol) pairs; equivalence: every v1 type x 4 ACCESS words, tables with 1-2 '
             'columns x index choices, traps with 0..2 variables, sequences of 2 declarations over 6 shapes',
    'thorough': 'equivalence: sequences of 3 declarations over 6 shapes, both back ends',
}
ASSUMPTIONS = ['SMIv1 base modules and their SMIv2 successors are generated stand-ins (mc/v1stubs.py)',
               'STATUS words differ legitimately between the dialects (mandatory vs current) and are not compared']

with open(os.path.join(core.VERIF, 'basemibs', 'rfc1213-symbols.json')) as _f:
    MIB_SYMBOLS = json.load(_f)

_stubs = {}


def stubs():
    if not _stubs:
        _stubs.update(v1stubs.stub_texts(MIB_SYMBOLS))
    return _stubs


STUB_NAMES = ('SNMPv2-SMI', 'SNMPv2-TC', 'SNMPv2-CONF', 'RFC1155-SMI', 'RFC1065-SMI', 'RFC-1212', 'RFC-1215',
              'RFC1213-MIB', 'RFC1158-MIB', 'SNMPv2-MIB', 'IF-MIB', 'IP-MIB', 'TCP-MIB', 'UDP-MIB')


def compile_v(texts, requested, backend, dialect='smiV1Relaxed'):
    alltexts = dict(stubs())
    alltexts.update(texts)
    parser = env.shared_parser(dialect)
    parser.reset()
    return env.compile_set(alltexts, requested, codegen=backend, dialect=parser, stubs=STUB_NAMES)


def import_pairs():
    out = []
    for v1 in ('RFC1155-SMI', 'RFC1065-SMI'):
        for s in v1stubs.SMI_SYMBOLS:
            out.append((v1, s))
    out.append(('RFC-1212', 'OBJECT-TYPE'))
    out.append(('RFC-1215', 'TRAP-TYPE'))
    for v1 in ('RFC1213-MIB', 'RFC1158-MIB'):
        for s in MIB_SYMBOLS:
            if v1 == 'RFC1213-MIB' and s in v1stubs.ONLY_1158:
                continue  # names that only RFC1158-MIB has
            if v1 == 'RFC1158-MIB' and s in v1stubs.ONLY_1213:
                continue  # introduced by RFC1213-MIB
            if v1stubs.expected_home(v1, s):
                out.append((v1, s))
    return out


class Imports(object):
    name = 'imports'
    describe = ('every (SMIv1 base module, symbol) with an SMIv2 home: a module importing just that symbol is compiled; the '
                'JSON imports table and the importSymbols() calls of the executed pysnmp module must name the SMIv2 home')

    def blocks(self, tier):
        pairs = import_pairs()
        return [{'lo': i, 'hi': min(i + 16, len(pairs))} for i in range(0, len(pairs), 16)]

    def cases(self, block, tier):
        pairs = import_pairs()
        for i in range(block['lo'], block['hi']):
            yield {'v1': pairs[i][0], 'sym': pairs[i][1]}

    def run_case(self, case):
        v1, sym = case['v1'], case['sym']
        home, newsym = v1stubs.expected_home(v1, sym)
        text = ('V1TEST-MIB DEFINITIONS ::= BEGIN\nIMPORTS %s FROM %s\n    enterprises FROM RFC1155-SMI;\n'
                'testRoot OBJECT IDENTIFIER ::= { enterprises 4242 }\nEND\n' % (sym, v1))
        group = 'smi' if v1 in ('RFC1155-SMI', 'RFC1065-SMI', 'RFC-1212', 'RFC-1215') else \
            'special' if sym in v1stubs.MIB1158_SPECIAL else home
        sig = 'C16|imports|%s|%s' % (v1, group)
        vs = []
        outcome = []
        for backend in ('json', 'pysnmp'):
            res, written = compile_v({'V1TEST-MIB': text}, ['V1TEST-MIB'], backend)
            st = res.get('V1TEST-MIB')
            if st != 'compiled':
                vs.append(('%s|%s|not-compiled' % (sig, backend), '%s\n%r %r' % (text, st, getattr(st, 'error', None))))
                continue
            if backend == 'json':
                imps = json.loads(written['V1TEST-MIB']).get('imports', {})
                imported = set((m, s) for m, syms in imps.items() if isinstance(syms, list) for s in syms)
            else:
                b = pysnmp_rec.RecBuilder()
                ns, err = pysnmp_rec.run_module(written['V1TEST-MIB'], b)
                if err:
                    vs.append(('%s|pysnmp|does-not-execute' % sig, err))
                    continue
                imported = set((m, s) for m, s, ok in b.imports)
                # macro names are imported as the pysnmp classes that implement them
                if newsym in ('OBJECT-TYPE', 'TRAP-TYPE'):
                    newsym_py = {'OBJECT-TYPE': 'MibScalar', 'TRAP-TYPE': 'NotificationType'}[newsym]
                    imported |= set((m, newsym) for m, s in imported if s == newsym_py)
            outcome.append(sorted(m for m, s in imported if s in (sym, newsym)))
            if (home, newsym) not in imported:
                vs.append(('%s|%s|not-imported-from-smiv2-home' % (sig, backend),
                           '%s FROM %s: expected (%s, %s) among imports %r' % (sym, v1, home, newsym, sorted(imported))))
            if (v1, sym) in imported and (v1, sym) != (home, newsym):
                vs.append(('%s|%s|still-imported-from-smiv1-module' % (sig, backend),
                           '%s FROM %s still imported: %r' % (sym, v1, sorted(imported))))
        return repr(outcome), vs, 2


# --------------------------------------------------------------------------- equivalence

V1_TYPES = [('INTEGER', 'INTEGER', 'Integer32'), ('Counter', 'Counter32', 'Counter32'), ('Gauge', 'Gauge32', 'Gauge32'),
            ('TimeTicks', 'TimeTicks', 'TimeTicks'), ('IpAddress', 'IpAddress', 'IpAddress'),
            ('NetworkAddress', 'IpAddress', 'IpAddress'), ('Opaque', 'Opaque', 'Opaque'),
            ('OCTET STRING', 'OCTET STRING', 'OctetString'), ('OBJECT IDENTIFIER', 'OBJECT IDENTIFIER', 'ObjectIdentifier'),
            ('DisplayString', 'DisplayString', 'OctetString'), ('INTEGER-range', 'INTEGER-range', 'Integer32'),
            ('INTEGER-enum', 'INTEGER-enum', 'Integer32')]
ACCESS = ['read-only', 'read-write', 'write-only', 'not-accessible']


def syn_of(word):
    if word == 'INTEGER-range':
        return ('simple', 'INTEGER', ('range', [(0, 65535)]))
    if word == 'INTEGER-enum':
        return ('simple', 'INTEGER', ('enum', [('up', 1), ('down', 2)]))
    if word == 'DisplayString':
        return ('ref', 'DisplayString')
    if word in ('INTEGER', 'OCTET STRING', 'OBJECT IDENTIFIER'):
        return ('simple', word)
    return ('app', word)


def shape_decls(shape, i, v2):
    """Declarations of one shape in slot i, SMIv1 spelling or its SMIv2 transliteration."""
    status = 'current' if v2 else 'mandatory'
    acc_kw = 'MAX-ACCESS' if v2 else 'ACCESS'
    n = 's%d' % i
    kind, arg = shape

    def obj(name, word, oid, access='read-only', **kw):
        d = {'k': 'ot', 'name': name, 'syntax': syn_of(word), 'access': (acc_kw, access), 'status': status,
             'descr': 'd', 'oid': oid}
        d.update(kw)
        return d

    if kind == 'scalar':
        t, acc = arg
        return [obj(n + 'Scalar', V1_TYPES[t][1 if v2 else 0], ['testRoot', 10 + i], ACCESS[acc])]
    if kind == 'scalar-defval':
        # a scalar of SMIv1 type t with a DEFVAL in a notation legal for it
        word = V1_TYPES[arg][1 if v2 else 0]
        dv = {'INTEGER': ('num', 5), 'Counter': ('num', 0), 'Gauge': ('num', 7), 'TimeTicks': ('num', 100),
              'IpAddress': ('lit', "'c0a80001'H"), 'NetworkAddress': ('lit', "'c0a80001'H"), 'Opaque': ('lit', "'ff'H"),
              'OCTET STRING': ('str', 'abc'), 'OBJECT IDENTIFIER': ('id', 'testRoot', 'oid'), 'DisplayString': ('str', 'abc'),
              'INTEGER-range': ('num', 9), 'INTEGER-enum': ('id', 'down')}[V1_TYPES[arg][0]]
        return [obj(n + 'Scalar', word, ['testRoot', 10 + i], 'read-write', defval=dv)]
    if kind == 'table':
        ncols, idx = arg
        cols = [n + 'Idx', n + 'Val', n + 'Aux'][:ncols + 1]
        row = 'S%dEntry' % i
        words = ['INTEGER', 'Counter', 'NetworkAddress']
        index = {0: [(0, cols[0])], 1: [(0, cols[0]), (0, cols[-1])], 2: [(0, 'foreignIdx')]}[idx]
        decls = [{'k': 'ot', 'name': n + 'Table', 'syntax': ('seqof', row), 'access': (acc_kw, 'not-accessible'),
                  'status': status, 'descr': 'd', 'oid': ['testRoot', 10 + i]},
                 {'k': 'ot', 'name': n + 'Entry', 'syntax': ('ref', row), 'access': (acc_kw, 'not-accessible'),
                  'status': status, 'descr': 'd', 'index': index, 'oid': [n + 'Table', 1]},
                 {'k': 'type', 'name': row, 'syntax': ('seq', [(c, V1_TYPES[[0, 1, 5][j]][1 if v2 else 0]) for j, c in enumerate(cols)])}]
        for j, c in enumerate(cols):
            decls.append(obj(c, V1_TYPES[[0, 1, 5][j]][1 if v2 else 0], [n + 'Entry', j + 1]))
        return decls
    if kind == 'trap':
        vars_ = [['foreignIdx'], ['foreignIdx', 'foreignVal'], None][arg]
        if v2:
            return [{'k': 'nt', 'name': n + 'Trap', 'objects': vars_, 'status': 'current', 'descr': 'd',
                     'oid': ['testRoot', 0, 20 + i]}]
        return [{'k': 'trap', 'name': n + 'Trap', 'enterprise': ['testRoot'], 'vars': vars_, 'descr': 'd', 'num': 20 + i}]
    if kind == 'trap0':
        # the enterprise of the trap is a node whose own OID ends in arc 0
        zero = {'k': 'value', 'name': n + 'Zero', 'oid': ['testRoot', 0]}
        if v2:
            return [zero, {'k': 'nt', 'name': n + 'Trap', 'objects': None, 'status': 'current', 'descr': 'd',
                           'oid': [n + 'Zero', 0, arg]}]
        return [zero, {'k': 'trap', 'name': n + 'Trap', 'enterprise': [n + 'Zero'], 'vars': None, 'descr': 'd', 'num': arg}]
    if kind == 'node':
        return [{'k': 'value', 'name': n + 'Node', 'oid': ['testRoot', 10 + i]}]
    raise ValueError(shape)


def fixed_context(v2):
    status = 'current' if v2 else 'mandatory'
    acc_kw = 'MAX-ACCESS' if v2 else 'ACCESS'
    return [{'k': 'value', 'name': 'testRoot', 'oid': ['enterprises', 4242]},
            {'k': 'ot', 'name': 'foreignIdx', 'syntax': ('simple', 'INTEGER'), 'access': (acc_kw, 'read-only'),
             'status': status, 'descr': 'd', 'oid': ['testRoot', 1]},
            {'k': 'ot', 'name': 'foreignVal', 'syntax': ('simple', 'OCTET STRING'), 'access': (acc_kw, 'read-only'),
             'status': status, 'descr': 'd', 'oid': ['testRoot', 2]}]


def v1_imports(decls):
    """IMPORTS of the SMIv1 rendering: everything comes from the SMIv1 base modules."""
    need = {'RFC1155-SMI': ['enterprises'], 'RFC-1212': ['OBJECT-TYPE']}
    text = json.dumps(decls)
    for w in ('Counter', 'Gauge', 'TimeTicks', 'IpAddress', 'NetworkAddress', 'Opaque'):
        if '"%s"' % w in text:
            need['RFC1155-SMI'].append(w)
    if '"DisplayString"' in text:
        need['RFC1213-MIB'] = ['DisplayString']
    if any(d['k'] == 'trap' for d in decls):
        need['RFC-1215'] = ['TRAP-TYPE']
    return sorted(need.items())


SHAPES = [('scalar', (t, a)) for t in range(len(V1_TYPES)) for a in range(len(ACCESS))] + \
         [('table', (c, x)) for c in (1, 2) for x in (0, 1, 2)] + [('trap', v) for v in (0, 1, 2)] + [('node', 0)] + \
         [('trap0', 5), ('trap0', 0)] + [('scalar-defval', t) for t in range(len(V1_TYPES))]
SEQ_SHAPES = [('scalar', (1, 0)), ('scalar', (5, 1)), ('table', (1, 0)), ('table', (2, 1)), ('trap', 1), ('node', 0)]


def compare(shapes, sig, dialect='smiV1Relaxed'):
    v1d = fixed_context(False)
    v2d = fixed_context(True)
    for i, sh in enumerate(shapes):
        v1d += shape_decls(sh, i, False)
        v2d += shape_decls(sh, i, True)
    m1 = {'name': 'V1TEST-MIB', 'imports': v1_imports(v1d), 'decls': v1d}
    m2 = refir.finish_module({'name': 'V2TEST-MIB', 'decls': v2d})
    t1, t2 = mibspec.pretty([m1]), mibspec.pretty([m2])
    vs = []
    docs = {}
    steps = 0
    for backend in ('json', 'pysnmp'):
        r1, w1 = compile_v({'V1TEST-MIB': t1}, ['V1TEST-MIB'], backend, dialect)
        r2, w2 = compile_v({'V2TEST-MIB': t2}, ['V2TEST-MIB'], backend)
        steps += 2
        if dialect != 'smiV1Relaxed' and r1.get('V1TEST-MIB') == 'failed' and \
                isinstance(getattr(r1['V1TEST-MIB'], 'error', None), error.PySmiLexerError):
            return 'refused-by-the-dialect', [], steps     # a grammar without the SMIv1 words need not take every SMIv1 text
        if r1.get('V1TEST-MIB') != 'compiled' or r2.get('V2TEST-MIB') != 'compiled':
            vs.append(('%s|%s|not-compiled|v1=%s|v2=%s' % (sig, backend, r1.get('V1TEST-MIB'), r2.get('V2TEST-MIB')),
                       '%s\n%r\n%s\n%r' % (t1, getattr(r1.get('V1TEST-MIB'), 'error', None), t2,
                                           getattr(r2.get('V2TEST-MIB'), 'error', None))))
            continue
        if backend == 'json':
            d1, d2 = json.loads(w1['V1TEST-MIB']), json.loads(w2['V2TEST-MIB'])
            k1 = set(d1) - set(['imports', 'meta'])
            k2 = set(d2) - set(['imports', 'meta'])
            if k1 != k2:
                vs.append(('%s|json|symbol-sets-differ' % sig, 'v1 only %r, v2 only %r\n%s' % (sorted(k1 - k2), sorted(k2 - k1), t1)))
            for k in sorted(k1 & k2):
                for field in ('oid', 'class', 'nodetype', 'maxaccess', 'objects', 'indices', 'default'):
                    a, b = d1[k].get(field), d2[k].get(field)
                    if field in ('objects', 'indices') and a and b:
                        a = [dict(x, module='*') for x in a]
                        b = [dict(x, module='*') for x in b]
                    if a != b:
                        vs.append(('%s|json|%s-differs|%s' % (sig, field, d2[k].get('class')),
                                   'symbol %s: v1 %r, v2 %r\n%s' % (k, d1[k].get(field), d2[k].get(field), t1)))
                for field in ('objects', 'indices'):
                    for x in d1[k].get(field) or []:
                        if x.get('module') != 'V1TEST-MIB':
                            vs.append(('%s|json|%s-module' % (sig, field), '%s: %r' % (k, x)))
            docs = d1
        else:
            nss = []
            for text_, name in ((w1['V1TEST-MIB'], 'V1TEST-MIB'), (w2['V2TEST-MIB'], 'V2TEST-MIB')):
                b = pysnmp_rec.RecBuilder()
                ns, err = pysnmp_rec.run_module(text_, b, name)
                if err:
                    vs.append(('%s|pysnmp|does-not-execute|%s' % (sig, name[:2]), '%s\n%s' % (err, t1)))
                    ns = None
                nss.append((ns, b))
            if nss[0][0] is None or nss[1][0] is None:
                continue
            e1 = nss[0][1].exports.get('V1TEST-MIB', {})
            e2 = nss[1][1].exports.get('V2TEST-MIB', {})
            if set(e1) != set(e2):
                vs.append(('%s|pysnmp|export-sets-differ' % sig, '%r vs %r' % (sorted(e1), sorted(e2))))
            for k in sorted(set(e1) & set(e2)):
                o1, o2 = e1[k], e2[k]
                if isinstance(o1, pysnmp_rec.Node) and isinstance(o2, pysnmp_rec.Node):
                    if (o1.kind, o1.oid) != (o2.kind, o2.oid):
                        vs.append(('%s|pysnmp|object-differs|%s' % (sig, o2.kind), '%s: v1 %r %r, v2 %r %r' % (
                            k, o1.kind, o1.oid, o2.kind, o2.oid)))
                    c1, c2 = pysnmp_rec.syntax_of(o1), pysnmp_rec.syntax_of(o2)
                    b1 = c1.basechain() if isinstance(c1, type) and hasattr(c1, 'basechain') else None
                    b2 = c2.basechain() if isinstance(c2, type) and hasattr(c2, 'basechain') else None
                    if b1 != b2:
                        vs.append(('%s|pysnmp|syntax-class-differs|%s' % (sig, (b2 or ['?'])[0]), '%s: v1 %r, v2 %r' % (k, b1, b2)))
                    for call in ('setMaxAccess', 'setObjects', 'setIndexNames'):
                        a1 = [tuple(x[1:] if isinstance(x, tuple) and len(x) == 2 else x) for c in o1.called(call) for x in c]
                        a2 = [tuple(x[1:] if isinstance(x, tuple) and len(x) == 2 else x) for c in o2.called(call) for x in c]
                        if call == 'setIndexNames':
                            a1 = [(x[0], x[2]) for c in o1.called(call) for x in c]
                            a2 = [(x[0], x[2]) for c in o2.called(call) for x in c]
                        if a1 != a2:
                            vs.append(('%s|pysnmp|%s-differs' % (sig, call), '%s: v1 %r, v2 %r' % (k, a1, a2)))
    # explicit expectations that do not rest on the v2 run
    for i, sh in enumerate(shapes):
        if sh[0] == 'scalar' and docs:
            ent = docs.get('s%dScalar' % i, {})
            if ent.get('maxaccess') != ACCESS[sh[1][1]]:
                vs.append(('%s|json|access-not-maxaccess' % sig, repr(ent)))
        if sh[0] == 'trap0' and docs:
            ent = docs.get('s%dTrap' % i, {})
            if ent.get('oid') != '1.3.6.1.4.1.4242.0.0.%d' % sh[1]:
                vs.append(('%s|json|trap-oid-not-enterprise.0.number' % sig, repr(ent)))
        if sh[0] == 'trap' and docs:
            ent = docs.get('s%dTrap' % i, {})
            if ent.get('oid') != '1.3.6.1.4.1.4242.0.%d' % (20 + i) or ent.get('class') != 'notificationtype':
                vs.append(('%s|json|trap-not-a-notification' % sig, repr(ent)))
    return repr(sorted((k, v.get('oid'), v.get('class'), v.get('nodetype')) for k, v in docs.items()
                       if isinstance(v, dict) and 'class' in v)), vs, steps


class Equivalence(object):
    name = 'equivalence'
    describe = ('each of 70 SMIv1-expressible shapes alone (scalars of 12 types x 4 ACCESS words, scalars of the 12 types with a DEFVAL, tables with 1-2 extra columns x 3 '
                'INDEX choices, TRAP-TYPE with 0..2 VARIABLES, plain node) and every sequence of 2 (3) shapes over 6 '
                'representatives, as SMIv1 text and as SMIv2 transliteration')

    def blocks(self, tier):
        return [{'single': [i, min(i + 8, len(SHAPES))]} for i in range(0, len(SHAPES), 8)] + \
               [{'first': f} for f in range(len(SEQ_SHAPES))]

    def cases(self, block, tier):
        if 'single' in block:
            for i in range(*block['single']):
                yield {'shapes': [i], 'seq': 0}
            return
        n = 3 if tier == 'thorough' else 2
        for rest in itertools.product(range(len(SEQ_SHAPES)), repeat=n - 1):
            yield {'shapes': [block['first']] + list(rest), 'seq': 1}

    def run_case(self, case):
        src = SEQ_SHAPES if case['seq'] else SHAPES
        shapes = [src[i] for i in case['shapes']]
        label = '+'.join(sorted(set(s[0] for s in shapes)))
        if len(shapes) == 1 and shapes[0][0] == 'scalar':
            label += ':' + V1_TYPES[shapes[0][1][0]][0]
        if len(shapes) == 1 and shapes[0][0] == 'scalar-defval':
            label += ':' + V1_TYPES[shapes[0][1]][0]
        return compare(shapes, 'C16|equiv|%s' % label)


class EquivalenceOtherDialects(Equivalence):
    name = 'equivalence-under-the-other-dialects'
    describe = ('the single shapes again, the SMIv1 text parsed by the strict SMIv2 dialect (where Counter, Gauge, NetworkAddress are '
                'plain type names; the package\'s own tests read SMIv1 this way) and by the SMIv1 dialect: whenever the dialect takes '
                'the text, the result equals the transliteration\'s')

    def blocks(self, tier):
        return [{'single': [i, min(i + 8, len(SHAPES))], 'd': d} for i in range(0, len(SHAPES), 8) for d in ('smiV2', 'smiV1')]

    def cases(self, block, tier):
        for i in range(*block['single']):
            yield {'shapes': [i], 'seq': 0, 'd': block['d']}

    def run_case(self, case):
        shapes = [SHAPES[i] for i in case['shapes']]
        label = '+'.join(sorted(set(s[0] for s in shapes)))
        if shapes[0][0] == 'scalar':
            label += ':' + V1_TYPES[shapes[0][1][0]][0]
        if shapes[0][0] == 'scalar-defval':
            label += ':' + V1_TYPES[shapes[0][1]][0]
        return compare(shapes, 'C16|equiv-%s|%s' % (case['d'], label), case['d'])


class TypeIndex(object):
    name = 'type-valued-index'
    describe = 'SMIv1 INDEX { INTEGER } / { OCTET STRING } / { IpAddress } / { NetworkAddress } (no SMIv2 form): must compile'

    def blocks(self, tier):
        return [{}]

    def cases(self, block, tier):
        for w in ('INTEGER', 'OCTET STRING', 'IpAddress', 'NetworkAddress'):
            yield {'w': w}

    def run_case(self, case):
        d = fixed_context(False) + shape_decls(('table', (1, 0)), 0, False)
        for x in d:
            if x.get('index'):
                x['index'] = [(0, case['w'])]
        m1 = {'name': 'V1TEST-MIB', 'imports': v1_imports(d), 'decls': d}
        t1 = mibspec.pretty([m1])
        vs = []
        for backend in ('json', 'pysnmp'):
            r1, w1 = compile_v({'V1TEST-MIB': t1}, ['V1TEST-MIB'], backend)
            if r1.get('V1TEST-MIB') != 'compiled':
                vs.append(('C16|type-valued-index|%s|not-compiled' % backend, '%s\n%r' % (t1, getattr(r1.get('V1TEST-MIB'), 'error', None))))
        return 'x', vs, 2


RENAMED = dict(v1stubs.MIB1158_SPECIAL)


class RenamedUses(object):
    name = 'uses-of-renamed-symbols'
    describe = ('the four RFC1158-MIB symbols whose SMIv2 successor has another NAME (nullSpecific, ipRoutingTable, '
                'snmpEnableAuthTraps, ipAdEntReasmMaxSiz), imported by an SMIv1 module and USED in its body - as OID parent, TRAP-TYPE VARIABLES member, '
                'OBJECT IDENTIFIER DEFVAL: the references must come out as in the transliteration (new name, new module)')

    def blocks(self, tier):
        return [{}]

    def cases(self, block, tier):
        for sym in sorted(RENAMED):
            for use in ('parent', 'variables', 'defval'):
                yield {'sym': sym, 'use': use}

    def run_case(self, case):
        sym, use = case['sym'], case['use']
        home, newname = RENAMED[sym]

        def body(v2):
            ref = newname if v2 else sym
            acc, st = ('MAX-ACCESS', 'current') if v2 else ('ACCESS', 'mandatory')
            d = fixed_context(v2)
            if use == 'parent':
                d.append({'k': 'value', 'name': 'hungBelow', 'oid': [ref, 77]})
            elif use == 'variables':
                if v2:
                    d.append({'k': 'nt', 'name': 'theTrap', 'objects': [ref], 'status': 'current', 'descr': 'd', 'oid': ['testRoot', 0, 5]})
                else:
                    d.append({'k': 'trap', 'name': 'theTrap', 'enterprise': ['testRoot'], 'vars': [ref], 'descr': 'd', 'num': 5})
            else:
                d.append({'k': 'ot', 'name': 'oidObj', 'syntax': ('simple', 'OBJECT IDENTIFIER'), 'access': (acc, 'read-write'),
                          'status': st, 'descr': 'd', 'oid': ['testRoot', 9], 'defval': ('id', ref, 'oid')})
            return d
        d1, d2 = body(False), body(True)
        imps = dict(v1_imports(d1))
        imps['RFC1158-MIB'] = [sym]
        m1 = {'name': 'V1TEST-MIB', 'imports': sorted(imps.items()), 'decls': d1}
        imps2 = {'SNMPv2-SMI': ['enterprises', 'OBJECT-TYPE'] + (['NOTIFICATION-TYPE'] if use == 'variables' else [])}
        imps2.setdefault(home, []).append(newname)
        m2 = {'name': 'V2TEST-MIB', 'imports': sorted(imps2.items()), 'decls': d2}
        t1, t2 = mibspec.pretty([m1]), mibspec.pretty([m2])
        sig = 'C16|renamed-use|%s|%s' % (sym, use)
        vs = []
        r1, w1 = compile_v({'V1TEST-MIB': t1}, ['V1TEST-MIB'], 'json')
        r2, w2 = compile_v({'V2TEST-MIB': t2}, ['V2TEST-MIB'], 'json')
        if r2.get('V2TEST-MIB') != 'compiled':
            raise core.InternalError('the SMIv2 transliteration does not compile: %r\n%s' % (getattr(r2.get('V2TEST-MIB'), 'error', None), t2))
        if r1.get('V1TEST-MIB') != 'compiled':
            return 'failed', [('%s|not-compiled' % sig, '%s\n%r' % (t1, getattr(r1.get('V1TEST-MIB'), 'error', None)))], 2
        doc1, doc2 = json.loads(w1['V1TEST-MIB']), json.loads(w2['V2TEST-MIB'])
        name = {'parent': 'hungBelow', 'variables': 'theTrap', 'defval': 'oidObj'}[use]
        for field in ('oid', 'objects', 'default'):
            a, b = doc1.get(name, {}).get(field), doc2.get(name, {}).get(field)
            if a != b:
                vs.append(('%s|%s-differs' % (sig, field), 'SMIv1 %r, transliteration %r\n%s' % (a, b, t1)))
        return 'ok', vs, 2


class MixedImports(object):
    name = 'moved-and-kept-symbols-of-one-module'
    describe = ('an SMIv1 module taking, in ONE clause, a symbol that has an SMIv2 home (moves to SNMPv2-TC / IF-MIB / SNMPv2-MIB / '
                'IP-MIB / RFC1213-MIB) and a symbol that has none (stays with RFC1213-MIB resp. RFC1158-MIB), in either order, and '
                'hanging a node below the one that stays: compiles to what the transliteration (each symbol from its home) gives')

    PAIRS = [('RFC1213-MIB', moved, kept) for moved in ('DisplayString', 'ifIndex', 'sysDescr', 'ipForwarding')
             for kept in ('ipRouteEntry', 'atTable', 'egp')] + \
            [('RFC1158-MIB', moved, 'snmpInBadTypes') for moved in ('DisplayString', 'ipRoutingTable', 'egp', 'ifIndex')]

    def blocks(self, tier):
        return [{}]

    def cases(self, block, tier):
        for i in range(len(self.PAIRS)):
            for order in (0, 1):
                for backend in ('json', 'pysnmp'):
                    yield {'pair': i, 'order': order, 'backend': backend}

    def run_case(self, case):
        v1mod, moved, kept = self.PAIRS[case['pair']]
        home = v1stubs.expected_home(v1mod, moved)
        assert home and not v1stubs.expected_home(v1mod, kept), (v1mod, moved, kept)
        d1 = fixed_context(False) + [{'k': 'value', 'name': 'hungBelow', 'oid': [kept, 77]}]
        d2 = fixed_context(True) + [{'k': 'value', 'name': 'hungBelow', 'oid': [kept, 77]}]
        imps = dict(v1_imports(d1))
        imps[v1mod] = [moved, kept] if case['order'] == 0 else [kept, moved]
        m1 = {'name': 'V1TEST-MIB', 'imports': sorted(imps.items()), 'decls': d1}
        imps2 = {'SNMPv2-SMI': ['enterprises', 'OBJECT-TYPE']}
        imps2.setdefault(home[0], []).append(home[1])
        imps2.setdefault(v1mod, []).append(kept)
        m2 = {'name': 'V2TEST-MIB', 'imports': sorted(imps2.items()), 'decls': d2}
        t1, t2 = mibspec.pretty([m1]), mibspec.pretty([m2])
        sig = '%s|moved-and-kept|%s|%s+%s|%s' % (getattr(self, 'prefix', 'C16'), v1mod, moved, kept, case['backend'])
        r1, w1 = compile_v({'V1TEST-MIB': t1}, ['V1TEST-MIB'], case['backend'])
        r2, w2 = compile_v({'V2TEST-MIB': t2}, ['V2TEST-MIB'], case['backend'])
        if r2.get('V2TEST-MIB') != 'compiled':
            raise core.InternalError('the SMIv2 transliteration does not compile: %r\n%s' % (getattr(r2.get('V2TEST-MIB'), 'error', None), t2))
        if r1.get('V1TEST-MIB') != 'compiled':
            return 'failed', [('%s|not-compiled' % sig, '%s\n%r\nstatuses %r' % (
                t1, getattr(r1.get('V1TEST-MIB'), 'error', None), dict((k, str(v)) for k, v in r1.items())))], 2
        vs = []
        if case['backend'] == 'json':
            doc1, doc2 = json.loads(w1['V1TEST-MIB']), json.loads(w2['V2TEST-MIB'])
            if doc1.get('hungBelow', {}).get('oid') != doc2.get('hungBelow', {}).get('oid'):
                vs.append(('%s|oid-differs' % sig, 'SMIv1 %r, transliteration %r\n%s' % (doc1.get('hungBelow'), doc2.get('hungBelow'), t1)))
            i1 = dict((k, sorted(v)) for k, v in doc1.get('imports', {}).items() if k != 'class')
            if home[1] not in i1.get(home[0], []) or kept not in i1.get(v1mod, []):
                vs.append(('%s|imports-differ' % sig, 'imports %r\n%s' % (i1, t1)))
        # the module the kept symbol stays with is a dependency like any other
        if v1mod not in r1:
            vs.append(('%s|home-of-kept-symbol-not-in-the-result' % sig, 'result keys %r\n%s' % (sorted(r1), t1)))
        return 'ok', vs, 2


class ForeignTrapVariables(object):
    name = 'trap-variables-from-another-module'
    describe = ('an SMIv1 TRAP-TYPE whose VARIABLES mix local and imported objects, plain and hyphenated names, in every order of '
                'three (and the same as INDEX of a row): the references (module, object) equal those of the NOTIFICATION-TYPE '
                'OBJECTS of the transliteration; JSON and the setObjects() call of the executed pysnmp module')

    NAMES = [('A-MIB', 'acme-port-index'), ('A-MIB', 'acmeErrors'), ('T', 'box-load'), ('T', 'boxTemp')]

    def blocks(self, tier):
        return [{}]

    def cases(self, block, tier):
        for combo in itertools.permutations(range(len(self.NAMES)), 3):
            yield {'vars': list(combo)}

    def run_case(self, case):
        amib = ('A-MIB DEFINITIONS ::= BEGIN\nIMPORTS enterprises FROM RFC1155-SMI OBJECT-TYPE FROM RFC-1212;\n'
                'acme OBJECT IDENTIFIER ::= { enterprises 4343 }\n'
                'acme-port-index OBJECT-TYPE SYNTAX INTEGER ACCESS read-only STATUS mandatory DESCRIPTION "d" ::= { acme 1 }\n'
                'acmeErrors OBJECT-TYPE SYNTAX INTEGER ACCESS read-only STATUS mandatory DESCRIPTION "d" ::= { acme 2 }\nEND\n')
        names = [self.NAMES[i] for i in case['vars']]
        foreign = sorted(set(n for m, n in names if m == 'A-MIB'))
        local = ''.join('%s OBJECT-TYPE SYNTAX INTEGER %s read-only STATUS %s DESCRIPTION "d" ::= { acme %d }\n' % (
            n, '%(acc)s', '%(st)s', 10 + i) for i, (m, n) in enumerate(self.NAMES) if m == 'T')
        varlist = ', '.join(n for m, n in names)
        v1 = ('V1TEST-MIB DEFINITIONS ::= BEGIN\nIMPORTS OBJECT-TYPE FROM RFC-1212 TRAP-TYPE FROM RFC-1215 acme%s FROM A-MIB;\n' % (
            ''.join(', ' + f for f in foreign)) + local % {'acc': 'ACCESS', 'st': 'mandatory'} +
              'theTrap TRAP-TYPE ENTERPRISE acme VARIABLES { %s } DESCRIPTION "d" ::= 5\nEND\n' % varlist)
        v2 = ('V2TEST-MIB DEFINITIONS ::= BEGIN\nIMPORTS OBJECT-TYPE, NOTIFICATION-TYPE FROM SNMPv2-SMI acme%s FROM A-MIB;\n' % (
            ''.join(', ' + f for f in foreign)) + local % {'acc': 'MAX-ACCESS', 'st': 'current'} +
              'theTrap NOTIFICATION-TYPE OBJECTS { %s } STATUS current DESCRIPTION "d" ::= { acme 0 5 }\nEND\n' % varlist)
        sig = 'C16|foreign-trap-variables'
        vs = []
        out = []
        for backend in ('json', 'pysnmp'):
            r1, w1 = compile_v({'V1TEST-MIB': v1, 'A-MIB': amib}, ['V1TEST-MIB'], backend)
            r2, w2 = compile_v({'V2TEST-MIB': v2, 'A-MIB': amib}, ['V2TEST-MIB'], backend)
            if r2.get('V2TEST-MIB') != 'compiled':
                # a valid SMIv2 text that names symbols of a foreign module is refused: nothing to be equivalent to
                vs.append(('%s|%s|the-SMIv2-form-is-not-compiled' % (sig, backend), '%r\n%s' % (getattr(r2.get('V2TEST-MIB'), 'error', None), v2)))
                continue
            if r1.get('V1TEST-MIB') != 'compiled':
                vs.append(('%s|%s|not-compiled' % (sig, backend), '%r\n%s' % (getattr(r1.get('V1TEST-MIB'), 'error', None), v1)))
                continue
            if backend == 'json':
                o1 = json.loads(w1['V1TEST-MIB']).get('theTrap', {}).get('objects')
                o2 = json.loads(w2['V2TEST-MIB']).get('theTrap', {}).get('objects')
                fix = lambda objs: [(o.get('module', '').replace('V2TEST', 'V1TEST'), o.get('object')) for o in objs or []]
                if fix(o1) != fix(o2):
                    vs.append(('%s|json|references-differ' % sig, 'SMIv1 %r\ntransliteration %r\n%s' % (o1, o2, v1)))
                out.append(repr(fix(o1)))
            else:
                import re
                def refs(text, mod):
                    m = re.search(r'theTrap\.setObjects\((.*?)\)\s*\n\s*(?:\)|if|theTrap|$)', text, re.S)
                    body = m.group(1) if m else ''
                    return [(a.replace(mod, 'X'), b) for a, b in re.findall(r'\("([^"]+)",\s*"([^"]+)"\)', body)]
                a, b = refs(w1['V1TEST-MIB'], 'V1TEST-MIB'), refs(w2['V2TEST-MIB'], 'V2TEST-MIB')
                if a != b or not a:
                    vs.append(('%s|pysnmp|references-differ' % sig, 'SMIv1 %r\ntransliteration %r' % (a, b)))
        return repr(out), vs, 4


class AfterTheBaseModules(object):
    name = 'after-the-base-modules-were-generated'
    describe = ('ONE compiler on which the SMIv1 base modules themselves are not stubbed but generated (RFC1155-SMI declares Counter, '
                'Gauge, NetworkAddress ...; RFC-1212, RFC1213-MIB): in an earlier call, or in the same call before / after the module '
                'under test; then each single shape: the text written for the SMIv1 module is the one a fresh compiler writes, and '
                'the pysnmp module executes')

    HISTORIES = [('earlier-call', ['RFC1155-SMI']), ('earlier-call', ['RFC1155-SMI', 'RFC-1212', 'RFC1213-MIB']),
                 ('same-call-before', ['RFC1155-SMI']), ('same-call-after', ['RFC1155-SMI'])]

    def blocks(self, tier):
        return [{'h': h, 'backend': b} for h in range(len(self.HISTORIES)) for b in ('pysnmp', 'json')]

    def cases(self, block, tier):
        for i in range(len(SHAPES)):
            if SHAPES[i][0] in ('scalar', 'scalar-defval', 'table', 'trap', 'trap0'):
                yield {'h': block['h'], 'backend': block['backend'], 'shape': i}

    def run_case(self, case):
        from mc.checks import C12
        how, base = self.HISTORIES[case['h']]
        v1d = fixed_context(False) + shape_decls(SHAPES[case['shape']], 0, False)
        m1 = {'name': 'V1TEST-MIB', 'imports': v1_imports(v1d), 'decls': v1d}
        t1 = mibspec.pretty([m1])
        fresh_res, fresh_w = compile_v({'V1TEST-MIB': t1}, ['V1TEST-MIB'], case['backend'])
        sig = 'C16|after-base-modules|%s|%s|%s' % (how, SHAPES[case['shape']][0], case['backend'])
        if fresh_res.get('V1TEST-MIB') != 'compiled':
            return 'fresh-%s' % fresh_res.get('V1TEST-MIB'), [], 1     # (what a fresh compiler makes of the shape is the equivalence family's business)
        alltexts = env.base_texts()
        alltexts.update(stubs())
        alltexts['V1TEST-MIB'] = t1
        w = env.CaptureWriter()
        parser = env.shared_parser('smiV1Relaxed')
        parser.reset()
        comp = env.MibCompiler(parser, env.make_codegen(case['backend']), w)
        comp.addSources(env.DictReader(alltexts))
        comp.addSearchers(env.StubSearcher(*[n for n in STUB_NAMES if n not in base]))
        try:
            if how == 'earlier-call':
                comp.compile(*base, ignoreErrors=True)
                del w.written[:]
                res = comp.compile('V1TEST-MIB')
            elif how == 'same-call-before':
                res = comp.compile(*(base + ['V1TEST-MIB']), ignoreErrors=True)
            else:
                res = comp.compile(*(['V1TEST-MIB'] + base), ignoreErrors=True)
        except Exception as exc:
            return 'escaped', [('%s|exception-escapes|%s' % (sig, type(exc).__name__), repr(exc)[:300])], 2
        got = dict((n, d) for n, d, _ in w.written).get('V1TEST-MIB')
        vs = []
        if res.get('V1TEST-MIB') != 'compiled' or got is None:
            vs.append(('%s|not-compiled' % sig, '%r %r' % (res.get('V1TEST-MIB'), getattr(res.get('V1TEST-MIB'), 'error', None))))
        elif C12.mask(got) != C12.mask(fresh_w['V1TEST-MIB']):
            a, b = C12.mask(fresh_w['V1TEST-MIB']).splitlines(), C12.mask(got).splitlines()
            diff = [(x, y) for x, y in zip(a, b) if x != y][:3]
            vs.append(('%s|text-differs-from-a-fresh-compiler' % sig, 'first differing lines (fresh, after the history): %r' % diff))
        return 'ok' if not vs else 'bad', vs, 2


class BelowATrap(object):
    name = 'nodes-and-defaults-that-go-through-a-trap'
    describe = ('an SMIv1 module with a TRAP-TYPE (numbers 0, 7, 2147483647; enterprise a local / an imported node), a node hung below '
                'the trap in the same module and in a module that imports the trap, and an OBJECT IDENTIFIER object whose DEFVAL '
                'names the trap - next to the transliteration with NOTIFICATION-TYPE ::= { enterprise 0 n }: same OIDs and same '
                'default, JSON and pysnmp')

    def blocks(self, tier):
        return [{'backend': b} for b in ('json', 'pysnmp')]

    def cases(self, block, tier):
        for num in (0, 7, 2147483647):
            for ent in ('local', 'imported'):
                yield {'backend': block['backend'], 'num': num, 'ent': ent}

    def run_case(self, case):
        n = case['num']
        entdecl = 'acme OBJECT IDENTIFIER ::= { enterprises 99 }\n' if case['ent'] == 'local' else ''
        entimp = '' if case['ent'] == 'local' else ' acme FROM ACME-SMI'
        smi = 'ACME-SMI DEFINITIONS ::= BEGIN\nIMPORTS enterprises FROM SNMPv2-SMI;\nacme OBJECT IDENTIFIER ::= { enterprises 99 }\nEND\n'
        body = ('acmeInfo OBJECT IDENTIFIER ::= { acmeAlarm 1 }\n'
                'acmeLast OBJECT-TYPE SYNTAX OBJECT IDENTIFIER %s read-write STATUS %s DESCRIPTION "d" DEFVAL { acmeAlarm } ::= { acme 5 }\n')
        v1 = ('V1-MIB DEFINITIONS ::= BEGIN\nIMPORTS enterprises FROM RFC1155-SMI OBJECT-TYPE FROM RFC-1212 TRAP-TYPE FROM RFC-1215%s;\n%s'
              'acmeAlarm TRAP-TYPE ENTERPRISE acme DESCRIPTION "d" ::= %d\n' % (entimp, entdecl, n)) + body % ('ACCESS', 'mandatory') + 'END\n'
        v2 = ('V2-MIB DEFINITIONS ::= BEGIN\nIMPORTS enterprises, OBJECT-TYPE, NOTIFICATION-TYPE FROM SNMPv2-SMI%s;\n%s'
              'acmeAlarm NOTIFICATION-TYPE STATUS current DESCRIPTION "d" ::= { acme 0 %d }\n' % (entimp, entdecl, n)) + body % ('MAX-ACCESS', 'current') + 'END\n'
        ext = '%s DEFINITIONS ::= BEGIN\nIMPORTS acmeAlarm FROM %s;\nextBelow OBJECT IDENTIFIER ::= { acmeAlarm 2 }\nEND\n'
        texts = {'ACME-SMI': smi, 'V1-MIB': v1, 'V2-MIB': v2, 'E1-MIB': ext % ('E1-MIB', 'V1-MIB'), 'E2-MIB': ext % ('E2-MIB', 'V2-MIB')}
        sig = 'C16|below-a-trap|%s-enterprise|%s' % (case['ent'], case['backend'])
        r1, w1 = compile_v(texts, ['E1-MIB'], 'json')
        r2, w2 = compile_v(texts, ['E2-MIB'], 'json')
        bad = [m for m, r in (('V1-MIB', r1), ('E1-MIB', r1), ('V2-MIB', r2), ('E2-MIB', r2)) if r.get(m) != 'compiled']
        if bad:
            if bad[0].endswith('2-MIB'):
                raise core.InternalError('the transliteration does not compile: %r' % (getattr(r2.get(bad[0]), 'error', None),))
            return 'notcompiled', [('%s|not-compiled' % sig, '%s: %r\n%s' % (bad[0], getattr(r1.get(bad[0]), 'error', None), v1))], 2
        vs = []
        base = '1.3.6.1.4.1.99.0.%d' % n
        want = {'acmeAlarm': base, 'acmeInfo': base + '.1'}
        if case['backend'] == 'json':
            d1, d2, e1, e2 = [json.loads(x) for x in (w1['V1-MIB'], w2['V2-MIB'], w1['E1-MIB'], w2['E2-MIB'])]
            for sym, oid in sorted(want.items()):
                if d1.get(sym, {}).get('oid') != oid or d2.get(sym, {}).get('oid') != oid:
                    vs.append(('%s|oid-differs|%s' % (sig, sym), 'SMIv1 %r, transliteration %r, declared %s' % (
                        d1.get(sym, {}).get('oid'), d2.get(sym, {}).get('oid'), oid)))
            if e1.get('extBelow', {}).get('oid') != base + '.2' or e2.get('extBelow', {}).get('oid') != base + '.2':
                vs.append(('%s|oid-differs|node-in-the-importing-module' % sig, 'SMIv1 %r, transliteration %r, declared %s.2' % (
                    e1.get('extBelow', {}).get('oid'), e2.get('extBelow', {}).get('oid'), base)))
            f1 = (d1.get('acmeLast', {}).get('default') or {}).get('default')
            f2 = (d2.get('acmeLast', {}).get('default') or {}).get('default')
            if f1 != f2:
                vs.append(('%s|default-differs' % sig, 'SMIv1 %r, transliteration %r' % (f1, f2)))
        else:
            rp1, wp1 = compile_v(texts, ['E1-MIB'], 'pysnmp')
            rp2, wp2 = compile_v(texts, ['E2-MIB'], 'pysnmp')
            objs = []
            for written, mod, emod in ((wp1, 'V1-MIB', 'E1-MIB'), (wp2, 'V2-MIB', 'E2-MIB')):
                b = pysnmp_rec.RecBuilder()
                err = None
                for m in ('ACME-SMI', mod, emod):
                    if m in written and not err:
                        ns, err = pysnmp_rec.run_module(written[m], b, m)
                        if m == mod:
                            nsm = ns
                if err:
                    vs.append(('%s|does-not-execute|%s' % (sig, mod[:2]), err[:300]))
                    objs.append(None)
                    continue
                objs.append((getattr(nsm.get('acmeInfo'), 'oid', None), getattr(ns.get('extBelow'), 'oid', None),
                             repr(pysnmp_rec.syntax_of(nsm.get('acmeLast')).chain() if nsm.get('acmeLast') is not None else None)))
            if None not in objs and objs[0] != objs[1]:
                vs.append(('%s|objects-differ' % sig, 'SMIv1 %r, transliteration %r' % (objs[0], objs[1])))
            tup = tuple(int(x) for x in base.split('.'))
            if objs[1] is not None and objs[1][:2] != (tup + (1,), tup + (2,)):
                raise core.InternalError('the transliteration gives other OIDs than declared: %r' % (objs[1],))
        return 'ok' if not vs else 'bad', vs, 4


FAMILIES = [Imports(), Equivalence(), EquivalenceOtherDialects(), TypeIndex(), RenamedUses(), MixedImports(), ForeignTrapVariables(), AfterTheBaseModules(), BelowATrap()]
