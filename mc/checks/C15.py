"""C15 - descriptive texts reach the output intact and only when requested.

Every text-bearing clause slot x every text of an adversarial alphabet x genTexts on/off x default / identity text
filter, JSON and pysnmp.  Oracle: gated keys (DESCRIPTION, REFERENCE, ORGANIZATION, CONTACT-INFO) are absent without
genTexts; every emitted text equals the source - exactly with the identity filter, as a sequence of white-space
separated words otherwise; the pysnmp module is valid Python and the string its execution hands to set*() / stores in
the class equals the source as a word sequence.
"""
import json
import re

from mc import env, mibspec, pysnmp_rec, refir

BOUNDS = {
    'quick': '27 slots x 22 texts x genTexts on/off x 2 filters, JSON and pysnmp (complete product)',
    'thorough': 'same product plus every ordered pair of adversarial fragments concatenated in the DESCRIPTION / UNITS slots',
}
ASSUMPTIONS = ['"equal up to white space" = equal as sequences of white-space separated words',
               'texts never contain a double quote (the lexer cannot express one)']

TEXTS = [
    ('word', 'word'), ('double-space', 'two  words'), ('lead-trail', '  lead and trail  '),
    ('multiline', 'multi\n    line\n\tindented'), ('tab', 'tab\there'), ('crlf', 'crlf\r\ninside'), ('bare-cr', 'bare\rcr'),
    ('bs-n', 'back\\nslash-n'), ('bs-t', 'back\\tslash-t'), ('bs-bs', 'double\\\\backslash'), ('bs-x', 'hex\\xescape'),
    ('bs-u', 'uni\\u12'), ('bs-N', 'name\\N'), ('bs-trailing', 'trailing\\'), ('bs-space', 'back\\ slash space'),
    ('apostrophe', "apos'trophe"), ('triple-apostrophe', "triple'''apos"), ('non-ascii', 'café 中文'),
    ('long-word', 'x' * 120), ('long-hyphenated', '-'.join(['abcdefgh'] * 10)), ('empty', ''),
    ('template-syntax', '{{ x }} {% y %} {# z #}'), ('percent', '100%s %(a)s %'),
    ('long-sentence', ' '.join(['sentence%d' % i for i in range(40)])),
    # texts that spell the escapes of the OUTPUT languages (what a serialiser writes for ' < > &, named / octal / hex characters)
    ('bs-html-safe', 'a\\u0027b\\u003cc\\u003ed\\u0026e'), ('bs-named', 'bullet\\N{BULLET} oct\\101 nul\\0 hex\\x41'),
    ('bs-json', 'slash\\/ b\\b f\\f r\\r U\\U0001F600'),
    # characters that look like nothing: zero width (no-break) space, joiners, soft hyphen, a direction mark, an astral character
    # what looks like a comment, on the first and on later lines of a text; an unbalanced apostrophe before it
    ('dashes', 'rule -- first\n   -- second floor --\nthird --> x \' -- y\n--'),
    ('invisible', 'k\ufeffB z\u200bw j\u200dj s\u00adh r\u200fl a\U0001F600a'),
]
LAYOUT_NAMES = ('multiline', 'crlf', 'bare-cr', 'tab', 'lead-trail', 'bs-trailing', 'triple-apostrophe', 'dashes')
FRAGMENTS = ['\\', '\\n', "'''", '\n', ' ', 'x' * 80, '-', '\r\n', '{{', '%']

# slot -> (declaration kind, field in the spec, JSON key or path, pysnmp accessor, gated by genTexts)
SLOTS = [
    ('oi.descr', 'oi', 'descr', 'description', 'setDescription', True),
    ('oi.ref', 'oi', 'ref', 'reference', 'setReference', True),
    ('ot.descr', 'ot', 'descr', 'description', 'setDescription', True),
    ('ot.ref', 'ot', 'ref', 'reference', 'setReference', True),
    ('ot.units', 'ot', 'units', 'units', 'setUnits', False),
    ('nt.descr', 'nt', 'descr', 'description', 'setDescription', True),
    ('nt.ref', 'nt', 'ref', 'reference', 'setReference', True),
    ('trap.descr', 'trap', 'descr', 'description', 'setDescription', True),
    ('trap.ref', 'trap', 'ref', 'reference', 'setReference', True),
    ('mi.descr', 'mi', 'descr', 'description', 'setDescription', True),
    ('mi.org', 'mi', 'org', 'organization', 'setOrganization', True),
    ('mi.contact', 'mi', 'contact', 'contactinfo', 'setContactInfo', True),
    ('mi.revdescr', 'mi', 'revdescr', 'revisions', None, False),
    ('mc.descr', 'mc', 'descr', 'description', 'setDescription', True),
    ('mc.ref', 'mc', 'ref', 'reference', 'setReference', True),
    ('og.descr', 'og', 'descr', 'description', 'setDescription', True),
    ('og.ref', 'og', 'ref', 'reference', 'setReference', True),
    ('ng.descr', 'ng', 'descr', 'description', 'setDescription', True),
    ('ng.ref', 'ng', 'ref', 'reference', 'setReference', True),
    ('ac.descr', 'ac', 'descr', 'description', 'setDescription', True),
    ('ac.ref', 'ac', 'ref', 'reference', 'setReference', True),
    ('ac.release', 'ac', 'release', 'productrelease', 'setProductRelease', False),
    ('tc.descr', 'tc', 'descr', 'description', 'attr:description', True),
    ('tc.ref', 'tc', 'ref', 'reference', 'attr:reference', True),
    ('tc.display', 'tc', 'display', 'displayhint', 'attr:displayHint', False),
    ('value-neighbour', 'ot', 'descr', 'description', 'setDescription', True),
    ('mi.revdescr2', 'mi', 'revdescr2', 'revisions', None, False),
]


SUBJECT = ['subject']   # the name of the declaration under test (families may rename it for the duration of a case)


def build(kind, field, text):
    root = {'k': 'value', 'name': 'ctxRoot', 'oid': ['enterprises', 4242]}
    helper = {'k': 'ot', 'name': 'helperObj', 'syntax': ('simple', 'Integer32'), 'access': ('MAX-ACCESS', 'read-only'),
              'status': 'current', 'descr': 'Helper.', 'oid': ['ctxRoot', 1]}
    hnotif = {'k': 'nt', 'name': 'helperNotif', 'objects': None, 'status': 'current', 'descr': 'Helper.', 'oid': ['ctxRoot', 2]}
    hgroup = {'k': 'og', 'name': 'helperGroup', 'objects': ['helperObj'], 'status': 'current', 'descr': 'Helper.',
              'oid': ['ctxRoot', 3]}
    oid = ['ctxRoot', 9]
    base = {'descr': 'Plain description.', 'ref': None}
    if kind == 'oi':
        d = dict(base, k='oi', name=SUBJECT[0], status='current', oid=oid)
    elif kind == 'ot':
        d = dict(base, k='ot', name=SUBJECT[0], syntax=('simple', 'Integer32'), access=('MAX-ACCESS', 'read-only'),
                 status='current', oid=oid)
    elif kind == 'nt':
        d = dict(base, k='nt', name=SUBJECT[0], objects=['helperObj'], status='current', oid=oid)
    elif kind == 'trap':
        d = dict(base, k='trap', name=SUBJECT[0], enterprise=['ctxRoot'], vars=['helperObj'], num=9)
    elif kind == 'mi':
        d = dict(base, k='mi', name=SUBJECT[0], last='202001010000Z', org='Org.', contact='Contact.',
                 revs=[('202001010000Z', 'Rev.')], oid=oid)
    elif kind == 'mc':
        d = dict(base, k='mc', name=SUBJECT[0], status='current', oid=oid,
                 modules=[{'name': None, 'mandatory': ['helperGroup'], 'items': []}])
    elif kind == 'og':
        d = dict(base, k='og', name=SUBJECT[0], objects=['helperObj'], status='current', oid=oid)
    elif kind == 'ng':
        d = dict(base, k='ng', name=SUBJECT[0], objects=['helperNotif'], status='current', oid=oid)
    elif kind == 'ac':
        d = dict(base, k='ac', name=SUBJECT[0], release='1.0', status='current', oid=oid)
    elif kind == 'tc':
        d = dict(base, k='tc', name='Subject', display=None, status='current', syntax=('simple', 'OCTET STRING'))
    if field == 'revdescr':
        d['revs'] = [('202001010000Z', text)]
    elif field == 'revdescr2':
        d['revs'] = [('202002010000Z', 'First.'), ('202001010000Z', text)]
    else:
        d[field] = text
    return [root, helper, hnotif, hgroup, d]


def words(s):
    return s.split()


def run_slot(slot, text, gen_texts, identity, sigbase, source='memory', dialect='smiV2'):
    sid, kind, field, jkey, pacc, gated = slot
    decls = build(kind, field, text)
    mod = refir.finish_module({'name': 'TEST-MIB', 'decls': decls})
    src = mibspec.pretty([mod])
    opts = {'genTexts': gen_texts}
    if identity:
        opts['textFilter'] = lambda symbol, t: t
    vs = []
    outcome = []
    subject = 'Subject' if kind == 'tc' else SUBJECT[0]
    for backend in ('json', 'pysnmp'):
        parser = env.shared_parser(dialect)
        parser.reset()
        res, written = env.compile_set({'TEST-MIB': src}, ['TEST-MIB'], codegen=backend, dialect=parser, source=source, **opts)
        st = res.get('TEST-MIB')
        if st != 'compiled':
            vs.append(('%s|%s|not-compiled' % (sigbase, backend), '%r %r\n%s' % (st, getattr(st, 'error', None), src)))
            continue
        if backend == 'json':
            try:
                ent = json.loads(written['TEST-MIB']).get(subject, {})
            except Exception as exc:
                vs.append(('%s|json|invalid-json' % sigbase, '%r\n%s' % (exc, written['TEST-MIB'][:2000])))
                continue
            if jkey == 'revisions':
                revs = ent.get('revisions') or []
                got = revs[-1].get('description') if revs else None
            else:
                got = ent.get(jkey)
            outcome.append(got)
            if gated and not gen_texts:
                if got is not None:
                    vs.append(('%s|json|emitted-without-genTexts' % sigbase, '%r' % (ent,)))
                for k in ('description', 'reference', 'organization', 'contactinfo'):
                    if k in ent:
                        vs.append(('%s|json|emitted-without-genTexts|%s' % (sigbase, k), '%r' % (ent,)))
                continue
            got = got or ''
            if identity:
                ok = got == text                     # layout kept: exactly the source text, for every text-bearing clause
            else:
                ok = words(got) == words(text)
                if ok and re.search(r'[\t\n\r\x0b\x0c]|  ', got):
                    # layout not kept: white space comes out normalised - for every text-bearing clause alike
                    vs.append(('%s|json|layout-kept-although-not-asked-for' % sigbase, 'source %r\ndocument %r' % (text, got)))
            if not ok:
                vs.append(('%s|json|text-differs' % sigbase, 'source %r\ndocument %r' % (text, got)))
        else:
            b = pysnmp_rec.RecBuilder(loadTexts=True)
            ns, err = pysnmp_rec.run_module(written['TEST-MIB'], b)
            if err:
                vs.append(('%s|pysnmp|%s' % (sigbase, 'not-valid-python' if err.startswith('SyntaxError') else
                                             'does-not-execute|' + err.split(':')[0]),
                           '%s\nsource text %r' % (err, text)))
                continue
            if pacc is None:
                continue
            obj = ns.get(subject)
            if pacc.startswith('attr:'):
                got = obj.__dict__.get(pacc[5:]) if isinstance(obj, type) else None
            else:
                calls = obj.called(pacc) if isinstance(obj, pysnmp_rec.Node) else []
                got = calls[-1][0] if calls and calls[-1] else None
            outcome.append(got)
            if gated and not gen_texts:
                if got is not None:
                    vs.append(('%s|pysnmp|emitted-without-genTexts' % sigbase, '%r' % (got,)))
                continue
            if got is None:
                continue  # this back end does not emit the slot (only emitted texts are constrained)
            if not isinstance(got, str) or words(got) != words(text):
                vs.append(('%s|pysnmp|text-differs' % sigbase, 'source %r\nexecuted module holds %r' % (text, got)))
    return repr(outcome), vs, 2


class Slots(object):
    name = 'slots'
    describe = ('27 text slots (DESCRIPTION and REFERENCE of every clause kind, ORGANIZATION, CONTACT-INFO, UNITS, DISPLAY-HINT, '
                'PRODUCT-RELEASE, revision descriptions) x 23 texts (plain, double space, leading/trailing blanks, multi-line, '
                'tab, CRLF, backslash sequences n t backslash x u N as written characters, trailing backslash, apostrophes, '
                'non-ASCII, 120-char word, long hyphenated word, empty, template syntax, percent signs, long sentence) x '
                'genTexts on/off x default/identity filter')

    def blocks(self, tier):
        return [{'slot': i} for i in range(len(SLOTS))]

    # texts with layout in them, for the second and third dialect (the relaxed dialects have productions of their own)
    LAYOUT_TEXTS = ('double-space', 'multiline', 'tab', 'crlf')

    def cases(self, block, tier):
        for t in range(len(TEXTS)):
            for gt in (0, 1):
                for ident in (0, 1):
                    yield {'slot': block['slot'], 't': t, 'gt': gt, 'id': ident}
            if TEXTS[t][0] in self.LAYOUT_TEXTS:
                for dialect in ('smiV1', 'smiV1Relaxed'):
                    for ident in (0, 1):
                        yield {'slot': block['slot'], 't': t, 'gt': 1, 'id': ident, 'dialect': dialect}

    def run_case(self, case):
        slot = SLOTS[case['slot']]
        tname, text = TEXTS[case['t']]
        sig = 'C15|%s|%s|%s%s' % (slot[0], tname, 'identity' if case['id'] else 'default',
                                  '|' + case['dialect'] if case.get('dialect') else '')
        return run_slot(slot, text, bool(case['gt']), bool(case['id']), sig, dialect=case.get('dialect', 'smiV2'))


class NamedLikeTextKeys(object):
    name = 'symbols-named-like-text-keys'
    describe = ('the declaration under test called units, reference, description, organization, contactinfo, displayhint, '
                'productrelease, lastupdated, revisions (names the intermediate document uses as keys) in the OBJECT-TYPE / '
                'NOTIFICATION-TYPE / OBJECT-IDENTITY slots x the texts with backslashes and line breaks x genTexts x both filters')

    NAMES = ['units', 'reference', 'description', 'organization', 'contactinfo', 'displayhint', 'productrelease', 'lastupdated',
             'revisions', 'default']
    PICK = ('bs-n', 'bs-x', 'bs-trailing', 'multiline', 'apostrophe', 'bs-html-safe')

    def blocks(self, tier):
        return [{'name': n} for n in self.NAMES]

    def cases(self, block, tier):
        for i, sl in enumerate(SLOTS):
            if sl[0] not in ('ot.descr', 'ot.ref', 'ot.units', 'nt.descr', 'oi.descr'):
                continue
            for t, (tname, text) in enumerate(TEXTS):
                if tname in self.PICK:
                    for gt in (0, 1):
                        for ident in (0, 1):
                            yield {'name': block['name'], 'slot': i, 't': t, 'gt': gt, 'id': ident}

    def run_case(self, case):
        slot = SLOTS[case['slot']]
        tname, text = TEXTS[case['t']]
        sig = 'C15|%s|%s|%s|declaration-named-%s' % (slot[0], tname, 'identity' if case['id'] else 'default', case['name'])
        SUBJECT[0] = case['name']
        try:
            return run_slot(slot, text, bool(case['gt']), bool(case['id']), sig)
        finally:
            SUBJECT[0] = 'subject'


class Pairs(object):
    name = 'fragment-pairs'
    describe = ('thorough: every ordered pair of 10 adversarial fragments, joined by a letter, in the OBJECT-TYPE DESCRIPTION and '
                'UNITS slots and the TC DISPLAY-HINT slot')

    def blocks(self, tier):
        if tier != 'thorough':
            return []
        return [{'slot': i} for i, s in enumerate(SLOTS) if s[0] in ('ot.descr', 'ot.units', 'tc.display', 'mi.contact')]

    def cases(self, block, tier):
        for a in range(len(FRAGMENTS)):
            for b in range(len(FRAGMENTS)):
                for ident in (0, 1):
                    yield {'slot': block['slot'], 'a': a, 'b': b, 'id': ident}

    def run_case(self, case):
        slot = SLOTS[case['slot']]
        text = 'p' + FRAGMENTS[case['a']] + 'q' + FRAGMENTS[case['b']] + 'r'
        sig = 'C15|%s|pair|%r+%r|%s' % (slot[0], FRAGMENTS[case['a']][:4], FRAGMENTS[case['b']][:4],
                                        'identity' if case['id'] else 'default')
        return run_slot(slot, text, True, bool(case['id']), sig)


class SwitchHistories(object):
    name = 'gentexts-histories'
    describe = ('ONE MibCompiler (one code generator) compiles the same module repeatedly with genTexts in {True, False, omitted}: '
                'every sequence of length <=3; after every call the gated texts are present iff that call asked for them; both back ends')
    VALUES = [True, False, None]

    def blocks(self, tier):
        return [{'backend': b} for b in ('json', 'pysnmp')]

    def cases(self, block, tier):
        import itertools
        for ln in (1, 2, 3):
            for seq in itertools.product(range(3), repeat=ln):
                yield {'backend': block['backend'], 'seq': list(seq)}

    def run_case(self, case):
        decls = build('ot', 'descr', 'Gated description text.')
        decls[-1]['ref'] = 'Gated reference text.'
        mod = refir.finish_module({'name': 'TEST-MIB', 'decls': decls})
        src = mibspec.pretty([mod])
        writer = env.CaptureWriter()
        comp = env.MibCompiler(env.fresh_parser('smiV2'), env.make_codegen(case['backend']), writer)
        texts = env.base_texts()
        texts['TEST-MIB'] = src
        comp.addSources(env.DictReader(texts))
        comp.addSearchers(env.StubSearcher(*env.BASE_NAMES))
        vs = []
        obs = []
        for pos, vi in enumerate(case['seq']):
            val = self.VALUES[vi]
            del writer.written[:]
            opts = {} if val is None else {'genTexts': val}
            res = comp.compile('TEST-MIB', **opts)
            data = dict((n, d) for n, d, _ in writer.written).get('TEST-MIB', '')
            present = 'Gated description text.' in data, 'Gated reference text.' in data
            obs.append(present)
            want = bool(val)
            if res.get('TEST-MIB') != 'compiled' or present != (want, want):
                vs.append(('C15|gentexts-history|%s|texts-%s-after-%s' % (
                    case['backend'], 'emitted-unasked' if any(present) and not want else 'missing',
                    'nothing' if pos == 0 else 'genTexts=%s' % self.VALUES[case['seq'][pos - 1]]),
                    'sequence %r position %d: status %s, description/reference present %r, asked %r' % (
                        [self.VALUES[i] for i in case['seq']], pos, res.get('TEST-MIB'), present, val)))
                break
        return repr(obs), vs, len(case['seq'])



class FromFiles(object):
    name = 'slots-from-files'
    describe = ('the slots x the texts that contain line breaks or non-ASCII characters (LF, CR LF, bare CR, tab, UTF-8), genTexts on, '
                'default / identity filter, with the module text written to a directory or ZIP archive and read back by the real '
                'FileReader / ZipReader (octets as written)')
    PICK = ('multiline', 'crlf', 'bare-cr', 'tab', 'non-ascii', 'lead-trail')

    def blocks(self, tier):
        return [{'slot': i, 'source': src} for i in range(len(SLOTS)) for src in ('files', 'zip')]

    def cases(self, block, tier):
        for t, (tname, _) in enumerate(TEXTS):
            if tname in self.PICK:
                for ident in (0, 1):
                    yield {'slot': block['slot'], 'source': block['source'], 't': t, 'id': ident}

    def run_case(self, case):
        slot = SLOTS[case['slot']]
        tname, text = TEXTS[case['t']]
        sig = 'C15|%s|%s|%s|read-from-%s' % (slot[0], tname, 'identity' if case['id'] else 'default', case['source'])
        return run_slot(slot, text, True, bool(case['id']), sig, source=case['source'])


def _option_histories():
    from mc.checks import C12

    class OptionHistories(C12.OptionHistories):
        prefix = 'C15'
    return OptionHistories()


class ThroughTheWriters(object):
    name = 'through-the-file-writers'
    describe = ('a module whose first description holds non-ASCII characters (none / 2-octet / 3-octet / 4-octet) followed by 100 / 9000 / '
                '20000 further characters of text, stored by the REAL PyFileWriter / FileWriter into a scratch directory: the file on '
                'disk decodes to exactly the text the code generator handed over')

    def blocks(self, tier):
        return [{'w': w} for w in ('py', 'json')]

    def cases(self, block, tier):
        for ch in ('', '\u00e9', '\u4e2d', '\U0001f600'):
            for n in (100, 9000, 20000):
                for count in (1, 40):
                    if ch or count == 1:
                        yield {'w': block['w'], 'ch': ch, 'n': n, 'count': count}

    def run_case(self, case):
        import os
        import shutil
        import tempfile
        from pysmi.writer.localfile import FileWriter
        from pysmi.writer.pyfile import PyFileWriter
        first = 'start ' + case['ch'] * case['count'] + ' end'
        words = ' '.join('w%05d' % i for i in range(case['n'] // 7 + 1))
        decls = build('ot', 'descr', first)
        decls.append({'k': 'ot', 'name': 'follower', 'syntax': ('simple', 'Integer32'), 'access': ('MAX-ACCESS', 'read-only'),
                      'status': 'current', 'descr': words, 'oid': ['ctxRoot', 10]})
        mod = refir.finish_module({'name': 'TEST-MIB', 'decls': decls})
        src = mibspec.pretty([mod])
        backend = 'pysnmp' if case['w'] == 'py' else 'json'
        captured = []

        base = os.environ.get('VERIF_TMP') or ('/dev/shm' if os.path.isdir('/dev/shm') else None)
        d = tempfile.mkdtemp(prefix='mcC15', dir=base)
        try:
            real = PyFileWriter(d).setOptions(pyCompile=False) if case['w'] == 'py' else FileWriter(d).setOptions(suffix='.json')

            class Tee(object):
                def setOptions(self, **kw):
                    return self

                def getData(self, name):
                    return ''

                def putData(self, name, data, comments=(), dryRun=False):
                    captured.append((name, data))
                    return real.putData(name, data, comments=(), dryRun=dryRun)
            comp = env.MibCompiler(env.fresh_parser('smiV2'), env.make_codegen(backend), Tee())
            texts = env.base_texts()
            texts['TEST-MIB'] = src
            comp.addSources(env.DictReader(texts))
            comp.addSearchers(env.StubSearcher(*env.BASE_NAMES))
            res = comp.compile('TEST-MIB', genTexts=True, textFilter=lambda symbol, t: t)
            sig = 'C15|writers|%s|%s|following=%d' % (case['w'], 'ascii' if not case['ch'] else '%d-octet-char' % len(case['ch'].encode('utf-8')),
                                                      case['n'])
            if res.get('TEST-MIB') != 'compiled' or not captured:
                return 'notcompiled', [('%s|not-compiled' % sig, '%r %r' % (res.get('TEST-MIB'), getattr(res.get('TEST-MIB'), 'error', None)))], 1
            path = os.path.join(d, 'TEST-MIB' + ('.py' if case['w'] == 'py' else '.json'))
            with open(path, 'rb') as f:
                on_disk = f.read().decode('utf-8', 'replace')
            handed = captured[-1][1]
            vs = []
            if on_disk != handed:
                at = next((i for i, (a, b) in enumerate(zip(on_disk, handed)) if a != b), min(len(on_disk), len(handed)))
                vs.append(('%s|file-differs-from-generated-text' % sig,
                           'file has %d characters, generated text %d; first difference at %d: file %r, text %r' % (
                               len(on_disk), len(handed), at, on_disk[at:at + 30], handed[at:at + 30])))
            if first not in on_disk and backend == 'pysnmp':
                vs.append(('%s|first-description-not-in-file' % sig, repr(first[:40])))
            return 'ok', vs, 1
        finally:
            shutil.rmtree(d, ignore_errors=True)

FAMILIES = [Slots(), Pairs(), SwitchHistories(), FromFiles(), _option_histories(), ThroughTheWriters(), NamedLikeTextKeys()]
