"""C14 - readers return the right file for a module name, incl. sub-directories and nested ZIPs.

names      request name x the 16 matching-option vectors x recursive on/off x every candidate file name (case forms x
           -MIB suffix added / removed x 7 extensions, near misses) placed alone at depth 0 / 1 / 2 of a directory and
           of a ZIP archive nested to depth 0..2: found iff the name is a documented variant (and the depth is permitted)
contents   ASCII, UTF-8 multibyte, invalid UTF-8, CRLF, empty, too large; pairs of same-request files with distinct
           contents; .index files (odd target, missing target, blank line)
zip        duplicate basenames across inner archives, directories inside archives, a corrupt inner archive next to a good member
urls       scheme x path shape x host / port / user / password -> reader class and carried parameters
Oracle: returned (text, mtime) = (bytes.decode('utf-8', 'ignore'), stat / ZIP mtime) of *some* existing file whose
basename is in the variant superset; not-found iff no file of the demanded set exists; never an unrelated file.
"""
import datetime
import io
import itertools
import os
import shutil
import tempfile
import time
import zipfile

from mc.env import error

BOUNDS = {
    'quick': '5 request names x 16 option vectors x ~90 candidate file names at depth 0 (directory); depth 1-2 / recursive and '
             'ZIP nesting 0-2 for 2 requests x 4 option vectors; contents, index, zip and URL families complete',
    'thorough': 'all request names x all option vectors x all candidates at every depth, directory and ZIP',
}
ASSUMPTIONS = ['documented variants = enabled case forms x known extensions; with fuzzy matching additionally the -MIB / -mib suffix '
               'added (if the name does not end in it) or removed (if it does, any case), for the enabled case forms',
               'HTTP and FTP readers are covered by URL dispatch only (no network in the sandbox)']

EXTS = ['', '.txt', '.mib', '.my', '.TXT', '.MIB', '.MY']
REQUESTS = ['FOO-MIB', 'Foo-Mib', 'foo', 'FOO', 'A-MIB-B', 'Foo']


def case_forms(name, orig, upper, lower):
    out = []
    if orig:
        out.append(name)
    if upper:
        out.append(name.upper())
    if lower:
        out.append(name.lower())
    return out


def variant_sets(name, fuzzy, orig, upper, lower):
    """-> (demanded basenames, superset of related basenames)"""
    def stems(o, u, l, fz):
        st = list(case_forms(name, o, u, l))
        if fz:
            # the -MIB SUFFIX is removed if the name ends in it (any case), added otherwise
            if name.lower().endswith('-mib'):
                st += [s[:-4] for s in case_forms(name, o, u, l)]
            else:
                # (the suffix in the case of the form; -MIB, as modules are called, for the name as given)
                st += ([name + '-MIB'] if o else []) + ([name.upper() + '-MIB'] if u else []) + ([name.lower() + '-mib'] if l else [])
        return st
    demanded = set(s + e for s in stems(orig, upper, lower, fuzzy) for e in EXTS if s)
    # related: anything a more permissive configuration could have matched
    related = set(s + e for s in stems(True, True, True, True) for e in EXTS if s)
    extra = [name + '-MIB', name + '-mib', name.upper() + '-MIB', name.lower() + '-mib']
    if name.lower().endswith('-mib'):
        extra += [name[:-4], name[:-4].upper(), name[:-4].lower()]
    related |= set(s + e for s in extra for e in EXTS if s)
    return demanded, related | demanded


def candidates(name):
    forms = [name, name.upper(), name.lower()]
    stems = set(forms)
    pos = name.lower().find('-mib')
    for f in forms:
        stems.add(f + '-MIB')
        stems.add(f + '-mib')
        if pos != -1:
            stems.add(f[:pos])
    out = [s + e for s in sorted(stems) for e in EXTS if s]
    out += [name + 'S', 'X' + name, name + '.bak', name + '.txt.bak', name[:-1], name + '.txt~']
    return sorted(set(out))


def scratch():
    base = os.environ.get('VERIF_TMP') or ('/dev/shm' if os.path.isdir('/dev/shm') else None)
    return tempfile.mkdtemp(prefix='mcC14', dir=base)


MTIME = 1500000000


def put_file(root, depth, fname, data):
    d = root
    for i in range(depth):
        d = os.path.join(d, 'sub%d' % i)
        if not os.path.isdir(d):
            os.mkdir(d)
    p = os.path.join(d, fname)
    with open(p, 'wb') as f:
        f.write(data)
    os.utime(p, (MTIME, MTIME))
    return p


ZIP_DT = (2017, 7, 14, 2, 40, 0)


def zip_bytes(members):
    """members: list of (name, bytes) -> bytes of an archive"""
    buf = io.BytesIO()
    with zipfile.ZipFile(buf, 'w') as z:
        for n, data in members:
            zi = zipfile.ZipInfo(n, date_time=ZIP_DT)
            z.writestr(zi, data)
    return buf.getvalue()


def patch_member(blob, name, flags=None, method=None, damage=False):
    """Rewrite header fields of one member of an archive (local header and central directory entry): general purpose flags,
    compression method; damage: overwrite the middle of its stored data."""
    import struct
    b = bytearray(blob)
    nm = name.encode()
    for sig, off_flags, off_method, off_namelen, hdr in ((b'PK\x03\x04', 6, 8, 26, 30), (b'PK\x01\x02', 8, 10, 28, 46)):
        at = 0
        while True:
            at = bytes(b).find(sig, at)
            if at < 0:
                break
            nlen = struct.unpack('<H', b[at + off_namelen:at + off_namelen + 2])[0]
            if bytes(b[at + hdr:at + hdr + nlen]) == nm:
                if flags is not None:
                    b[at + off_flags:at + off_flags + 2] = struct.pack('<H', flags)
                if method is not None:
                    b[at + off_method:at + off_method + 2] = struct.pack('<H', method)
                if damage and sig == b'PK\x03\x04':
                    csize = struct.unpack('<L', b[at + 18:at + 22])[0]
                    xlen = struct.unpack('<H', b[at + 28:at + 30])[0]
                    start = at + hdr + nlen + xlen
                    for i in range(start + csize // 3, start + 2 * csize // 3):
                        b[i] = 0xff
            at += 4
    return bytes(b)


def nested_zip(fname, data, nesting, in_dir):
    inner_name = ('dir/%s' % fname) if in_dir else fname
    blob = zip_bytes([('README', b'not a mib'), (inner_name, data)])
    for level in range(nesting):
        blob = zip_bytes([('other.txt', b'x'), ('inner%d.zip' % level, blob)])
    return blob


def ask(reader, name, **percall):
    try:
        info, text = reader.getData(name, **percall)
        return ('found', text, info.mtime, getattr(info, 'file', None))
    except error.PySmiReaderFileNotFoundError:
        return ('not-found',)
    except error.PySmiError as exc:
        return ('error', type(exc).__name__)
    except Exception as exc:
        return ('foreign', type(exc).__name__, str(exc)[:80])


class Names(object):
    name = 'names'
    describe = ('request name x (fuzzy, original, upper, lowcase) x candidate file name alone in a directory (depth 0/1/2, recursive '
                'on/off) or in a ZIP archive (nested 0..2, inside a directory entry or not)')

    def blocks(self, tier):
        out = []
        for r in REQUESTS:
            for o in range(16):
                out.append({'r': r, 'o': o, 'where': 'dir0'})
        deep_r = REQUESTS if tier == 'thorough' else REQUESTS[:2]
        deep_o = range(16) if tier == 'thorough' else (15, 14, 7, 2)
        for r in deep_r:
            for o in deep_o:
                for where in ('dir1', 'dir2', 'dir1-norec', 'zip0', 'zip1', 'zip2', 'zip1-dir'):
                    out.append({'r': r, 'o': o, 'where': where})
        # fuzzy matching given WITH THE CALL (what every borrower does), the reader itself left at the opposite setting or at its default
        for r in REQUESTS:
            for o in (15, 7):
                for inst in ('opposite', 'default'):
                    for where in ('dir0', 'zip0'):
                        out.append({'r': r, 'o': o, 'where': where, 'percall': inst})
        return out

    def cases(self, block, tier):
        for c in candidates(block['r']):
            yield dict(block, f=c)

    def run_case(self, case):
        from pysmi.reader.localfile import FileReader
        from pysmi.reader.zipreader import ZipReader
        r, o, where, fname = case['r'], case['o'], case['where'], case['f']
        fuzzy, orig, upper, lower = bool(o & 8), bool(o & 4), bool(o & 2), bool(o & 1)
        demanded, related = variant_sets(r, fuzzy, orig, upper, lower)
        data = ('content of %s' % fname).encode()
        root = scratch()
        try:
            opts = dict(fuzzyMatching=fuzzy, originalMatching=orig, uppercaseMatching=upper, lowcaseMatching=lower)
            percall = {}
            if case.get('percall'):
                percall = {'fuzzyMatching': fuzzy}
                if case['percall'] == 'opposite':
                    opts['fuzzyMatching'] = not fuzzy
                else:
                    del opts['fuzzyMatching']
            reachable = True
            if where.startswith('dir'):
                depth = int(where[3])
                recursive = not where.endswith('norec')
                put_file(root, depth, fname, data)
                reader = FileReader(root, recursive=recursive).setOptions(**opts)
                reachable = depth == 0 or recursive
                want_mtime = MTIME
            else:
                nesting = int(where[3])
                blob = nested_zip(fname, data, nesting, where.endswith('dir'))
                zp = os.path.join(root, 'mibs.zip')
                with open(zp, 'wb') as f:
                    f.write(blob)
                reader = ZipReader(zp).setOptions(**opts)
                want_mtime = time.mktime(datetime.datetime(*ZIP_DT).timetuple())
            got = ask(reader, r, **percall)
            vs = []
            optname = ''.join(c for c, b in zip('FOUL', (fuzzy, orig, upper, lower)) if b) or 'none'
            kind = 'zip' if where.startswith('zip') else 'dir'
            rel = 'demanded' if fname in demanded else 'related' if fname in related else 'unrelated'
            sig = 'C14|names|%s|opts=%s|%s%s' % (kind, optname, rel, '|fuzzy-given-with-the-call' if percall else '')
            if got[0] in ('foreign', 'error'):
                vs.append(('%s|%s|%s' % (sig, got[0], got[1]), 'request %s file %s where %s -> %r' % (r, fname, where, got)))
            elif got[0] == 'found':
                if not reachable:
                    vs.append(('%s|found-below-a-non-recursive-reader' % sig, repr(case)))
                elif fname not in related:
                    vs.append(('%s|unrelated-file-returned' % sig, 'request %s returned file %s' % (r, fname)))
                elif fname not in demanded:
                    vs.append(('%s|variant-that-is-switched-off-returned' % sig, 'request %s with %r returned file %s' % (r, opts, fname)))
                elif got[1] != data.decode() or got[2] != want_mtime:
                    vs.append(('%s|wrong-content-or-mtime' % sig, 'got %r want (%r, %r)' % (got, data.decode(), want_mtime)))
            else:
                if reachable and fname in demanded:
                    how = 'suffix' if fname.split('.')[0].lower() != r.lower() else 'case-or-ext'
                    vs.append(('%s|documented-variant-not-found|%s' % (sig, how),
                               'request %s with %r does not find file %s (%s)' % (r, opts, fname, where)))
            return (got[0], rel), vs, 1
        finally:
            shutil.rmtree(root, ignore_errors=True)


CONTENTS = [('ascii', b'FOO-MIB DEFINITIONS ::= BEGIN END\n'), ('utf8', 'caf\u00e9 \u4e2d\u6587 -- text\n'.encode('utf-8')),
            ('invalid-utf8', b'abc\xff\xfe\x80def\n'), ('crlf', b'line1\r\nline2\r\n'), ('empty', b''),
            ('latin1', 'caf\xe9'.encode('latin-1'))]
# long texts of 2-, 3- and 4-octet characters after 0..3 ASCII characters: whatever block size a reader uses (a power of two up to
# 128 KiB), a character straddles the block boundary in one of them
for _w, _ch in ((2, '\u00e9'), (3, '\u4e2d'), (4, '\U0001F600')):
    for _k in range(_w):
        CONTENTS.append(('long-%d-octet-characters-after-%d' % (_w, _k), ('a' * _k + _ch * (150000 // _w + 7) + '\nEND\n').encode('utf-8')))


class Decoys(object):
    name = 'directory-decoys'
    describe = ('a DIRECTORY named like a variant of the requested module (as given, lower case, suffix removed, with extension) at the '
                'top of the served directory, with the real file inside it / in another sub-directory / at the top / nowhere: the '
                'file is returned (or not-found when there is none); a directory is never taken for the module')

    def blocks(self, tier):
        return [{'r': r} for r in ('FOO-MIB', 'Foo-Mib')]

    def cases(self, block, tier):
        r = block['r']
        decoys = [r, r.lower(), r.upper(), r[:r.lower().find('-mib')], r[:r.lower().find('-mib')].lower(), r + '.txt', r.lower() + '.mib']
        for d in sorted(set(decoys)):
            for where in ('inside', 'sibling-dir', 'top', 'nowhere'):
                for fname in (r + '.txt', r.lower() + '.my'):
                    yield {'r': r, 'decoy': d, 'where': where, 'fname': fname}

    def run_case(self, case):
        from pysmi.reader.localfile import FileReader
        root = scratch()
        try:
            os.mkdir(os.path.join(root, case['decoy']))
            data = b'the real module text'
            if case['where'] == 'inside':
                p = os.path.join(root, case['decoy'], case['fname'])
            elif case['where'] == 'sibling-dir':
                os.mkdir(os.path.join(root, 'zz-other'))
                p = os.path.join(root, 'zz-other', case['fname'])
            elif case['where'] == 'top':
                p = os.path.join(root, case['fname'])
            else:
                p = None
            if p and not os.path.isdir(p):
                with open(p, 'wb') as f:
                    f.write(data)
                os.utime(p, (MTIME, MTIME))
            elif p:
                p = None
            got = ask(FileReader(root), case['r'])
            vs = []
            if p:
                if got[:3] != ('found', data.decode(), MTIME):
                    vs.append(('C14|decoy|%s|file-not-returned|%s' % (case['where'], got[0] if got[0] != 'error' else 'error:' + got[1]),
                               'case %r -> %r' % (case, got)))
            elif got[0] != 'not-found':
                vs.append(('C14|decoy|nowhere|%s' % (got[0] if got[0] != 'error' else 'error:' + got[1]), 'case %r -> %r' % (case, got)))
            return got[0], vs, 1
        finally:
            shutil.rmtree(root, ignore_errors=True)


class Contents(object):
    name = 'contents'
    describe = ('byte contents (ASCII, UTF-8, invalid UTF-8, CRLF, empty, Latin-1) and a file longer than maxMibSize, in a directory '
                'and in a ZIP; two files matching the same request with different contents; .index files')

    def blocks(self, tier):
        return [{'g': g} for g in ('bytes', 'toolarge', 'pairs', 'index', 'index-places')]

    def cases(self, block, tier):
        g = block['g']
        if g == 'bytes':
            for i in range(len(CONTENTS)):
                for kind in ('dir', 'zip'):
                    yield {'g': g, 'c': i, 'kind': kind}
        elif g == 'toolarge':
            for kind in ('dir', 'zip'):
                for delta in (-1, 0, 1):
                    yield {'g': g, 'kind': kind, 'delta': delta}
        elif g == 'pairs':
            names = ['FOO-MIB', 'FOO-MIB.txt', 'foo-mib.mib', 'FOO.my', 'FOO-MIB.MIB']
            for a, b in itertools.permutations(names, 2):
                for kind in ('dir', 'zip'):
                    yield {'g': g, 'a': a, 'b': b, 'kind': kind}
        elif g == 'index-places':
            # the file the index names and a regularly named variant, each at every depth of the tree
            for td in (0, 1, 2):
                for rn in ('FOO-MIB', 'FOO-MIB.txt', 'foo-mib.mib', 'FOO.my', 'FOO-MIB.MIB'):
                    for rd in (0, 1, 2):
                        for fuzzy in (0, 1):
                            yield {'g': g, 'td': td, 'rn': rn, 'rd': rd, 'fuzzy': fuzzy}
        else:
            for v in ('odd-target', 'missing-target', 'blank-line', 'other-module-only', 'three-columns', 'undecodable-line', 'bom',
                      'crlf-lines'):
                yield {'g': g, 'v': v}

    def run_case(self, case):
        from pysmi.reader.localfile import FileReader
        from pysmi.reader.zipreader import ZipReader
        root = scratch()
        try:
            g = case['g']
            vs = []

            def reader_for(kind, files):
                if kind == 'dir':
                    for n, d in files:
                        put_file(root, 0, n, d)
                    return FileReader(root), MTIME
                zp = os.path.join(root, 'm.zip')
                with open(zp, 'wb') as f:
                    f.write(zip_bytes(files))
                return ZipReader(zp), time.mktime(datetime.datetime(*ZIP_DT).timetuple())

            if g == 'bytes':
                label, data = CONTENTS[case['c']]
                rd, mt = reader_for(case['kind'], [('FOO-MIB.txt', data)])
                got = ask(rd, 'FOO-MIB')
                want = data.decode('utf-8', 'ignore')
                if got[0] != 'found' or got[1] != want or got[2] != mt:
                    vs.append(('C14|contents|%s|%s|not-the-decoded-content' % (case['kind'], label), 'got %s want %s' % (repr(got)[:300], repr(want)[:200])))
                return got[0], vs, 1
            if g == 'toolarge':
                limit = 4096
                data = b'x' * (limit + case['delta'])
                rd, mt = reader_for(case['kind'], [('FOO-MIB.txt', data)])
                rd.maxMibSize = limit
                got = ask(rd, 'FOO-MIB')
                if got[0] == 'found' and got[1] != data.decode():
                    vs.append(('C14|contents|%s|truncated-content-returned|size=limit%+d' % (case['kind'], case['delta']),
                               'returned %d of %d characters' % (len(got[1]), len(data))))
                if got[0] == 'foreign':
                    vs.append(('C14|contents|%s|foreign-exception|%s|size=limit%+d' % (case['kind'], got[1], case['delta']), repr(got)))
                if got[0] != 'found' and case['delta'] < 0:
                    vs.append(('C14|contents|%s|file-below-the-limit-not-returned' % case['kind'], repr(got)))
                return got[0], vs, 1
            if g == 'pairs':
                files = [(case['a'], b'content A'), (case['b'], b'content B')]
                rd, mt = reader_for(case['kind'], files)
                got = ask(rd, 'FOO-MIB')
                if got[0] != 'found' or got[1] not in ('content A', 'content B'):
                    vs.append(('C14|contents|%s|pair-not-served' % case['kind'], '%r -> %r' % (files, got)))
                return got[:2], vs, 1
            if g == 'index-places':
                put_file(root, case['rd'], case['rn'], b'regular variant')
                put_file(root, case['td'], 'weird_file-name.dat', b'index target')
                with open(os.path.join(root, '.index'), 'w') as f:
                    f.write('BAR-MIB bar.txt\nFOO-MIB weird_file-name.dat\n')
                rd = FileReader(root)
                try:
                    info, text = rd.getData('FOO-MIB', fuzzyMatching=bool(case['fuzzy']))
                    got = ('found', text, info.mtime, info.file)
                except error.PySmiError as exc:
                    got = ('error', type(exc).__name__)
                if got[:2] != ('found', 'index target'):
                    vs.append(('C14|index|mapping-does-not-take-precedence|target-depth-%d|variant-depth-%d' % (case['td'], case['rd']),
                               'variant %s, fuzzy %s -> %r' % (case['rn'], case['fuzzy'], got)))
                return got[:2], vs, 1
            v = case['v']
            put_file(root, 0, 'FOO-MIB.txt', b'regular variant')
            put_file(root, 0, 'weird_file-name.dat', b'index target')
            lines = {'odd-target': 'FOO-MIB weird_file-name.dat\nBAR-MIB bar.txt\n',
                     'missing-target': 'FOO-MIB gone.dat\n',
                     'blank-line': 'BAR-MIB bar.txt\n\nFOO-MIB weird_file-name.dat\n',
                     'other-module-only': 'BAR-MIB weird_file-name.dat\n',
                     'three-columns': 'FOO-MIB weird_file-name.dat extra words here\n',
                     'undecodable-line': b'BAR-MIB caf\xe9.txt\n\xff\xfe garbage\nFOO-MIB weird_file-name.dat\n',
                     'bom': b'\xef\xbb\xbfFOO-MIB weird_file-name.dat\n',
                     'crlf-lines': 'BAR-MIB bar.txt\r\nFOO-MIB weird_file-name.dat\r\n'}[v]
            with open(os.path.join(root, '.index'), 'wb') as f:
                f.write(lines if isinstance(lines, bytes) else lines.encode('ascii'))
            got = ask(FileReader(root), 'FOO-MIB')
            if v in ('odd-target', 'blank-line', 'three-columns', 'undecodable-line', 'bom', 'crlf-lines'):
                ok = got[:2] == ('found', 'index target')
            elif v == 'missing-target':
                ok = got[0] == 'not-found' or got[:2] == ('found', 'regular variant')
            else:
                ok = got[:2] == ('found', 'regular variant')
            if not ok:
                vs.append(('C14|index|%s|%s' % (v, got[0] if got[0] != 'foreign' else 'foreign-exception:' + got[1]), repr(got)))
            return got[:2], vs, 1
        finally:
            shutil.rmtree(root, ignore_errors=True)


class ZipShapes(object):
    name = 'zip-shapes'
    describe = ('duplicate basenames across inner archives / directories, member next to a corrupt inner archive, corrupt outer '
                'archive, archive without members, missing archive file, one full member name stored twice (text and time of ONE entry)')

    def blocks(self, tier):
        return [{}]

    def cases(self, block, tier):
        for v in ('dup-inner', 'dup-dirs', 'corrupt-inner-next-to-member', 'corrupt-inner-deeper', 'corrupt-outer', 'no-members',
                  'inner-archive-encrypted', 'inner-archive-of-unknown-compression', 'inner-archive-with-damaged-deflate-stream',
                  'inner-archive-holding-an-encrypted-archive',
                  'missing-file', 'inner-ZIP-uppercase', 'member-in-three-levels', 'member-next-to-one-without-a-date',
                  'member-next-to-inner-archive-with-a-dateless-member',
                  'one-name-stored-twice', 'one-name-stored-twice-in-an-inner-archive', 'one-name-stored-twice-older-last',
                  'encrypted-variant-next-to-a-sound-one', 'damaged-variant-next-to-a-sound-one',
                  'encrypted-variant-next-to-a-sound-one-in-an-inner-archive'):
            yield {'v': v}

    def run_case(self, case):
        from pysmi.reader.zipreader import ZipReader
        root = scratch()
        try:
            v = case['v']
            zp = os.path.join(root, 'm.zip')
            allowed = None
            if v == 'dup-inner':
                blob = zip_bytes([('a.zip', zip_bytes([('FOO-MIB', b'copy A')])), ('b.zip', zip_bytes([('FOO-MIB', b'copy B')]))])
                allowed = ['copy A', 'copy B']
            elif v == 'dup-dirs':
                blob = zip_bytes([('x/FOO-MIB', b'copy X'), ('y/FOO-MIB', b'copy Y')])
                allowed = ['copy X', 'copy Y']
            elif v == 'corrupt-inner-next-to-member':
                blob = zip_bytes([('FOO-MIB', b'good member'), ('broken.zip', b'this is not a zip archive')])
                allowed = ['good member']
            elif v == 'corrupt-inner-deeper':
                blob = zip_bytes([('ok.zip', zip_bytes([('FOO-MIB', b'good member')])), ('broken.zip', b'PK\x03\x04garbage')])
                allowed = ['good member']
            elif v in ('inner-archive-encrypted', 'inner-archive-of-unknown-compression'):
                # inner archives that cannot be read for other reasons than garbage: zipfile raises RuntimeError for an
                # encrypted member, NotImplementedError for a compression method it does not know
                blob = zip_bytes([('FOO-MIB', b'good member'), ('vault.zip', zip_bytes([('BAR-MIB', b'locked away')]))])
                blob = patch_member(blob, 'vault.zip', flags=1) if v == 'inner-archive-encrypted' else \
                    patch_member(blob, 'vault.zip', method=99)
                allowed = ['good member']
            elif v == 'inner-archive-holding-an-encrypted-archive':
                inner = zip_bytes([('BAR-MIB', b'fine'), ('vault.zip', zip_bytes([('BAZ-MIB', b'locked away')]))])
                blob = zip_bytes([('outer.zip', patch_member(inner, 'vault.zip', flags=1)), ('FOO-MIB', b'good member')])
                allowed = ['good member']
            elif v == 'inner-archive-with-damaged-deflate-stream':
                buf = io.BytesIO()
                with zipfile.ZipFile(buf, 'w', zipfile.ZIP_DEFLATED) as z:
                    z.writestr(zipfile.ZipInfo('FOO-MIB', date_time=ZIP_DT), b'good member')
                    zi = zipfile.ZipInfo('packed.zip', date_time=ZIP_DT)
                    zi.compress_type = zipfile.ZIP_DEFLATED
                    z.writestr(zi, zip_bytes([('BAR-MIB', bytes(range(256)) * 40)]))
                blob = patch_member(buf.getvalue(), 'packed.zip', damage=True)
                allowed = ['good member']
            elif v == 'corrupt-outer':
                blob = b'garbage, not an archive'
                allowed = []
            elif v == 'no-members':
                blob = zip_bytes([])
                allowed = []
            elif v == 'inner-ZIP-uppercase':
                blob = zip_bytes([('INNER.ZIP', zip_bytes([('FOO-MIB.MIB', b'upper inner')]))])
                allowed = ['upper inner']
            elif v in ('member-next-to-one-without-a-date', 'member-next-to-inner-archive-with-a-dateless-member'):
                # a member whose DOS time stamp is all zero (month 0, day 0): some archivers write that
                buf = io.BytesIO()
                with zipfile.ZipFile(buf, 'w') as z:
                    zi = zipfile.ZipInfo('OTHER-MIB', date_time=(1980, 1, 1, 0, 0, 0))
                    zi.date_time = (1980, 0, 0, 0, 0, 0)
                    z.writestr(zi, b'dateless member')
                dateless = buf.getvalue()
                if v == 'member-next-to-one-without-a-date':
                    buf2 = io.BytesIO(dateless)
                    with zipfile.ZipFile(buf2, 'a') as z:
                        z.writestr(zipfile.ZipInfo('FOO-MIB', date_time=ZIP_DT), b'good member')
                    blob = buf2.getvalue()
                else:
                    blob = zip_bytes([('FOO-MIB', b'good member'), ('odd.zip', dateless)])
                allowed = ['good member']
            elif v == 'member-in-three-levels':
                blob = nested_zip('FOO-MIB.my', b'deep', 3, True)
                allowed = ['deep']
            elif 'variant-next-to-a-sound-one' in v:
                # two members are variants of the name; the one tried first cannot be read (flagged as encrypted / its data damaged)
                buf = io.BytesIO()
                with zipfile.ZipFile(buf, 'w', zipfile.ZIP_DEFLATED) as z:
                    for n, data in (('mibs/FOO-MIB', b'unreadable member ' * 40), ('mibs/FOO-MIB.txt', b'sound sibling')):
                        zi = zipfile.ZipInfo(n, date_time=ZIP_DT)
                        zi.compress_type = zipfile.ZIP_DEFLATED
                        z.writestr(zi, data)
                blob = patch_member(buf.getvalue(), 'mibs/FOO-MIB', flags=1) if v.startswith('encrypted') else \
                    patch_member(buf.getvalue(), 'mibs/FOO-MIB', damage=True)
                if 'inner' in v:
                    blob = zip_bytes([('inner.zip', blob)])
                allowed = ['sound sibling']
            elif v.startswith('one-name-stored-twice'):
                # an update appended to an archive: the same full member name twice, with different texts and stamps
                import warnings
                dts = [(2001, 2, 3, 4, 5, 6), (2019, 8, 7, 6, 5, 4)]
                if v.endswith('older-last'):
                    dts.reverse()
                buf = io.BytesIO()
                with warnings.catch_warnings():
                    warnings.simplefilter('ignore')
                    with zipfile.ZipFile(buf, 'w') as z:
                        z.writestr(zipfile.ZipInfo('mibs/FOO-MIB.txt', date_time=dts[0]), b'first text')
                        z.writestr(zipfile.ZipInfo('mibs/FOO-MIB.txt', date_time=dts[1]), b'second text')
                blob = buf.getvalue()
                if 'inner' in v:
                    blob = zip_bytes([('inner.zip', blob)])
                allowed = ['first text', 'second text']
                pairs = [('first text', time.mktime(datetime.datetime(*dts[0]).timetuple())),
                         ('second text', time.mktime(datetime.datetime(*dts[1]).timetuple()))]
            if v != 'missing-file':
                with open(zp, 'wb') as f:
                    f.write(blob)
            else:
                allowed = []
            try:
                got = ask(ZipReader(zp), 'FOO-MIB')
            except Exception as exc:
                got = ('constructor-raised', type(exc).__name__, str(exc)[:80])
            vs = []
            if allowed:
                if got[0] != 'found' or got[1] not in allowed:
                    vs.append(('C14|zip|%s|member-not-served|%s' % (v, got[0]), repr(got)))
                elif v.startswith('one-name-stored-twice') and tuple(got[1:3]) not in pairs:
                    vs.append(('C14|zip|%s|text-of-one-entry-with-the-time-of-the-other' % v, 'got %r, entries %r' % (got, pairs)))
            elif got[0] != 'not-found':
                vs.append(('C14|zip|%s|expected-not-found|%s' % (v, got[0]), repr(got)))
            return got[:2], vs, 1
        finally:
            shutil.rmtree(root, ignore_errors=True)


class Urls(object):
    name = 'urls'
    describe = ('getReadersFromUrls(): scheme {none, file, zip, http, https, ftp, sftp, gopher} x path {directory, x.zip, x.ZIP, with '
                '@mib@} x host / port / user / password present or absent: reader class and carried parameters')

    def blocks(self, tier):
        return [{'scheme': s} for s in ('', 'file', 'zip', 'http', 'https', 'ftp', 'sftp', 'gopher')]

    def cases(self, block, tier):
        s = block['scheme']
        paths = ['/tmp/mibs', '/tmp/mibs/x.zip', '/tmp/mibs/x.ZIP', '/mibs/@mib@', 'relative/dir', 'rel.zip']
        if s in ('', 'file', 'zip'):
            for p in paths:
                for form in ('plain', 'triple-slash', 'netloc'):
                    yield {'scheme': s, 'path': p, 'form': form}
            if s == '':
                # plain paths (not URLs) holding characters that are URL syntax
                for p in ('/tmp/mibs#2', '/tmp/my mibs', '/tmp/mibs;v=1', '/tmp/mibs?old', '/tmp/50%25off', '/tmp/a%20b.zip',
                          'rel#1/x.zip'):
                    yield {'scheme': s, 'path': p, 'form': 'plain'}
        else:
            for p in paths[:4]:
                for port in (None, 8080):
                    for cred in (None, 'user', 'user:secret'):
                        yield {'scheme': s, 'path': p, 'port': port, 'cred': cred}

    def run_case(self, case):
        from pysmi.reader.url import getReadersFromUrls
        from pysmi.reader.localfile import FileReader
        from pysmi.reader.zipreader import ZipReader
        from pysmi.reader.httpclient import HttpReader
        from pysmi.reader.ftpclient import FtpReader
        s, p = case['scheme'], case['path']
        vs = []
        if s in ('', 'file', 'zip'):
            form = case['form']
            if s == '':
                if form != 'plain':
                    return 'skip', [], 0
                url = p
            elif form == 'plain':
                url = '%s:%s' % (s, p)
            elif form == 'triple-slash':
                if not p.startswith('/'):
                    return 'skip', [], 0
                url = '%s://%s' % (s, p)
            else:
                if p.startswith('/'):
                    return 'skip', [], 0
                url = '%s://%s' % (s, p)      # the documented 'zip://name.zip' shape: the path lands in the netloc
        else:
            host = 'mibs.example.org'
            auth = (case['cred'] + '@') if case['cred'] else ''
            url = '%s://%s%s%s%s' % (s, auth, host, ':%d' % case['port'] if case['port'] else '', p)
        try:
            readers = getReadersFromUrls(url)
        except error.PySmiError as exc:
            readers = exc
        except Exception as exc:
            return 'foreign', [('C14|urls|%s|foreign-exception|%s' % (s or 'none', type(exc).__name__), '%s -> %r' % (url, exc))], 1
        is_zip = p.endswith('.zip') or p.endswith('.ZIP')
        sig = 'C14|urls|%s' % (s or 'none')
        if s in ('', 'file', 'zip'):
            # the scheme and the extension denote the kind: zip scheme or a .zip path -> ZIP archive, otherwise a directory
            want = ZipReader if is_zip and s in ('', 'zip') else FileReader
            if (s == 'file' and is_zip) or (s == 'zip' and not is_zip):
                want = (FileReader, ZipReader)  # scheme and extension disagree: either reading is defensible
            if s == 'file' and form == 'netloc':
                return 'skip', [], 0            # file://host/path: the first component is a host name
            ok = isinstance(readers, list) and len(readers) == 1 and isinstance(readers[0], want)
            if ok:
                r = readers[0]
                carried = getattr(r, '_path', None) if isinstance(r, FileReader) else getattr(r, '_name', None)
                if os.path.normpath(carried or '') != os.path.normpath(p):
                    vs.append(('%s|path-not-carried|%s' % (sig, case['form']), '%s -> %s carrying %r, expected %r' % (
                        url, type(r).__name__, carried, p)))
            else:
                vs.append(('%s|wrong-reader-kind|%s|%s' % (sig, case['form'], 'zip-path' if is_zip else 'dir-path'),
                           '%s -> %r' % (url, readers)))
            return repr(type(readers[0]).__name__ if isinstance(readers, list) and readers else readers), vs, 1
        if s == 'gopher':
            if not isinstance(readers, error.PySmiError):
                vs.append(('%s|unsupported-scheme-accepted' % sig, '%s -> %r' % (url, readers)))
            return 'rejected', vs, 1
        if s in ('http', 'https'):
            ok = isinstance(readers, list) and len(readers) == 1 and isinstance(readers[0], HttpReader)
            if not ok:
                vs.append(('%s|wrong-reader-kind' % sig, '%s -> %r' % (url, readers)))
            else:
                u = readers[0]._url
                want_port = case['port'] or (443 if s == 'https' else 80)   # the default port of the scheme
                if not u.startswith(s + '://mibs.example.org:') or not u.endswith(p) or ':%d/' % want_port not in u:
                    vs.append(('%s|parameters-not-carried' % sig, '%s -> %s' % (url, u)))
            return 'http', vs, 1
        # ftp / sftp
        if '@mib@' not in p:
            if not isinstance(readers, error.PySmiError):
                vs.append(('%s|ftp-without-placeholder-accepted' % sig, '%s -> %r' % (url, readers)))
            return 'rejected', vs, 1
        ok = isinstance(readers, list) and len(readers) == 1 and isinstance(readers[0], FtpReader)
        if not ok:
            vs.append(('%s|wrong-reader-kind' % sig, '%s -> %r' % (url, readers)))
        else:
            r = readers[0]
            want_user = (case['cred'] or 'anonymous').split(':')[0]
            want_pw = case['cred'].split(':')[1] if case['cred'] and ':' in case['cred'] else 'anonymous@'
            got = (r._host, r._locationTemplate, r._port, r._user, r._password, bool(r._ssl))
            want = ('mibs.example.org', p, case['port'] or 21, want_user, want_pw, s == 'sftp')
            if got != want:
                vs.append(('%s|parameters-not-carried' % sig, '%s -> %r, expected %r' % (url, got, want)))
        return 'ftp', vs, 1



class ZipRequestHistories(object):
    name = 'zip-request-histories'
    describe = ('ONE ZipReader over an archive whose inner archives share member names at depth two (vendorA.zip/mibs.zip and '
                'vendorB.zip/mibs.zip, each with a module of its own and both with COMMON-MIB in different versions and ages): every '
                'sequence of <=3 requests over {ALPHA-MIB, BETA-MIB, COMMON-MIB, ABSENT-MIB}; every answer is what a fresh reader '
                'gives and a (content, mtime) pair of one member')
    NAMES = ['ALPHA-MIB', 'BETA-MIB', 'COMMON-MIB', 'ABSENT-MIB']

    def blocks(self, tier):
        return [{'first': i} for i in range(4)]

    def cases(self, block, tier):
        yield {'seq': [block['first']]}
        for ln in (2, 3):
            for rest in itertools.product(range(4), repeat=ln - 1):
                yield {'seq': [block['first']] + list(rest)}

    def archive(self):
        def zb(members, dt):
            buf = io.BytesIO()
            with zipfile.ZipFile(buf, 'w') as z:
                for n, data in members:
                    z.writestr(zipfile.ZipInfo(n, date_time=dt), data)
            return buf.getvalue()
        da, db = (2001, 1, 1, 0, 0, 0), (2002, 2, 2, 0, 0, 0)
        a = zb([('mibs.zip', zb([('ALPHA-MIB.txt', b'-- alpha'), ('COMMON-MIB.txt', b'-- common of vendor A')], da))], da)
        b = zb([('mibs.zip', zb([('BETA-MIB.txt', b'-- beta'), ('COMMON-MIB.txt', b'-- common of vendor B')], db))], db)
        pairs = {'-- alpha': da, '-- beta': db, '-- common of vendor A': da, '-- common of vendor B': db}
        return zb([('vendorA.zip', a), ('vendorB.zip', b)], da), dict(
            (k, time.mktime(datetime.datetime(*v).timetuple())) for k, v in pairs.items())

    def run_case(self, case):
        from pysmi.reader.zipreader import ZipReader
        root = scratch()
        try:
            blob, pairs = self.archive()
            zp = os.path.join(root, 'm.zip')
            with open(zp, 'wb') as f:
                f.write(blob)
            used = ZipReader(zp)
            vs = []
            got = None
            for pos, i in enumerate(case['seq']):
                name = self.NAMES[i]
                got = ask(used, name)
                want = ask(ZipReader(zp), name)
                prev = self.NAMES[case['seq'][pos - 1]] if pos else 'nothing'
                if got[:3] != want[:3]:
                    vs.append(('C14|zip-history|%s-after-%s|differs-from-a-fresh-reader' % (name.split('-')[0], prev.split('-')[0]),
                               'sequence %r position %d: used reader %r, fresh reader %r' % (
                                   [self.NAMES[j] for j in case['seq']], pos, got, want)))
                    break
                if got[0] == 'found' and pairs.get(got[1]) != got[2]:
                    vs.append(('C14|zip-history|%s|content-and-mtime-of-different-members' % name.split('-')[0], repr(got)))
                    break
                if name != 'ABSENT-MIB' and got[0] != 'found':
                    vs.append(('C14|zip-history|%s|member-not-served' % name.split('-')[0], repr(got)))
                    break
            return repr(got), vs, len(case['seq'])
        finally:
            shutil.rmtree(root, ignore_errors=True)

class ReaderHistories(object):
    name = 'directory-request-histories'
    describe = ('ONE FileReader asked again after the directory changed: an .index written / rewritten / removed between two requests, '
                'a file added; a first variant that cannot be read (larger than the reader accepts) next to a readable one; ONE strict '
                'ZipReader over a file that is no archive asked twice: every answer is what a fresh reader gives at that moment, '
                'errors are the package\'s and do not grow from request to request')

    SCRIPTS = ['index-appears', 'index-rewritten', 'index-removed', 'file-appears', 'oversize-first-variant', 'oversize-only',
               'strict-zip-asked-twice', 'directory-appears-one-level-down', 'directory-appears-two-levels-down',
               'directory-appears-three-levels-down', 'file-appears-two-levels-down', 'directory-disappears',
               'module-below-a-linked-directory', 'module-two-levels-below-a-linked-directory',
               'module-below-a-link-to-a-link', 'module-is-a-linked-file']

    def blocks(self, tier):
        return [{}]

    def cases(self, block, tier):
        for sc in self.SCRIPTS:
            yield {'script': sc}

    def run_case(self, case):
        from pysmi.reader.localfile import FileReader
        from pysmi.reader.zipreader import ZipReader
        root = scratch()
        sc = case['script']
        vs = []
        sig = 'C14|directory-histories|%s' % sc

        def w(name, data):
            with open(os.path.join(root, name), 'w') as f:
                f.write(data)

        def both(reader, label):
            got, fresh = ask(reader, 'FOO-MIB'), ask(FileReader(root), 'FOO-MIB')
            if got[:2] != fresh[:2]:
                vs.append(('%s|%s|differs-from-a-fresh-reader' % (sig, label), 'used reader %r, fresh reader %r' % (got[:2], fresh[:2])))
            return got

        try:
            if sc == 'strict-zip-asked-twice':
                w('bad.zip', 'this is no archive')
                r = ZipReader(os.path.join(root, 'bad.zip'), ignoreErrors=False)
                seen = []
                for i in range(3):
                    try:
                        r.getData('FOO-MIB' if i != 1 else 'BAR-MIB')
                        seen.append(('returned',))
                    except error.PySmiError as exc:
                        exc.msg += ' at MIB X'       # what compile() does with the errors it catches
                        seen.append((type(exc).__name__, str(exc)[:300], id(exc)))
                    except Exception as exc:
                        seen.append(('foreign', type(exc).__name__))
                if any(x[0] in ('returned', 'foreign') for x in seen):
                    vs.append(('%s|not-a-package-error' % sig, repr(seen)))
                elif len(set(x[1] for x in seen)) != 1:
                    vs.append(('%s|error-text-changes-from-request-to-request' % sig, repr([x[1] for x in seen])))
                return repr([x[:2] for x in seen])[:200], vs, 3
            if sc.startswith('module-'):
                # sub-directories are searched whatever kind of directory entry leads to them
                served = os.path.join(root, 'served')
                elsewhere = os.path.join(root, 'elsewhere', 'vendor-mibs')
                os.makedirs(served)
                os.makedirs(os.path.join(elsewhere, 'deeper'))
                target = os.path.join(elsewhere, 'deeper' if 'two-levels' in sc else '', 'FOO-MIB.mib')
                with open(target, 'w') as f:
                    f.write('linked content')
                if sc == 'module-is-a-linked-file':
                    os.symlink(target, os.path.join(served, 'FOO-MIB.txt'))
                elif sc == 'module-below-a-link-to-a-link':
                    os.symlink(elsewhere, os.path.join(root, 'hop'))
                    os.symlink(os.path.join(root, 'hop'), os.path.join(served, 'vendor'))
                else:
                    os.symlink(elsewhere, os.path.join(served, 'vendor'))
                got = ask(FileReader(served), 'FOO-MIB')
                if got[:2] != ('found', 'linked content'):
                    vs.append(('%s|existing-file-not-served|%s' % (sig, got[0]), repr(got[:2])))
                return repr(got[:2]), vs, 1
            r = FileReader(root)
            if sc.startswith('oversize'):
                r.maxMibSize = 64
                w('FOO-MIB.txt', '-- ' + 'x' * 200 + '\n')      # tried first, refused ("too large"): an I/O failure
                if sc == 'oversize-first-variant':
                    w('FOO-MIB.mib', 'second variant')
                got = ask(r, 'FOO-MIB')
                want = ('found', 'second variant') if sc == 'oversize-first-variant' else ('not-found',)
                if got[:2] != want and got[0] != 'error':
                    vs.append(('%s|answered-%s' % (sig, got[0]), '%r, expected %r (or a reader error)' % (got[:2], want)))
                if got[0] == 'error' and got[1] == 'PySmiReaderFileNotModifiedError':
                    vs.append(('%s|not-modified-error-without-any-time-compared' % sig, repr(got)))
                return repr(got[:2]), vs, 1
            if sc.startswith('directory-') or sc == 'file-appears-two-levels-down':
                # the tree changes below the top directory between two requests to one reader
                os.makedirs(os.path.join(root, 'vendor', 'release-1'))
                w(os.path.join('vendor', 'release-1', 'OTHER-MIB.txt'), 'other')
                both(r, 'before')
                both_other = ask(r, 'OTHER-MIB')
                if sc == 'directory-disappears':
                    os.makedirs(os.path.join(root, 'vendor', 'release-2'))
                    w(os.path.join('vendor', 'release-2', 'FOO-MIB.txt'), 'deep file')
                    both(r, 'while-there')
                    shutil.rmtree(os.path.join(root, 'vendor', 'release-2'))
                elif sc == 'file-appears-two-levels-down':
                    w(os.path.join('vendor', 'release-1', 'FOO-MIB.txt'), 'deep file')
                else:
                    sub = {'directory-appears-one-level-down': ['newdir'], 'directory-appears-two-levels-down': ['vendor', 'release-2'],
                           'directory-appears-three-levels-down': ['vendor', 'release-1', 'patches']}[sc]
                    os.makedirs(os.path.join(root, *sub))
                    w(os.path.join(*(sub + ['FOO-MIB.txt'])), 'deep file')
                got = both(r, 'after')
                if sc != 'directory-disappears' and got[:2] != ('found', 'deep file'):
                    vs.append(('%s|existing-file-not-served|%s' % (sig, got[0]), repr(got[:2])))
                return 'ok' if not vs else 'bad', vs, 3
            w('first.dat', 'via first')
            w('second.dat', 'via second')
            if sc == 'index-appears':
                both(r, 'before')
                w('.index', 'FOO-MIB first.dat\n')
                both(r, 'after')
            elif sc == 'index-rewritten':
                w('.index', 'FOO-MIB first.dat\n')
                both(r, 'before')
                w('.index', 'FOO-MIB second.dat\n')
                both(r, 'after')
            elif sc == 'index-removed':
                w('.index', 'FOO-MIB first.dat\n')
                both(r, 'before')
                os.unlink(os.path.join(root, '.index'))
                both(r, 'after')
            else:
                both(r, 'before')
                w('FOO-MIB.txt', 'a file')
                both(r, 'after')
            return 'ok' if not vs else 'bad', vs, 2
        finally:
            shutil.rmtree(root, ignore_errors=True)


FAMILIES = [Names(), Decoys(), Contents(), ZipShapes(), Urls(), ZipRequestHistories(), ReaderHistories()]
