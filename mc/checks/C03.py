"""C03 - JSON output is well formed and holds exactly the declared symbols.

Every sequence of <=2 (quick) / <=3 (thorough) declarations over the declaration kinds is compiled to JSON; the
key set must be exactly the declared symbols (+ imports, meta) and each entry's name, class, node type, status,
access, units and revision data must be those of its own declaration (every symbol gets unique values, so
cross-wiring is visible).
"""
import itertools
import json

from mc import env, mibspec, refir

BOUNDS = {
    'quick': 'all sequences of <=2 declarations over 14 kinds x genTexts on/off; optional-part subsets per kind; '
             '4 identifier styles per kind',
    'thorough': 'all sequences of <=3 declarations over 14 kinds x genTexts on/off; optional-part subsets; identifier styles',
}
ASSUMPTIONS = ['"symbol declared" excludes SEQUENCE row types and CHOICE types (no record kind in either back end)',
               'an empty UNITS text and an absent UNITS clause are the same information']

KINDS = ['value', 'oi', 'ot', 'tbl', 'nt', 'trap', 'mi', 'mc', 'og', 'ng', 'ac', 'type', 'tc', 'tagtype']
STATUS = ['current', 'deprecated', 'obsolete']
ACCESS = ['read-only', 'read-write', 'not-accessible', 'accessible-for-notify', 'read-create']


def lname(style, i):
    return {'plain': 'sym%d' % i, 'mixed': 'mixedCaseSym%dX' % i, 'hyphen': 'hy-phen-%d' % i,
            'digit': '%dabc' % (i + 1)}[style]


def uname(style, i):
    return {'plain': 'Typ%d' % i, 'mixed': 'MixedCaseTyp%dX' % i, 'hyphen': 'Hy-Phen-%d' % i,
            'digit': 'T%dABC' % i}[style]


def make(kind, i, style='plain', opts=None):
    """Declarations for slot i (a list: the table kind is a composite)."""
    opts = opts or {}
    n = lname(style, i)
    oid = ['ctxRoot', 10 + i]
    st = STATUS[i % 3]
    txt = {'descr': 'Description of slot %d.' % i, 'ref': opts.get('ref')}
    if kind == 'value':
        return [{'k': 'value', 'name': n, 'oid': oid}]
    if kind == 'oi':
        return [dict({'k': 'oi', 'name': n, 'status': st, 'oid': oid}, **txt)]
    if kind == 'ot':
        d = dict({'k': 'ot', 'name': n, 'syntax': ('simple', 'Integer32'), 'status': st, 'oid': oid,
                  'access': ('MAX-ACCESS', ACCESS[i % 5]), 'units': 'units-of-%d' % i}, **txt)
        if 'units' in opts:
            d['units'] = opts['units']
        if 'access' in opts:
            d['access'] = opts['access']
        if 'descr' in opts:
            d['descr'] = opts['descr']
        if 'defval' in opts:
            d['defval'] = opts['defval']
        return [d]
    if kind == 'tbl':
        row = uname(style, i) + 'Entry'
        return [
            dict({'k': 'ot', 'name': n, 'syntax': ('seqof', row), 'status': st, 'oid': oid,
                  'access': ('MAX-ACCESS', 'not-accessible')}, **txt),
            dict({'k': 'ot', 'name': n + 'Entry', 'syntax': ('ref', row), 'status': st, 'oid': [n, 1],
                  'access': ('MAX-ACCESS', 'not-accessible'), 'index': [(0, n + 'Idx')]}, **txt),
            {'k': 'type', 'name': row, 'syntax': ('seq', [(n + 'Idx', 'Integer32'), (n + 'Val', 'OCTET STRING')])},
            dict({'k': 'ot', 'name': n + 'Idx', 'syntax': ('simple', 'Integer32'), 'status': st, 'oid': [n + 'Entry', 1],
                  'access': ('MAX-ACCESS', 'not-accessible')}, **txt),
            dict({'k': 'ot', 'name': n + 'Val', 'syntax': ('simple', 'OCTET STRING'), 'status': st,
                  'oid': [n + 'Entry', 2], 'access': ('MAX-ACCESS', ACCESS[i % 2]), 'units': 'cells-%d' % i}, **txt)]
    if kind == 'nt':
        return [dict({'k': 'nt', 'name': n, 'objects': opts.get('objects', ['ctxObj']), 'status': st, 'oid': oid}, **txt)]
    if kind == 'trap':
        return [{'k': 'trap', 'name': n, 'enterprise': ['ctxRoot'], 'vars': opts.get('objects', ['ctxObj']),
                 'descr': opts.get('descr', txt['descr']), 'ref': txt['ref'], 'num': 100 + i}]
    if kind == 'mi':
        revs = opts.get('revs', [('20%02d0%d010000Z' % (20 - j, i + 1), 'Revision %d of slot %d.' % (j, i)) for j in range(2)])
        return [{'k': 'mi', 'name': n, 'last': '202101010000Z', 'org': 'Org %d' % i, 'contact': 'Contact %d' % i,
                 'descr': txt['descr'], 'revs': revs, 'oid': oid}]
    if kind == 'mc':
        return [dict({'k': 'mc', 'name': n, 'status': st, 'oid': oid,
                      'modules': [{'name': None, 'mandatory': ['ctxGroup'], 'items': []}]}, **txt)]
    if kind == 'og':
        return [dict({'k': 'og', 'name': n, 'objects': ['ctxObj'], 'status': st, 'oid': oid}, **txt)]
    if kind == 'ng':
        return [dict({'k': 'ng', 'name': n, 'objects': ['ctxNotif'], 'status': st, 'oid': oid}, **txt)]
    if kind == 'ac':
        return [dict({'k': 'ac', 'name': n, 'release': 'release-%d' % i, 'status': st, 'oid': oid}, **txt)]
    if kind == 'type':
        return [{'k': 'type', 'name': uname(style, i), 'syntax': ('simple', 'INTEGER', ('range', [(i, 100 + i)]))}]
    if kind == 'tagtype':
        # a type declared through an ASN.1 tag, as the SMI base modules do
        return [{'k': 'type', 'name': uname(style, i),
                 'syntax': ('tagged', ('APPLICATION', 'UNIVERSAL')[i % 2], 7 + i, ('simple', 'OCTET STRING', ('size', [(4 + i,)])))}]
    if kind == 'tc':
        return [{'k': 'tc', 'name': uname(style, i), 'display': opts.get('display', 'd-%d' % i), 'status': st,
                 'descr': txt['descr'], 'ref': txt['ref'], 'syntax': ('simple', 'OCTET STRING', ('size', [(0, 10 + i)]))}]
    raise ValueError(kind)


def context():
    return [{'k': 'value', 'name': 'ctxRoot', 'oid': ['enterprises', 4242]},
            {'k': 'ot', 'name': 'ctxObj', 'syntax': ('simple', 'Integer32'), 'access': ('MAX-ACCESS', 'read-only'),
             'status': 'current', 'descr': 'Context object.', 'oid': ['ctxRoot', 1]},
            {'k': 'nt', 'name': 'ctxNotif', 'objects': None, 'status': 'current', 'descr': 'Context notification.',
             'oid': ['ctxRoot', 2]},
            {'k': 'og', 'name': 'ctxGroup', 'objects': ['ctxObj'], 'status': 'current', 'descr': 'Context group.',
             'oid': ['ctxRoot', 3]}]


TEXT_KEYS = ('description', 'reference', 'lastupdated', 'organization', 'contactinfo')


def relayout(text, comments, terms):
    """The same tokens on the same lines: every line that ends outside a quoted string gets a comment (or not) and the line ends are
    taken, in turn, from terms."""
    out, inside, i = [], False, 0
    for line in text.split('\n'):
        inside ^= line.count('"') % 2 == 1
        if inside:
            out.append(line + '\n')
            continue
        out.append(line + (' -- a remark' if comments and line.strip() else '') + terms[i % len(terms)])
        i += 1
    return ''.join(out)


def judge(decls, gen_texts, sigbase, modname='TEST-MIB', others=(), others_first=True, layout=None):
    """others: [(module name, decls)] unrelated modules compiled by the same call (same compiler, same generators)."""
    mod = refir.finish_module({'name': modname, 'decls': decls})
    uni = refir.Universe([mod])
    text = mibspec.pretty([mod])
    if layout:
        text = relayout(text, *layout)
    parser = env.shared_parser('smiV2')
    parser.reset()
    texts = {modname: text}
    for oname, odecls in others:
        texts[oname] = mibspec.pretty([refir.finish_module({'name': oname, 'decls': odecls})])
    req = [o for o, _ in others] + [modname] if others_first else [modname] + [o for o, _ in others]
    res, written = env.compile_set(texts, req, codegen='json', dialect=parser, genTexts=gen_texts)
    vs = []
    if res.get(modname) != 'compiled':
        return 'status=%s' % res.get(modname), [('%s|not-compiled|%s' % (sigbase, res.get(modname)),
                                                '%s\nstatus %r error %r' % (text, res.get(modname),
                                                                            getattr(res.get(modname), 'error', None)))], 1
    raw = written[modname]
    try:
        doc = json.loads(raw)
    except Exception as exc:
        return 'invalid-json', [('%s|invalid-json' % sigbase, '%r\n%s\n%s' % (exc, text, raw))], 1
    want = {}
    for d in decls:
        if refir.has_entry(d):
            want[refir.under(d['name'])] = refir.expected_core(uni, mod, d)
    keys = set(doc) - set(['imports', 'meta'])
    if 'imports' not in doc or 'meta' not in doc or doc.get('meta', {}).get('module') != modname:
        vs.append(('%s|imports-meta-missing' % sigbase, raw[:1500]))
    if keys != set(want):
        vs.append(('%s|key-set-differs|missing=%s|extra=%s' % (
            sigbase, ','.join(sorted(kindof(decls, k) for k in set(want) - keys)),
            ','.join(sorted(set('?' for k in keys - set(want))))),
            'declared %r\nkeys %r\n%s' % (sorted(want), sorted(keys), text)))
    for name, exp in sorted(want.items()):
        got = doc.get(name)
        if not isinstance(got, dict):
            continue
        for field, val in sorted(exp.items()):
            g = got.get(field)
            if field == 'revisions':
                g = [r.get('revision') for r in g] if g else None
            if field == 'name' and g in (val, [d['name'] for d in decls if refir.under(d['name']) == name][0]):
                continue  # the name field may keep the MIB spelling or use the underscore form of the key
            if (g or None) != (val or None):
                vs.append(('%s|field-differs|%s.%s' % (sigbase, exp['class'], field),
                           'symbol %s field %s: document %r, declaration %r\n%s' % (name, field, got.get(field), val, text)))
        if not gen_texts:
            leaked = [k for k in TEXT_KEYS if k in got]
            if leaked:
                vs.append(('%s|texts-without-genTexts|%s.%s' % (sigbase, exp['class'], leaked[0]), repr(got)))
    outcome = json.dumps(dict((k, dict((f, v) for f, v in doc[k].items() if f in ('class', 'nodetype', 'status', 'maxaccess', 'units', 'oid')))
                              for k in keys if isinstance(doc[k], dict)), sort_keys=True)
    return outcome, vs, 1


def kindof(decls, uname_):
    for d in decls:
        if refir.under(d['name']) == uname_:
            return d['k']
    return '?'


class Sequences(object):
    name = 'kind-sequences'
    describe = ('every sequence of declarations over 14 kinds (value, OBJECT-IDENTITY, scalar OBJECT-TYPE, a table with '
                'row/SEQUENCE/columns, NOTIFICATION-TYPE, TRAP-TYPE, MODULE-IDENTITY, MODULE-COMPLIANCE, OBJECT-GROUP, '
                'NOTIFICATION-GROUP, AGENT-CAPABILITIES, type assignment, TEXTUAL-CONVENTION) after a fixed 4-declaration '
                'context, with and without texts')

    def blocks(self, tier):
        n = 3 if tier == 'thorough' else 2
        out = [{'seq': []}]
        for ln in range(1, n + 1):
            for first in KINDS:
                out.append({'first': first, 'len': ln})
        return out

    def cases(self, block, tier):
        if 'seq' in block:
            for gt in (0, 1):
                yield {'seq': [], 'gt': gt}
            return
        for rest in itertools.product(KINDS, repeat=block['len'] - 1):
            seq = [block['first']] + list(rest)
            if seq.count('mi') > 1:
                continue
            for gt in (0, 1):
                yield {'seq': seq, 'gt': gt}

    def run_case(self, case):
        decls = context()
        for i, k in enumerate(case['seq']):
            decls += make(k, i)
        return judge(decls, bool(case['gt']), 'C03|seq|%s' % '+'.join(sorted(set(case['seq']))))


class Names(object):
    name = 'identifier-styles'
    describe = 'every kind x identifier style (plain, mixedCase, hyphen-ated, digit-leading) x genTexts'
    STYLES = ['plain', 'mixed', 'hyphen', 'digit']

    def blocks(self, tier):
        return [{'kind': k} for k in KINDS]

    def cases(self, block, tier):
        for st in self.STYLES:
            for gt in (0, 1):
                yield {'kind': block['kind'], 'style': st, 'gt': gt}

    def run_case(self, case):
        decls = context() + make(case['kind'], 0, style=case['style']) + make('value', 1)
        return judge(decls, bool(case['gt']), 'C03|names|%s|%s' % (case['kind'], case['style']))


class Parts(object):
    name = 'optional-parts'
    describe = ('OBJECT-TYPE: units x access keyword x description x reference x DEFVAL subsets; notification / trap object '
                'lists 0..2; MODULE-IDENTITY with 0..3 revisions incl. 2-digit-year dates; TC display hint / reference')

    def blocks(self, tier):
        return [{'g': g} for g in ('ot', 'nt', 'trap', 'mi', 'tc')]

    def cases(self, block, tier):
        g = block['g']
        if g == 'ot':
            for units, acc, descr, ref, dv in itertools.product(
                    [None, 'seconds', ''], [('MAX-ACCESS', 'read-create'), ('ACCESS', 'write-only'), None],
                    [None, 'D.'], [None, 'R.'], [None, ('num', 0), ('num', 7)]):
                yield {'g': g, 'o': {'units': units, 'access': acc, 'descr': descr, 'ref': ref, 'defval': dv}}
        elif g in ('nt', 'trap'):
            for objs in (None, [], ['ctxObj'], ['ctxObj', 'sym1']):
                if objs == [] :
                    continue
                for ref in (None, 'R.'):
                    yield {'g': g, 'o': {'objects': objs, 'ref': ref}}
        elif g == 'mi':
            for revs in ([], [('202001010000Z', 'r')], [('202002010000Z', 'r2'), ('202001010000Z', 'r1')],
                         [('9901010000Z', 'old')], [('202003010000Z', 'c'), ('202002010000Z', 'b'), ('9912312359Z', 'a')],
                         # a change log kept oldest-first, and one in no order at all: reported as declared
                         [('199801010000Z', 'a'), ('200201010000Z', 'b'), ('201101010000Z', 'c')],
                         [('200201010000Z', 'b'), ('201101010000Z', 'c'), ('9801010000Z', 'a'), ('200501010000Z', 'd')]):
                yield {'g': g, 'o': {'revs': revs}}
            # dates no calendar has (29 February 2021, hour 24): declared all the same
            yield {'g': g, 'o': {'revs': [('202102290000Z', 'leap'), ('202001010000Z', 'fine')]}, 'tag': 'impossible-date'}
            yield {'g': g, 'o': {'revs': [('202001012400Z', 'midnight')]}, 'tag': 'impossible-date'}
            # two clauses carrying one date (a change log amended within the minute): each clause has its entry
            yield {'g': g, 'o': {'revs': [('202001010000Z', 'later'), ('202001010000Z', 'earlier')]}, 'tag': 'same-date'}
            yield {'g': g, 'o': {'revs': [('202002010000Z', 'c'), ('202001010000Z', 'b'), ('202002010000Z', 'a')]}, 'tag': 'same-date'}
            yield {'g': g, 'o': {'revs': [('0001010000Z', 'short'), ('200001010000Z', 'long')]}, 'tag': 'same-date'}
        elif g == 'tc':
            for disp, ref in itertools.product([None, '255a', ''], [None, 'R.']):
                yield {'g': g, 'o': {'display': disp, 'ref': ref}}

    def run_case(self, case):
        o = dict(case['o'])
        for k in ('access', 'defval'):
            if o.get(k) is not None:
                o[k] = tuple(o[k])
        if o.get('revs') is not None:
            o['revs'] = [tuple(r) for r in o['revs']]
        decls = context() + make(case['g'], 0, opts=o) + make('ot', 1)
        out = []
        vs = []
        for gt in (False, True):
            oc, v, _ = judge(decls, gt, 'C03|parts|%s%s' % (case['g'], '-' + case['tag'] if case.get('tag') else ''))
            out.append(oc)
            vs += v
        return repr(out), vs, 2


class ReservedKeys(object):
    name = 'reserved-keys'
    describe = 'a symbol whose name equals one of the document\'s own keys (meta, imports)'

    def blocks(self, tier):
        return [{}]

    def cases(self, block, tier):
        for n in ('meta', 'imports'):
            for kind in ('value', 'ot'):
                yield {'n': n, 'kind': kind}

    def run_case(self, case):
        d = make(case['kind'], 0)
        d[0]['name'] = case['n']
        decls = context() + d
        return judge(decls, False, 'C03|reserved-key|%s' % case['n'])


class TableOrders(object):
    name = 'table-orders'
    describe = ('a table with one / two columns and a scalar: every permutation of (table, row, SEQUENCE type, columns, scalar) for the '
                'one-column table, every rotation and the reversal for two columns; node types must follow the SYNTAX / SEQUENCE '
                'definitions whatever the order')

    def blocks(self, tier):
        return [{'ncols': 1}, {'ncols': 2}]

    def cases(self, block, tier):
        n = 4 + block['ncols']   # table, row, seq, columns..., scalar
        if block['ncols'] == 1 or tier == 'thorough':
            for perm in itertools.permutations(range(n)):
                yield {'ncols': block['ncols'], 'perm': list(perm)}
        else:
            for r in range(n):
                yield {'ncols': block['ncols'], 'perm': list(range(r, n)) + list(range(r))}
            yield {'ncols': block['ncols'], 'perm': list(range(n))[::-1]}

    def run_case(self, case):
        t = make('tbl', 0)
        if case['ncols'] == 1:
            # drop the value column (and its SEQUENCE member)
            t = [d for d in t if d['name'] != 'sym0Val']
            for d in t:
                if d['k'] == 'type':
                    d['syntax'] = ('seq', [m for m in d['syntax'][1] if m[0] != 'sym0Val'])
        items = t + make('ot', 1)
        items = [items[i] for i in case['perm']]
        return judge(context() + items, False, 'C03|table-order|cols=%d' % case['ncols'])


class LineEnds(object):
    name = 'line-ends-and-comments'
    describe = ('one declaration of each kind (and a table) per module, every line with or without a trailing comment, the line ends LF, '
                'CR LF, lone CR, and the mixtures that real files show (CR / LF in turn, CR LF / CR in turn, CR / CR LF / LF): the '
                'document holds the declared symbols with the declared data whatever ends the lines and the comments')

    TERMS = [['\n'], ['\r\n'], ['\r'], ['\r', '\n'], ['\r\n', '\r'], ['\r', '\r\n', '\n'], ['\n', '\r']]

    def blocks(self, tier):
        return [{'kind': k} for k in ('ot', 'tbl', 'mi', 'tc', 'nt', 'mc')]

    def cases(self, block, tier):
        for comments in (0, 1):
            for t in range(len(self.TERMS)):
                yield {'kind': block['kind'], 'comments': comments, 't': t}

    def run_case(self, case):
        decls = context() + make(case['kind'], 0) + make('ot', 1) + make('type', 2)
        return judge(decls, True, 'C03|line-ends|%s|%s' % ('comments' if case['comments'] else 'plain',
                                                            '+'.join(repr(x)[1:-1] for x in self.TERMS[case['t']])),
                     layout=(case['comments'], self.TERMS[case['t']]))


class ForwardChains(object):
    name = 'chains-of-forward-references'
    describe = ('an object of type Lvl, Lvl ::= Pct (0..50), Pct a TEXTUAL-CONVENTION, a further type over Lvl: all 24 declaration orders; '
                'a table and a table whose row AUGMENTS the first one\'s row: every order of the two tables and two rows with the '
                'SEQUENCE types and columns before or after them (thorough: every order of all eight declarations) - one entry per '
                'declared symbol whatever the order')

    def blocks(self, tier):
        return [{'set': 'types'}, {'set': 'augments'}]

    def items(self, which):
        if which == 'types':
            return [dict(make('ot', 0)[0], syntax=('ref', 'Lvl')),
                    {'k': 'type', 'name': 'Lvl', 'syntax': ('ref', 'Pct', ('range', [(0, 50)]))},
                    {'k': 'tc', 'name': 'Pct', 'display': 'd', 'status': 'current', 'descr': 'Per cent.', 'ref': None,
                     'syntax': ('simple', 'Integer32', ('range', [(0, 100)]))},
                    {'k': 'type', 'name': 'Top', 'syntax': ('ref', 'Lvl')}]
        base, ext = make('tbl', 0), make('tbl', 1)
        ext[1] = dict(ext[1], augments='sym0Entry')
        ext[1].pop('index', None)
        # tables and rows first (positions 0-3), then SEQUENCE types and columns
        return [base[0], base[1], ext[0], ext[1], base[2], ext[2], base[3], base[4], ext[3], ext[4]]

    def cases(self, block, tier):
        if block['set'] == 'types':
            for perm in itertools.permutations(range(4)):
                yield {'set': 'types', 'perm': list(perm)}
            return
        rest = list(range(4, 10))
        if tier == 'thorough':
            for perm in itertools.permutations(range(4)):
                for rperm in itertools.permutations(range(4, 8)):
                    yield {'set': 'augments', 'perm': list(perm) + list(rperm) + [8, 9]}
                    yield {'set': 'augments', 'perm': list(rperm) + [8, 9] + list(perm)}
            return
        for perm in itertools.permutations(range(4)):
            yield {'set': 'augments', 'perm': list(perm) + rest}
            yield {'set': 'augments', 'perm': rest + list(perm)}
            yield {'set': 'augments', 'perm': rest[::-1] + list(perm)}

    def run_case(self, case):
        items = self.items(case['set'])
        items = [items[i] for i in case['perm']]
        return judge(context() + items, False, 'C03|forward-chains|%s' % case['set'])


class NestedRuns(object):
    name = 'generator-runs-inside-one-another'
    describe = ('two compilers with code generator objects of their own; the text filter of the first one, at its k-th call (every k), '
                'lets the second compiler translate another edition of the module - same symbol names, other status / access / units / '
                'revisions - from start to end: both documents equal those of the runs made alone (every switch point between the two '
                'runs that a callback can produce)')

    EDITIONS = [
        ('DEMO-MIB DEFINITIONS ::= BEGIN\nIMPORTS MODULE-IDENTITY, OBJECT-TYPE, Integer32, enterprises FROM SNMPv2-SMI;\n'
         'demoMib MODULE-IDENTITY LAST-UPDATED "202001010000Z" ORGANIZATION "o" CONTACT-INFO "c" DESCRIPTION "today" '
         'REVISION "202001010000Z" DESCRIPTION "second" REVISION "201001010000Z" DESCRIPTION "first" ::= { enterprises 5 }\n'
         'demoCount OBJECT-TYPE SYNTAX Integer32 UNITS "packets" MAX-ACCESS read-only STATUS current DESCRIPTION "counts" ::= { demoMib 1 }\n'
         'demoTime OBJECT-TYPE SYNTAX Integer32 UNITS "seconds" MAX-ACCESS read-write STATUS current DESCRIPTION "time" ::= { demoMib 2 }\n'
         'demoOnly OBJECT-TYPE SYNTAX Integer32 MAX-ACCESS read-only STATUS current DESCRIPTION "only today" ::= { demoMib 3 }\nEND\n'),
        ('DEMO-MIB DEFINITIONS ::= BEGIN\nIMPORTS MODULE-IDENTITY, OBJECT-TYPE, Integer32, enterprises FROM SNMPv2-SMI;\n'
         'demoMib MODULE-IDENTITY LAST-UPDATED "201001010000Z" ORGANIZATION "o" CONTACT-INFO "c" DESCRIPTION "then" '
         'REVISION "201001010000Z" DESCRIPTION "first" ::= { enterprises 5 }\n'
         'demoTime OBJECT-TYPE SYNTAX Integer32 UNITS "ticks" MAX-ACCESS read-only STATUS obsolete DESCRIPTION "time then" ::= { demoMib 2 }\n'
         'demoCount OBJECT-TYPE SYNTAX Integer32 UNITS "frames" MAX-ACCESS read-write STATUS deprecated DESCRIPTION "counts then" ::= { demoMib 1 }\n'
         'END\n')]

    def blocks(self, tier):
        return [{'outer': 0}, {'outer': 1}]

    def cases(self, block, tier):
        for gt_outer in (True, False):
            for gt_inner in (True, False):
                for k in range(14):
                    yield {'outer': block['outer'], 'k': k, 'gto': gt_outer, 'gti': gt_inner}

    def one(self, edition, gen_texts, text_filter=None):
        w = env.CaptureWriter()
        parser = env.fresh_parser('smiV2') if text_filter is None else env.shared_parser('smiV2')
        parser.reset()
        comp = env.MibCompiler(parser, env.JsonCodeGen(), w)
        texts = env.base_texts()
        texts['DEMO-MIB'] = self.EDITIONS[edition]
        comp.addSources(env.DictReader(texts))
        comp.addSearchers(env.StubSearcher(*env.BASE_NAMES))
        opts = {'genTexts': gen_texts}
        if text_filter is not None:
            opts['textFilter'] = text_filter
        res = comp.compile('DEMO-MIB', **opts)
        doc = dict((n, d) for n, d, _ in w.written).get('DEMO-MIB')
        return str(res.get('DEMO-MIB')), json.loads(doc) if doc else None

    def run_case(self, case):
        import re
        calls = [0]
        inner = []

        def flt(symbol, text):
            if calls[0] == case['k']:
                inner.append(self.one(1 - case['outer'], case['gti']))
            calls[0] += 1
            return re.sub(r'\s+', ' ', text)

        def plain(symbol, text):
            return re.sub(r'\s+', ' ', text)
        sig = 'C03|nested-runs|outer-texts=%d|inner-texts=%d' % (case['gto'], case['gti'])
        try:
            got_outer = self.one(case['outer'], case['gto'], flt)
        except Exception as exc:
            return 'escaped', [('%s|exception-escapes|%s' % (sig, type(exc).__name__), repr(exc)[:300])], 3
        if not inner:
            return 'filter-called-%d-times' % calls[0], [], 1     # fewer than k calls in this configuration
        want_outer = self.one(case['outer'], case['gto'], plain)
        want_inner = self.one(1 - case['outer'], case['gti'])
        vs = []

        def strip(r):
            st, doc = r
            if doc:
                doc = dict(doc)
                doc.pop('meta', None)
            return st, doc
        if strip(got_outer) != strip(want_outer):
            diff = [k for k in (want_outer[1] or {}) if (got_outer[1] or {}).get(k) != want_outer[1][k] and k != 'meta']
            vs.append(('%s|outer-document-differs-from-the-run-alone' % sig, 'switch at filter call %d: status %s (alone %s), differing entries %r' % (
                case['k'], got_outer[0], want_outer[0], diff[:5])))
        if strip(inner[0]) != strip(want_inner):
            diff = [k for k in (want_inner[1] or {}) if (inner[0][1] or {}).get(k) != want_inner[1][k] and k != 'meta']
            vs.append(('%s|inner-document-differs-from-the-run-alone' % sig, 'switch at filter call %d: status %s (alone %s), differing entries %r' % (
                case['k'], inner[0][0], want_inner[0], diff[:5])))
        return 'ok' if not vs else 'bad', vs, 3


class SharedNames(object):
    name = 'names-shared-with-another-module'
    describe = ('OTHER-MIB declares a table (table, row, SEQUENCE type, two columns); TEST-MIB, compiled by the same call before or '
                'after it, declares one symbol of each kind NAMED LIKE one of those (descriptors are unique per module only): the '
                'document of TEST-MIB is what its own text says')

    def blocks(self, tier):
        return [{'k': k} for k in KINDS if k != 'tbl']

    def cases(self, block, tier):
        names = ['Sym0Entry'] if block['k'] in ('type', 'tc', 'tagtype') else ['sym0', 'sym0Entry', 'sym0Idx', 'sym0Val']
        for n in names:
            for first in (True, False):
                yield {'k': block['k'], 'name': n, 'others_first': first}

    def run_case(self, case):
        other = [{'k': 'value', 'name': 'ctxRoot', 'oid': ['enterprises', 777]}] + make('tbl', 0)
        d = make(case['k'], 1)
        d[0]['name'] = case['name']
        items = context() + d + make('ot', 2)
        return judge(items, False, 'C03|shared-name|%s-named-like-%s' % (case['k'], case['name']),
                     others=[('OTHER-MIB', other)], others_first=case['others_first'])



class MetTwice(object):
    name = 'module-met-twice-in-one-call'
    describe = ('ACME-PRODUCT-MIB in a file of its own (scalar, table, type, notification) and an older copy of it with fewer / '
                'other symbols travelling in the file of ACME-SMI; both requested, either order, also through an importing third '
                'module: the document of ACME-PRODUCT-MIB holds exactly the symbols of ONE of the two texts, each with that '
                'text\'s data (never the tree of one copy rendered through the symbol table of the other)')

    NEW = ('ACME-PRODUCT-MIB DEFINITIONS ::= BEGIN\nIMPORTS OBJECT-TYPE, NOTIFICATION-TYPE, Integer32, enterprises FROM SNMPv2-SMI;\n'
           'acmeProduct OBJECT IDENTIFIER ::= { enterprises 4242 }\n'
           'acmeUptime OBJECT-TYPE SYNTAX Integer32 MAX-ACCESS read-only STATUS current DESCRIPTION "d" ::= { acmeProduct 1 }\n'
           'acmeSlotTable OBJECT-TYPE SYNTAX SEQUENCE OF AcmeSlotEntry MAX-ACCESS not-accessible STATUS current DESCRIPTION "d" ::= { acmeProduct 2 }\n'
           'acmeSlotEntry OBJECT-TYPE SYNTAX AcmeSlotEntry MAX-ACCESS not-accessible STATUS current DESCRIPTION "d" INDEX { acmeSlotIndex } ::= { acmeSlotTable 1 }\n'
           'AcmeSlotEntry ::= SEQUENCE { acmeSlotIndex Integer32, acmeSlotTemp Integer32 }\n'
           'acmeSlotIndex OBJECT-TYPE SYNTAX Integer32 MAX-ACCESS not-accessible STATUS current DESCRIPTION "d" ::= { acmeSlotEntry 1 }\n'
           'acmeSlotTemp OBJECT-TYPE SYNTAX Integer32 MAX-ACCESS read-only STATUS current DESCRIPTION "d" ::= { acmeSlotEntry 2 }\n'
           'acmeHot NOTIFICATION-TYPE OBJECTS { acmeSlotTemp } STATUS current DESCRIPTION "d" ::= { acmeProduct 0 1 }\nEND\n')
    OLD = ('ACME-PRODUCT-MIB DEFINITIONS ::= BEGIN\nIMPORTS OBJECT-TYPE, Integer32, enterprises FROM SNMPv2-SMI;\n'
           'acmeProduct OBJECT IDENTIFIER ::= { enterprises 4242 }\n'
           'acmeSlotTemp OBJECT-TYPE SYNTAX Integer32 MAX-ACCESS read-write STATUS deprecated DESCRIPTION "d" ::= { acmeProduct 7 }\n'
           'acmeLegacy OBJECT IDENTIFIER ::= { acmeProduct 8 }\nEND\n')
    SMI = 'ACME-SMI DEFINITIONS ::= BEGIN\nIMPORTS enterprises FROM SNMPv2-SMI;\nacmeRoot OBJECT IDENTIFIER ::= { enterprises 4241 }\nEND\n'
    USER = ('ACME-USER-MIB DEFINITIONS ::= BEGIN\nIMPORTS acmeProduct FROM ACME-PRODUCT-MIB acmeRoot FROM ACME-SMI;\n'
            'acmeUser OBJECT IDENTIFIER ::= { acmeProduct 99 }\nEND\n')

    def blocks(self, tier):
        return [{}]

    def cases(self, block, tier):
        for req in (['ACME-PRODUCT-MIB', 'ACME-SMI'], ['ACME-SMI', 'ACME-PRODUCT-MIB'], ['ACME-USER-MIB'],
                    ['ACME-PRODUCT-MIB', 'ACME-USER-MIB'], ['ACME-USER-MIB', 'ACME-PRODUCT-MIB', 'ACME-SMI']):
            for smi_first in (0, 1):
                yield {'req': req, 'smi_first': smi_first}

    def run_case(self, case):
        pack = (self.SMI + self.OLD) if case['smi_first'] else (self.OLD + self.SMI)
        texts = {'ACME-PRODUCT-MIB': self.NEW, 'ACME-SMI': pack, 'ACME-USER-MIB': self.USER}
        res, written = env.compile_set(texts, case['req'], codegen='json', dialect=env.fresh_parser('smiV2'))
        sig = 'C03|met-twice'
        if res.get('ACME-PRODUCT-MIB') != 'compiled':
            return 'failed', [('%s|not-compiled|%s' % (sig, res.get('ACME-PRODUCT-MIB')), '%r %r' % (
                case, getattr(res.get('ACME-PRODUCT-MIB'), 'error', None)))], 1
        doc = json.loads(written['ACME-PRODUCT-MIB'])
        keys = set(doc) - set(['imports', 'meta'])
        new = {'acmeProduct': None, 'acmeUptime': 'scalar', 'acmeSlotTable': 'table', 'acmeSlotEntry': 'row', 'acmeSlotIndex': 'column',
               'acmeSlotTemp': 'column', 'acmeHot': None}
        old = {'acmeProduct': None, 'acmeSlotTemp': 'scalar', 'acmeLegacy': None}
        vs = []
        for label, want in (('new', new), ('old', old)):
            if keys == set(want):
                for k, nt in want.items():
                    if nt and doc[k].get('nodetype') != nt:
                        vs.append(('%s|%s-copy|node-type-of-the-other-copy' % (sig, label), '%s is %r, its text says %s' % (k, doc[k].get('nodetype'), nt)))
                break
        else:
            vs.append(('%s|symbols-of-neither-copy' % sig, 'document keys %r; one text declares %r, the other %r; request %r' % (
                sorted(keys), sorted(new), sorted(old), case['req'])))
        return repr(sorted(keys)), vs, 1


def _option_histories():
    from mc.checks import C12

    class OptionHistories(C12.OptionHistories):
        prefix = 'C03'
    return OptionHistories()

FAMILIES = [Sequences(), Names(), Parts(), ReservedKeys(), TableOrders(), LineEnds(), ForwardChains(), NestedRuns(), SharedNames(), MetTwice(), _option_histories()]
