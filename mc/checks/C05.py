"""C05 - types, constraints and default values survive compilation exactly.

Families
  refinements  every built-in / application type word x every refinement the grammar allows for it (range lists,
               SIZE lists, enumerations, BITS) with literals of every class, placed inline in an OBJECT-TYPE, in a
               type assignment and in a TEXTUAL-CONVENTION; JSON and pysnmp
  defaults     every DEFVAL notation x every base type it is legal for, with the type given inline, through a chain
               of 1..3 derived types (plain assignments and TCs, refinement at any link) and through an import
Oracle: JSON syntax.type = the parent type as written; constraints equal in order and value (integers denoted by
the literals); enumeration / bit maps equal; the default *denotes* the written value under the base type the
reference resolves (int / octets / bit set / OID); pysnmp: parent class, constraint objects, named values and
default* attribute of the executed class, same denotation.
"""
import ast
import itertools
import json

from mc import env, mibspec, pysnmp_rec, refir
from mc import core
from mc.catalogue import U32, U64, I64MIN

BOUNDS = {
    'quick': 'refinements: lists of <=2 items over a 32-item range alphabet (every ordered pair of 7 boundary points, literals of every class) x 3 placements x all type words; '
             'defaults: all notations x chain length 0..2 x local/imported',
    'thorough': 'refinements: lists of <=3 items; defaults: chain length 0..3, every refinement position',
}
ASSUMPTIONS = ['defaults are compared by denotation (int / octets / label set / OID), not by the string form chosen',
               'SNMPv2-SMI stand-in defines the application types as RFC 2578 does']

_PTS = [I64MIN, -10, -1, 0, 1, 10, U32 + 1]
RANGE_ALPHA = [(0,), (-1,), (U32 + 1,), ("'ff'H",), ("'00'H",)] + \
              [(a, b) for i, a in enumerate(_PTS) for b in _PTS[i + 1:]] + \
              [(0, U64), ("'0101'B", "'ffff'h"), ("'00'h", "'ff'H"), (-5, "'0'B"), (U32, U32 + 1), (0, 0)]
ENUMS = [[('up', 1)], [('up', 1), ('down', 2)], [('zero', 0), ('neg-one', -1), ('big', 2147483647)],
         [('c', 3), ('a', 1), ('b', 2)],
         # labels that are also keys of the intermediate representation
         [('oid', 1), ('description', 2), ('units', 3)], [('name', 1), ('class', 2), ('type', 3), ('default', 4)]]
BITSETS = [[('b0', 0)], [('b0', 0), ('b1', 1), ('b-9', 9)], [('hi', 7), ('lo', 0)], [('oid', 0), ('name', 1), ('bits', 2)]]

# type word -> refinement kinds the grammar accepts
ALLOWED = {
    'INTEGER': ['range', 'enum'], 'Integer32': ['range'], 'OCTET STRING': ['size'], 'OBJECT IDENTIFIER': [],
    'Unsigned32': ['range'], 'Counter32': ['range'], 'Gauge32': ['range'], 'Counter64': ['range'],
    'Opaque': ['size'], 'IpAddress': [], 'TimeTicks': [],
}
KIND_OF = dict((w, 'app' if w in ('Unsigned32', 'Counter32', 'Gauge32', 'Counter64', 'Opaque', 'IpAddress', 'TimeTicks')
                else 'simple') for w in ALLOWED)


def ctx():
    return [{'k': 'value', 'name': 'ctxRoot', 'oid': ['enterprises', 4242]}]


def obj(name, syn, i, defval=None):
    d = {'k': 'ot', 'name': name, 'syntax': syn, 'access': ('MAX-ACCESS', 'read-write'), 'status': 'current',
         'descr': 'd', 'oid': ['ctxRoot', i]}
    if defval is not None:
        d['defval'] = defval
    return d


def compile_both(mods, requested):
    """-> {backend: (status dict, written dict)}"""
    texts = dict((m['name'], mibspec.pretty([m])) for m in mods)
    out = {}
    for backend in ('json', 'pysnmp'):
        parser = env.shared_parser('smiV2')
        parser.reset()
        out[backend] = env.compile_set(texts, requested, codegen=backend, dialect=parser, source=_SOURCE[0])
    return texts, out


_SOURCE = ['memory']   # 'files' / 'zip': the texts go through the real FileReader / ZipReader (family defaults-from-files)


def exp_constraints(sub):
    if sub is None:
        return None
    kind, items = sub
    if kind in ('range', 'size'):
        return {kind: [{'min': refir.denote_int(r[0]), 'max': refir.denote_int(r[-1])} for r in items]}
    return {'enumeration': dict(items)}


def json_syntax_ok(got, syn):
    """Compare a JSON 'syntax' / 'type' record with the written syntax. -> list of complaints"""
    bad = []
    if syn[0] == 'bits':
        if got.get('type') != 'Bits' or got.get('bits') != dict(syn[1]):
            bad.append('bits %r vs written %r' % (got, syn[1]))
        return bad
    word = syn[1]
    if got.get('type') != refir.under(word):
        bad.append('parent type %r vs written %r' % (got.get('type'), word))
    want = exp_constraints(syn[2] if len(syn) > 2 else None)
    if (got.get('constraints') or None) != want:
        bad.append('constraints %r vs written %r' % (got.get('constraints'), want))
    return bad


def pysnmp_syntax_ok(cls, syn, parent_name=None, inherited=None):
    """cls: recorded class of the syntax.  Compare parent class, constraint pieces, named values.
    inherited: constraint pieces of the parent class, which a derived class carries in front of its own."""
    bad = []
    chain = cls.chain()
    if syn[0] == 'bits':
        parent = 'Bits'
    else:
        parent = parent_name or refir.PYSNMP_CLASS.get(syn[1], refir.under(syn[1]))
    if parent not in chain:
        bad.append('class chain %r lacks parent %r' % (chain, parent))
    sub = syn[2] if len(syn) > 2 and syn[0] != 'bits' else None
    pieces = pysnmp_rec.constraints_of(cls)
    if inherited:
        if pieces[:len(inherited)] != inherited:
            bad.append('constraints %r do not start with those of the parent type %r' % (pieces, inherited))
        pieces = pieces[len(inherited):]
    if syn[0] == 'bits':
        nv = pysnmp_rec.named_values_of(cls)
        if nv is None or dict(nv) != dict(syn[1]):
            bad.append('namedValues %r vs bits %r' % (nv, syn[1]))
    elif sub is None:
        if pieces:
            bad.append('unexpected constraints %r' % (pieces,))
    elif sub[0] in ('range', 'size'):
        cname = 'ValueRangeConstraint' if sub[0] == 'range' else 'ValueSizeConstraint'
        want = [('ConstraintsUnion',) + tuple((cname, refir.denote_int(r[0]), refir.denote_int(r[-1])) for r in sub[1])]
        if pieces != want:
            bad.append('constraints %r vs written %r' % (pieces, want))
    else:
        vals = sorted(n for _, n in sub[1])
        ok = (len(pieces) == 1 and pieces[0][0] == 'ConstraintsUnion' and len(pieces[0]) == 2 and
              pieces[0][1][0] == 'SingleValueConstraint' and sorted(pieces[0][1][1:]) == vals)
        if not ok:
            bad.append('constraints %r vs enumeration values %r' % (pieces, vals))
        nv = pysnmp_rec.named_values_of(cls)
        if nv is None or dict(nv) != dict(sub[1]) or len(nv) != len(sub[1]):
            bad.append('namedValues %r vs enumeration %r' % (nv, sub[1]))
    return bad


class Refinements(object):
    name = 'refinements'

    def named_bits(self, which):
        """An object whose SYNTAX narrows a named BITS type to some of its bits: NamedBits { b1(1) }."""
        full = [('b0', 0), ('b1', 1), ('b-9', 9)]
        subset = [[('b1', 1)], [('b0', 0), ('b-9', 9)], list(full)][which]
        decls = ctx() + [{'k': 'tc', 'name': 'NamedBits', 'display': None, 'status': 'current', 'descr': 'd', 'syntax': ('bits', full)},
                         obj('inlineObj', ('ref', 'NamedBits', ('enum', subset)), 1)]
        mod = refir.finish_module({'name': 'TEST-MIB', 'decls': decls})
        texts, out = compile_both([mod], ['TEST-MIB'])
        sig = 'C05|refine|NamedBits|bit-subset'
        vs = []
        res, written = out['json']
        if res.get('TEST-MIB') != 'compiled':
            vs.append(('%s|json|not-compiled' % sig, '%r\n%s' % (getattr(res.get('TEST-MIB'), 'error', None), texts['TEST-MIB'])))
        else:
            got = json.loads(written['TEST-MIB']).get('inlineObj', {}).get('syntax', {})
            pairs = got.get('bits') or (got.get('constraints') or {}).get('enumeration')   # the key layout is not the property's subject
            if got.get('type') != 'NamedBits' or pairs != dict(subset):
                vs.append(('%s|json|bits-differ' % sig, '%r vs written %r\n%s' % (got, subset, texts['TEST-MIB'])))
        res, written = out['pysnmp']
        if res.get('TEST-MIB') != 'compiled':
            vs.append(('%s|pysnmp|not-compiled' % sig, '%r\n%s' % (getattr(res.get('TEST-MIB'), 'error', None), texts['TEST-MIB'])))
        else:
            ns, err = pysnmp_rec.run_module(written['TEST-MIB'], pysnmp_rec.RecBuilder())
            o = ns.get('inlineObj') if ns else None
            cls = pysnmp_rec.syntax_of(o) if isinstance(o, pysnmp_rec.Node) else None
            if err or not isinstance(cls, type):
                vs.append(('%s|pysnmp|does-not-execute' % sig, '%r\n%s' % (err, texts['TEST-MIB'])))
            else:
                nv = pysnmp_rec.named_values_of(cls)
                if 'NamedBits' not in cls.chain() or nv is None or dict(nv) != dict(subset):
                    vs.append(('%s|pysnmp|named-bits-differ' % sig, 'chain %r namedValues %r vs %r' % (cls.chain(), nv, subset)))
                inh = pysnmp_rec.constraints_of(ns['NamedBits']) if isinstance(ns.get('NamedBits'), type) else []
                own = pysnmp_rec.constraints_of(cls)[len(inh):]
                if own:
                    vs.append(('%s|pysnmp|value-constraint-on-a-bit-string' % sig,
                               'a BITS value is an octet string: the bit POSITIONS %r were turned into a constraint on its value: %r\n%s' % (
                                   [n for _, n in subset], own, texts['TEST-MIB'])))
        return 'x', vs, 2
    describe = ('type word x refinement allowed by the grammar (range / SIZE lists of 1..3 alternatives over an 8-item '
                'alphabet with decimal, negative, 64-bit, hex and binary literals; 4 enumerations; 3 BITS lists; none) '
                'x placement (OBJECT-TYPE SYNTAX, type assignment, TEXTUAL-CONVENTION, refinement of a named type)')

    def blocks(self, tier):
        out = []
        for w in sorted(ALLOWED):
            for kind in ALLOWED[w] + ['none']:
                out.append({'w': w, 'r': kind})
        out.append({'w': 'BITS', 'r': 'bits'})
        out.append({'w': 'NamedInt', 'r': 'range'})
        out.append({'w': 'NamedInt', 'r': 'enum'})
        out.append({'w': 'NamedStr', 'r': 'size'})
        out.append({'w': 'NamedBits', 'r': 'bitsubset'})
        return out

    def subs(self, block, tier):
        r = block['r']
        n = 3 if tier == 'thorough' else 2
        if r == 'none':
            yield None
        elif r in ('range', 'size'):
            for ln in range(1, n + 1):
                for combo in itertools.product(range(len(RANGE_ALPHA)), repeat=ln):
                    yield [r, list(combo)]
        elif r == 'enum':
            for i in range(len(ENUMS)):
                yield ['enum', i]
        elif r == 'bits':
            for i in range(len(BITSETS)):
                yield ['bits', i]
        elif r == 'bitsubset':
            for i in range(3):
                yield ['bitsubset', i]

    def cases(self, block, tier):
        for sub in self.subs(block, tier):
            yield {'w': block['w'], 'sub': sub}

    def run_case(self, case):
        w, sub = case['w'], case['sub']
        if sub is None:
            rsub = None
        elif sub[0] in ('range', 'size'):
            rsub = (sub[0], [RANGE_ALPHA[i] for i in sub[1]])
        elif sub[0] == 'enum':
            rsub = ('enum', ENUMS[sub[1]])
        else:
            rsub = None
        decls = ctx()
        if w == 'NamedBits':
            return self.named_bits(sub[1])
        if w == 'BITS':
            syn = ('bits', BITSETS[sub[1]])
        elif w == 'NamedInt':
            decls.append({'k': 'type', 'name': 'NamedInt', 'syntax': ('simple', 'INTEGER')})
            syn = ('ref', 'NamedInt', rsub)
        elif w == 'NamedStr':
            decls.append({'k': 'tc', 'name': 'NamedStr', 'status': 'current', 'descr': 'd',
                          'syntax': ('simple', 'OCTET STRING')})
            syn = ('ref', 'NamedStr', rsub)
        else:
            syn = (KIND_OF[w], w, rsub) if rsub is not None else (KIND_OF[w], w)
        decls.append(obj('inlineObj', syn, 1))
        decls.append({'k': 'type', 'name': 'PlainType', 'syntax': syn})
        decls.append({'k': 'tc', 'name': 'ConvType', 'display': None, 'status': 'current', 'descr': 'd', 'syntax': syn})
        mod = refir.finish_module({'name': 'TEST-MIB', 'decls': decls})
        texts, out = compile_both([mod], ['TEST-MIB'])
        sig = 'C05|refine|%s|%s' % (w, sub[0] if sub else 'none')
        vs = []
        res, written = out['json']
        if res.get('TEST-MIB') != 'compiled':
            vs.append(('%s|json|not-compiled' % sig, '%s\n%r %r' % (texts['TEST-MIB'], res.get('TEST-MIB'),
                                                                   getattr(res.get('TEST-MIB'), 'error', None))))
            outcome = 'notcompiled'
        else:
            doc = json.loads(written['TEST-MIB'])
            for sym, key, cls in (('inlineObj', 'syntax', 'objecttype'), ('PlainType', 'type', 'type'),
                                  ('ConvType', 'type', 'textualconvention')):
                ent = doc.get(sym, {})
                if ent.get('class') != cls:
                    vs.append(('%s|json|%s|class' % (sig, sym), repr(ent)))
                for b in json_syntax_ok(ent.get(key) or {}, syn):
                    vs.append(('%s|json|%s|%s' % (sig, sym, b.split(' ')[0]), '%s: %s\n%s' % (sym, b, texts['TEST-MIB'])))
            outcome = json.dumps([doc.get(s, {}).get(k) for s, k in (('inlineObj', 'syntax'), ('PlainType', 'type'))],
                                 sort_keys=True)
        res, written = out['pysnmp']
        if res.get('TEST-MIB') != 'compiled':
            vs.append(('%s|pysnmp|not-compiled' % sig, '%s\n%r %r' % (texts['TEST-MIB'], res.get('TEST-MIB'),
                                                                     getattr(res.get('TEST-MIB'), 'error', None))))
        else:
            b = pysnmp_rec.RecBuilder()
            ns, err = pysnmp_rec.run_module(written['TEST-MIB'], b)
            if err:
                vs.append(('%s|pysnmp|does-not-execute|%s' % (sig, err.split(':')[0]), '%s\n%s' % (err, texts['TEST-MIB'])))
            else:
                o = ns.get('inlineObj')
                classes = [('inlineObj', pysnmp_rec.syntax_of(o) if isinstance(o, pysnmp_rec.Node) else None),
                           ('PlainType', ns.get('PlainType')), ('ConvType', ns.get('ConvType'))]
                for sym, cls in classes:
                    if not isinstance(cls, type) or not issubclass(cls, pysnmp_rec.Asn1Type):
                        vs.append(('%s|pysnmp|%s|no-class' % (sig, sym), '%r\n%s' % (cls, texts['TEST-MIB'])))
                        continue
                    for bad in pysnmp_syntax_ok(cls, syn):
                        vs.append(('%s|pysnmp|%s|%s' % (sig, sym, bad.split(' ')[0]),
                                   '%s: %s\n%s' % (sym, bad, texts['TEST-MIB'])))
                    if sym == 'ConvType' and 'TextualConvention' not in [c.__name__ for c in cls.__mro__]:
                        vs.append(('%s|pysnmp|ConvType|not-a-textual-convention' % sig, repr(cls.__mro__)))
        return outcome, vs, 2


# --------------------------------------------------------------------------- defaults

# base descriptor: (label, built-in syntax, primitive)
BASES = [
    ('INTEGER', ('simple', 'INTEGER'), 'int'), ('Integer32', ('simple', 'Integer32'), 'int'),
    ('Unsigned32', ('app', 'Unsigned32'), 'int'), ('Gauge32', ('app', 'Gauge32'), 'int'),
    ('enumINTEGER', ('simple', 'INTEGER', ('enum', [('off', 0), ('on', 1), ('auto-mode', 5),
                                                       # labels that are also the names of an imported and of a local node
                                                       ('enterprises', 7), ('ctxRoot', 9)])), 'enum'),
    ('OCTETSTRING', ('simple', 'OCTET STRING'), 'octets'), ('sizedOCTETSTRING', ('simple', 'OCTET STRING', ('size', [(0, 8)])), 'octets'),
    ('Opaque', ('app', 'Opaque'), 'octets'), ('IpAddress', ('app', 'IpAddress'), 'octets'),
    ('OID', ('simple', 'OBJECT IDENTIFIER'), 'oid'),
    ('BITS', ('bits', [('flagA', 0), ('flagB', 1), ('flag-c', 10)]), 'bits'),
]
DEFVALS = {
    'int': [('num', 0), ('num', 5), ('num', -3), ('num', U32 + 1), ('lit', "'ff'H"), ('lit', "'0a'h"), ('lit', "'0101'B"),
            ('lit', "'00'H")],
    'enum': [('id', 'on'), ('id', 'off'), ('id', 'auto-mode'), ('num', 1), ('num', 0), ('id', 'enterprises'), ('id', 'ctxRoot')],
    'octets': [('str', 'abc'), ('str', ''), ('str', 'two words'), ('str', 'C:\\temp\\new'), ('str', 'two\nlines'),
               ('str', 'trailing\\'), ('str', "apos'trophe"), ('str', 'caf\u00e9'), ('str', 'first\r\nsecond'), ('str', 'bare\rcr'), ('lit', "'ff00'H"), ('lit', "''H"), ('lit', "'0a0B'h"),
               ('lit', "'0000000100000001'B"), ('lit', "'11111111'B"), ('lit', "''B")],
    'oid': [('id', 'ctxRoot', 'oid'), ('id', 'zeroDotZero', 'oid'), ('id', 'remoteNode', 'oid')],
    'bits': [('bits', ['flagA']), ('bits', ['flagB', 'flag-c']), ('bits', ['flag-c', 'flagA', 'flagB']), ('bits', [])],
}


def wrap_chain(base_syn, shape):
    """shape: list of link kinds from the object outwards: 'T' plain type assignment, 'C' textual convention,
    'I' plain type assignment living in the other module.  -> (object syntax, local decls, remote decls)"""
    local, remote = [], []
    syn = base_syn
    for depth, link in enumerate(reversed(shape)):
        name = 'Chain%s%d' % (link, depth)
        d = {'k': 'tc', 'name': name, 'display': None, 'status': 'current', 'descr': 'd', 'syntax': syn} if link == 'C' \
            else {'k': 'type', 'name': name, 'syntax': syn}
        (remote if link == 'I' else local).append(d)
        syn = ('ref', name)
    return syn, local, remote


def expected_denotation(uni, modname, syn, dv):
    prim = uni.primitive(modname, syn)
    kind = dv[0]
    if kind == 'num':
        return ('int', dv[1])
    if kind == 'lit':
        body, radix = dv[1][1:-2], dv[1][-1].lower()
        if prim == 'int':
            return ('int', int(body, 16 if radix == 'h' else 2) if body else 0)
        if radix == 'h':
            return ('octets', bytes.fromhex(body if len(body) % 2 == 0 else '0' + body))
        nbytes = (len(body) + 7) // 8
        return ('octets', int(body, 2).to_bytes(nbytes, 'big') if body else b'')
    if kind == 'str':
        return ('octets', dv[1].encode('utf-8'))
    if kind == 'bits':
        en = dict(uni.effective_enum(modname, syn))
        return ('bits', frozenset((refir_name(n), en[n]) for n in dv[1]))
    if kind == 'id':
        if prim == 'oid':
            return ('oid', uni.oid_of_name(modname, dv[1]))
        en = dict(uni.effective_enum(modname, syn))
        return ('int', en[dv[1]])
    raise ValueError(dv)


def refir_name(n):
    return n


def json_denotation(entry, uni, modname, syn):
    d = entry.get('default')
    if not d:
        return None
    d = d.get('default', d)  # tolerate either nesting: the property fixes the value, not the key layout
    fmt, val = d.get('format'), d.get('value')
    try:
        if fmt == 'decimal':
            return ('int', int(val))
        if fmt in ('hex', 'bin'):
            prim = uni.primitive(modname, syn)
            if prim in ('int',):
                # a value labelled hex holds hex digits (decimal digits under that label read as another number)
                return ('int', int(val, 16 if fmt == 'hex' else 2))
            return ('octets', bytes.fromhex(val))
        if fmt == 'string':
            return ('octets', val.encode('utf-8'))
        if fmt == 'enum':
            en = dict(uni.effective_enum(modname, syn))
            return ('int', en[val])
        if fmt == 'bits':
            return ('bits', frozenset(val['bits'].items()))
        if fmt == 'oid':
            t = ast.literal_eval(val) if val.strip().startswith('(') else tuple(int(x) for x in val.split('.'))
            return ('oid', tuple(t))
    except Exception as exc:
        return ('undecodable', '%s: %r (%s)' % (fmt, val, exc))
    return ('undecodable', repr(d))


def pysnmp_denotation(cls, prim, enum):
    """Denotation of the default* attribute found on the executed syntax class (searching helper classes only)."""
    found = {}
    for c in cls.__mro__:
        if c.__dict__.get('_builtin'):
            break
        for attr in ('defaultValue', 'defaultHexValue', 'defaultBinValue'):
            if attr in c.__dict__ and attr not in found:
                found[attr] = c.__dict__[attr]
    if not found:
        return None
    if len(found) > 1:
        return ('undecodable', repr(found))
    attr, val = list(found.items())[0]
    try:
        if isinstance(val, pysnmp_rec.Asn1Type):
            # pyasn1 keeps a class-level default as the payload: with a value OBJECT there, str(), prettyPrint() and
            # comparisons of the resulting object raise AttributeError (checked against pyasn1 0.6)
            return ('undecodable', 'default given as a value object: %r' % (val,))
        if prim in ('int', 'enum'):
            if isinstance(val, str):
                # pyasn1 takes a class-level defaultValue as it is: a label would stay a string that can be neither compared
                # nor encoded (checked against pyasn1 0.6: int(obj) raises ValueError)
                return ('undecodable', 'integer default given as the string %r' % val)
            if attr != 'defaultValue':
                # pyasn1's Integer knows neither defaultHexValue nor defaultBinValue: the default would be lost on loading
                return ('undecodable', 'integer default given as %s' % attr)
            return ('int', int(val))
        if prim == 'octets':
            if attr == 'defaultHexValue':
                return ('octets', bytes.fromhex(val))
            if attr == 'defaultBinValue':
                return ('octets', int(val, 2).to_bytes((len(val) + 7) // 8, 'big') if val else b'')
            return ('octets', val.encode('utf-8') if isinstance(val, str) else bytes(val))
        if prim == 'oid':
            if isinstance(val, str):
                # a class attribute that is a STRING is taken character by character by pyasn1: not an OID value
                return ('undecodable', 'OID default given as the string %r' % val)
            return ('oid', tuple(val))
        if prim == 'bits':
            en = enum or {}
            return ('bits', frozenset((n, en.get(n)) for n in val))
    except Exception as exc:
        return ('undecodable', '%s=%r (%s)' % (attr, val, exc))
    return ('undecodable', '%s=%r' % (attr, val))


class Defaults(object):
    name = 'defaults'
    describe = ('base type (INTEGER, Integer32, Unsigned32, Gauge32, enumerated INTEGER, OCTET STRING plain/sized, Opaque, '
                'IpAddress, OBJECT IDENTIFIER, BITS) x every DEFVAL notation legal for it (decimal incl. 0 / negative / '
                '>32 bit, hex, binary, string incl. empty, enum label, OID label local / base / imported, bit list incl. '
                'empty) x type chain shape (inline; every sequence of <=2 (3) links over plain assignment, TC, assignment '
                'in an imported module)')

    def shapes(self, tier):
        n = 3 if tier == 'thorough' else 2
        out = [[]]
        for ln in range(1, n + 1):
            for s in itertools.product('TCI', repeat=ln):
                # well-formed chains only: a TEXTUAL-CONVENTION is not derived from another TC (RFC 2579 3.5) and the
                # imported module does not import types back (links in the other module are nearest to the base type)
                s = ''.join(s)
                if s.count('C') <= 1 and 'I' not in s.rstrip('I'):
                    out.append(list(s))
        return out

    def blocks(self, tier):
        return [{'b': i} for i in range(len(BASES))]

    def cases(self, block, tier):
        label, syn, prim = BASES[block['b']]
        for shape in self.shapes(tier):
            for di in range(len(DEFVALS[prim])):
                yield {'b': block['b'], 'shape': shape, 'dv': di}

    def run_case(self, case):
        label, base_syn, prim = BASES[case['b']]
        dv = DEFVALS[prim][case['dv']]
        syn, local, remote = wrap_chain(base_syn, case['shape'])
        rmod = {'name': 'REMOTE-MIB', 'decls': [{'k': 'value', 'name': 'remoteNode', 'oid': ['enterprises', 777]}] + remote}
        lmod = {'name': 'TEST-MIB', 'decls': ctx() + local + [obj('dvObj', syn, 1, defval=dv)]}
        mods = [refir.finish_module(rmod, [rmod, lmod])]
        mods.append(refir.finish_module(lmod, [rmod, lmod]))
        if not any(frm == 'REMOTE-MIB' for frm, _ in mods[1].get('imports') or []):
            mods = [mods[1]]
        uni = refir.Universe(mods)
        texts, out = compile_both(mods, ['TEST-MIB'])
        notation = dv[0] if dv[0] != 'lit' else ('hex' if dv[1][-1] in 'hH' else 'bin')
        if dv[0] == 'num':
            notation = 'num0' if dv[1] == 0 else 'num'
        if dv[0] in ('str', 'lit', 'bits') and not (dv[1] if dv[0] != 'lit' else dv[1][1:-2]):
            notation += '-empty'
        sig = 'C05|defval|%s|%s|chain=%s' % (label, notation, ''.join(case['shape']) or 'inline')
        want = expected_denotation(uni, 'TEST-MIB', syn, dv)
        if want == ('bits', frozenset()):
            want = None  # DEFVAL { { } }: the grammar's empty BitsValue carries no value (DESIGN.md A.1)
        enum = uni.effective_enum('TEST-MIB', syn)
        vs = []
        outcome = []
        alltext = '\n'.join(texts[m] for m in sorted(texts))
        res, written = out['json']
        if res.get('TEST-MIB') != 'compiled':
            vs.append(('%s|json|not-compiled' % sig, '%s\n%r %r' % (alltext, res.get('TEST-MIB'),
                                                                   getattr(res.get('TEST-MIB'), 'error', None))))
        else:
            doc = json.loads(written['TEST-MIB'])
            got = json_denotation(doc.get('dvObj', {}), uni, 'TEST-MIB', syn)
            outcome.append(repr(doc.get('dvObj', {}).get('default')))
            if got != want:
                vs.append(('%s|json|default-%s' % (sig, 'missing' if got is None else 'differs'),
                           'DEFVAL %r denotes %r, document default %r denotes %r\n%s' % (
                               dv, want, doc.get('dvObj', {}).get('default'), got, alltext)))
        res, written = out['pysnmp']
        if res.get('TEST-MIB') != 'compiled':
            vs.append(('%s|pysnmp|not-compiled' % sig, '%s\n%r %r' % (alltext, res.get('TEST-MIB'),
                                                                     getattr(res.get('TEST-MIB'), 'error', None))))
        else:
            b = pysnmp_rec.RecBuilder()
            err = None
            if 'REMOTE-MIB' in written:
                _, err = pysnmp_rec.run_module(written['REMOTE-MIB'], b)
            ns = None
            if not err:
                ns, err = pysnmp_rec.run_module(written['TEST-MIB'], b)
            o = ns.get('dvObj') if ns else None
            scls = pysnmp_rec.syntax_of(o) if isinstance(o, pysnmp_rec.Node) else None
            if err or not isinstance(scls, type) or not issubclass(scls, pysnmp_rec.Asn1Type):
                vs.append(('%s|pysnmp|does-not-execute|%s' % (sig, (err or 'no syntax class').split(':')[0]),
                           '%s\n%s' % (err, alltext)))
            else:
                cls = pysnmp_rec.syntax_of(o)
                got = pysnmp_denotation(cls, prim, dict(enum) if enum else None)
                outcome.append(repr(got))
                if got != want:
                    vs.append(('%s|pysnmp|default-%s' % (sig, 'missing' if got is None else 'differs'),
                               'DEFVAL %r denotes %r, executed class %r gives %r\n%s' % (dv, want, cls.chain(), got, alltext)))
        return repr(outcome), vs, 2


class RefinedChains(object):
    name = 'refined-chains-orders'
    describe = ('Base <- Mid <- object, EVERY link with its own refinement (enumeration subsets / narrowing ranges / SIZEs), Base and '
                'Mid each a plain assignment or a TC, the object with and without a DEFVAL and with / without its own refinement: '
                'every declaration order of (object, Mid, Base, second object of type Mid); every emitted type keeps exactly its '
                'own refinement')

    VARIANTS = {
        'enum': (('simple', 'INTEGER'), ('enum', [('a', 1), ('b', 2), ('c', 3)]), ('enum', [('a', 1), ('b', 2)]), ('enum', [('a', 1)]),
                 ('id', 'a')),
        'range': (('simple', 'INTEGER'), ('range', [(0, 100), (200, 300)]), ('range', [(0, 10)]), ('range', [(2, 5)]), ('num', 5)),
        'size': (('simple', 'OCTET STRING'), ('size', [(0, 100)]), ('size', [(0, 10)]), ('size', [(1, 4)]), ('str', 'abc')),
    }

    def blocks(self, tier):
        return [{'v': v, 'kinds': k} for v in sorted(self.VARIANTS) for k in ('TT', 'TC', 'CT')]

    def cases(self, block, tier):
        for perm in itertools.permutations(range(4)):
            for dv in (0, 1):
                for own in (0, 1):
                    yield {'v': block['v'], 'kinds': block['kinds'], 'perm': list(perm), 'dv': dv, 'own': own}
            # the same with names whose alphabetical order is the reverse of the derivation order
            yield {'v': block['v'], 'kinds': block['kinds'], 'perm': list(perm), 'dv': 1, 'own': 1, 'zeta': 1}

    def run_case(self, case):
        base, r0, r1, r2, dv = self.VARIANTS[case['v']]
        BASE, MID = ('ZetaBase', 'AlphaMid') if case.get('zeta') else ('BaseType', 'MidType')
        syn_base = base + (r0,)
        syn_mid = ('ref', BASE, r1)
        syn_obj = ('ref', MID, r2) if case['own'] else ('ref', MID)

        def td(name, kind, syn):
            if kind == 'C':
                return {'k': 'tc', 'name': name, 'display': None, 'status': 'current', 'descr': 'd', 'syntax': syn}
            return {'k': 'type', 'name': name, 'syntax': syn}
        items = [obj('dvObj', syn_obj, 1, defval=dv if case['dv'] else None), td(MID, case['kinds'][1], syn_mid),
                 td(BASE, case['kinds'][0], syn_base), obj('otherObj', ('ref', MID), 2)]
        decls = ctx() + [items[i] for i in case['perm']]
        mod = refir.finish_module({'name': 'TEST-MIB', 'decls': decls})
        texts, out = compile_both([mod], ['TEST-MIB'])
        first = ['obj', 'mid', 'base', 'other'][case['perm'][0]]
        sig = 'C05|refined-chain|%s|%s|%s-first%s' % (case['v'], case['kinds'], first, '|defval' if case['dv'] else '')
        vs = []
        want_syn = {MID: syn_mid, BASE: syn_base}
        res, written = out['json']
        src = texts['TEST-MIB']
        if res.get('TEST-MIB') != 'compiled':
            return 'notcompiled', [('%s|json|not-compiled' % sig, '%s\n%r %r' % (src, res.get('TEST-MIB'),
                                                                                  getattr(res.get('TEST-MIB'), 'error', None)))], 2
        doc = json.loads(written['TEST-MIB'])
        for sym, syn in sorted(want_syn.items()):
            for b in json_syntax_ok(doc.get(sym, {}).get('type') or {}, syn):
                vs.append(('%s|json|%s|%s' % (sig, sym, b.split(' ')[0]), '%s: %s\n%s' % (sym, b, src)))
        for sym, syn in (('dvObj', syn_obj), ('otherObj', ('ref', MID))):
            for b in json_syntax_ok(doc.get(sym, {}).get('syntax') or {}, syn):
                vs.append(('%s|json|%s|%s' % (sig, sym, b.split(' ')[0]), '%s: %s\n%s' % (sym, b, src)))
        uni = refir.Universe([mod])
        if case['dv']:
            want = expected_denotation(uni, 'TEST-MIB', syn_obj, dv)
            got = json_denotation(doc.get('dvObj', {}), uni, 'TEST-MIB', syn_obj)
            if got != want:
                vs.append(('%s|json|default-%s' % (sig, 'missing' if got is None else 'differs'),
                           'DEFVAL %r denotes %r, document %r\n%s' % (dv, want, doc.get('dvObj', {}).get('default'), src)))
        elif doc.get('dvObj', {}).get('default'):
            vs.append(('%s|json|default-invented' % sig, '%r\n%s' % (doc['dvObj']['default'], src)))
        res, written = out['pysnmp']
        if res.get('TEST-MIB') != 'compiled':
            vs.append(('%s|pysnmp|not-compiled' % sig, '%s\n%r %r' % (src, res.get('TEST-MIB'), getattr(res.get('TEST-MIB'), 'error', None))))
            return 'notcompiled', vs, 2
        ns, err = pysnmp_rec.run_module(written['TEST-MIB'], pysnmp_rec.RecBuilder())
        if err:
            if True:
                vs.append(('%s|pysnmp|does-not-execute|%s' % (sig, err.split(':')[0]), '%s\n%s' % (err, src)))
            return 'noexec', vs, 2
        for sym, syn in sorted(want_syn.items()):
            cls = ns.get(sym)
            if not isinstance(cls, type) or not issubclass(cls, pysnmp_rec.Asn1Type):
                vs.append(('%s|pysnmp|%s|no-class' % (sig, sym), '%r\n%s' % (cls, src)))
                continue
            inh = pysnmp_rec.constraints_of(ns[BASE]) if sym == MID and isinstance(ns.get(BASE), type) else None
            for bad in pysnmp_syntax_ok(cls, syn, parent_name=None if sym == BASE else BASE, inherited=inh):
                vs.append(('%s|pysnmp|%s|%s' % (sig, sym, bad.split(' ')[0]), '%s: %s\n%s' % (sym, bad, src)))
        return 'ok', vs, 2


class ShoutedNames(object):
    name = 'types-named-like-base-types-in-capitals'
    describe = ('a user type whose name is the upper-case spelling of an SMI base type (TIMETICKS, COUNTER32 ... - ordinary '
                'identifiers: only the mixed-case words are reserved), used by an object: the object keeps ITS type')
    NAMES = ['TIMETICKS', 'COUNTER32', 'GAUGE32', 'UNSIGNED32', 'INTEGER32', 'IPADDRESS', 'OPAQUE', 'COUNTER64', 'NETWORKADDRESS']

    def blocks(self, tier):
        return [{}]

    def cases(self, block, tier):
        for n in self.NAMES:
            for tc in (0, 1):
                yield {'name': n, 'tc': tc}

    def run_case(self, case):
        n = case['name']
        syn = ('simple', 'INTEGER', ('range', [(0, 100)]))
        td = {'k': 'tc', 'name': n, 'display': None, 'status': 'current', 'descr': 'd', 'syntax': syn} if case['tc'] \
            else {'k': 'type', 'name': n, 'syntax': syn}
        mod = refir.finish_module({'name': 'TEST-MIB', 'decls': ctx() + [td, obj('userObj', ('ref', n), 1)]})
        texts, out = compile_both([mod], ['TEST-MIB'])
        sig = 'C05|shouted-type-name|%s' % n
        vs = []
        res, written = out['json']
        if res.get('TEST-MIB') != 'compiled':
            vs.append(('%s|json|not-compiled' % sig, '%r\n%s' % (getattr(res.get('TEST-MIB'), 'error', None), texts['TEST-MIB'])))
        else:
            got = json.loads(written['TEST-MIB']).get('userObj', {}).get('syntax', {})
            if got.get('type') != n:
                vs.append(('%s|json|parent-type' % sig, 'object syntax %r, written %s\n%s' % (got, n, texts['TEST-MIB'])))
        res, written = out['pysnmp']
        if res.get('TEST-MIB') != 'compiled':
            vs.append(('%s|pysnmp|not-compiled' % sig, '%r\n%s' % (getattr(res.get('TEST-MIB'), 'error', None), texts['TEST-MIB'])))
        else:
            ns, err = pysnmp_rec.run_module(written['TEST-MIB'], pysnmp_rec.RecBuilder())
            o = ns.get('userObj') if ns else None
            scls = pysnmp_rec.syntax_of(o) if isinstance(o, pysnmp_rec.Node) else None
            if err or not isinstance(scls, type) or n not in scls.chain():
                vs.append(('%s|pysnmp|parent-type' % sig, 'error %r, syntax class chain %r, written %s\n%s' % (
                    err, scls.chain() if isinstance(scls, type) and hasattr(scls, 'chain') else scls, n, texts['TEST-MIB'])))
        return 'x', vs, 2


class DefaultsFromFiles(object):
    name = 'defaults-from-files'
    describe = ('the string DEFVAL cases (incl. values spanning CR LF / bare CR line ends, tabs, non-ASCII) of the octet-string types, '
                'inline and through one derived type, with the module texts written to a directory / ZIP archive and read back by '
                'the real FileReader / ZipReader')

    def blocks(self, tier):
        return [{'b': i, 'source': src} for i, b in enumerate(BASES) if b[2] == 'octets' for src in ('files', 'zip')]

    def cases(self, block, tier):
        label, syn, prim = BASES[block['b']]
        for shape in ([], ['T'], ['C']):
            for di, dv in enumerate(DEFVALS[prim]):
                if dv[0] == 'str':
                    yield {'b': block['b'], 'shape': shape, 'dv': di, 'source': block['source']}

    def run_case(self, case):
        _SOURCE[0] = case['source']
        try:
            outcome, vs, steps = Defaults().run_case(case)
        finally:
            _SOURCE[0] = 'memory'
        return outcome, [(sig + '|read-from-' + case['source'], detail) for sig, detail in vs], steps


class SameNamedTypes(object):
    name = 'same-named-types'
    describe = ('TEST-MIB and REMOTE-MIB each define a type called Mode with DIFFERENT base types, each with an object of that type '
                'carrying a DEFVAL; TEST-MIB imports a node of REMOTE-MIB so that both are generated in one compile() call: every '
                'ordered pair of base types, plain assignment / TC, both request orders')

    def blocks(self, tier):
        return [{'a': i} for i in range(len(BASES))]

    def cases(self, block, tier):
        for b in range(len(BASES)):
            if b == block['a']:
                continue
            for tc in (0, 1):
                for ro in (0, 1):
                    yield {'a': block['a'], 'b': b, 'tc': tc, 'ro': ro}

    def run_case(self, case):
        def typedecl(syn):
            if case['tc']:
                return {'k': 'tc', 'name': 'Mode', 'display': None, 'status': 'current', 'descr': 'd', 'syntax': syn}
            return {'k': 'type', 'name': 'Mode', 'syntax': syn}
        la, sa, pa = BASES[case['a']]
        lb, sb, pb = BASES[case['b']]
        dva, dvb = DEFVALS[pa][0], DEFVALS[pb][0]
        rmod = {'name': 'REMOTE-MIB', 'decls': [{'k': 'value', 'name': 'remoteNode', 'oid': ['enterprises', 777]}, typedecl(sb),
                                                  obj('remoteObj', ('ref', 'Mode'), 1, defval=dvb)]}
        rmod['decls'][-1]['oid'] = ['remoteNode', 1]
        lmod = {'name': 'TEST-MIB', 'decls': ctx() + [typedecl(sa), obj('dvObj', ('ref', 'Mode'), 1, defval=dva),
                                                     {'k': 'value', 'name': 'underRemote', 'oid': ['remoteNode', 9]}]}
        mods = [refir.finish_module(rmod, [rmod, lmod]), refir.finish_module(lmod, [rmod, lmod])]
        uni = refir.Universe(mods)
        texts = dict((m['name'], mibspec.pretty([m])) for m in mods)
        req = ['TEST-MIB', 'REMOTE-MIB'] if case['ro'] else ['REMOTE-MIB', 'TEST-MIB']
        vs = []
        outcome = []
        sig = 'C05|same-named-types|%s-vs-%s' % (pa, pb)
        for backend in ('json', 'pysnmp'):
            if backend == 'pysnmp' and 'bits' in (pa, pb):
                continue  # K17: a BITS DEFVAL breaks the pysnmp back end on its own (and with it the whole call)
            parser = env.shared_parser('smiV2')
            parser.reset()
            res, written = env.compile_set(texts, req, codegen=backend, dialect=parser)
            for modname, objname, syn_, dv, prim in (('TEST-MIB', 'dvObj', sa, dva, pa), ('REMOTE-MIB', 'remoteObj', sb, dvb, pb)):
                if res.get(modname) != 'compiled':
                    if backend == 'pysnmp' and prim == 'bits':
                        continue  # K17: a BITS DEFVAL breaks the pysnmp back end on its own
                    vs.append(('%s|%s|not-compiled' % (sig, backend), '%s: %r %r\n%s' % (
                        modname, res.get(modname), getattr(res.get(modname), 'error', None), texts[modname])))
                    continue
                want = expected_denotation(uni, modname, ('ref', 'Mode'), dv)
                if backend == 'json':
                    doc = json.loads(written[modname])
                    got = json_denotation(doc.get(objname, {}), uni, modname, ('ref', 'Mode'))
                    outcome.append(repr(doc.get(objname, {}).get('default')))
                    if got != want:
                        vs.append(('%s|json|default-%s' % (sig, 'missing' if got is None else 'differs'),
                                   '%s.%s: DEFVAL %r denotes %r, document %r denotes %r\n%s' % (
                                       modname, objname, dv, want, doc.get(objname, {}).get('default'), got, texts[modname])))
        return repr(outcome), vs, 2


class ImportedNamesakes(object):
    name = 'imported-types-named-like-the-implicit-imports'
    describe = ('a vendor module (named ACME-TC: sorts before SNMPv2-*, or ZZZ-TC: after) defines its own DisplayString / TimeTicks / '
                'Counter32 / Gauge32 / Unsigned32 / Integer32 / IpAddress / Counter64 (an enumeration, or a shorter string); TEST-MIB '
                'imports that name from it, declares an object of the type with a DEFVAL that only the vendor type admits: the base '
                'type is resolved through the vendor module, whatever its name; both back ends')

    NAMES = ['DisplayString', 'TimeTicks', 'Counter32', 'Gauge32', 'Unsigned32', 'Integer32', 'IpAddress', 'Counter64']

    def blocks(self, tier):
        return [{'vendor': v} for v in ('ACME-TC', 'ZZZ-TC')]

    def cases(self, block, tier):
        for n in self.NAMES:
            for kind in ('enum', 'string'):
                yield {'vendor': block['vendor'], 'name': n, 'kind': kind}

    def run_case(self, case):
        vendor, name = case['vendor'], case['name']
        if case['kind'] == 'enum':
            tdef = '%s ::= INTEGER { slow(1), fast(2) }' % name
            defval, want = 'fast', ('int', 2)
        else:
            tdef = '%s ::= OCTET STRING (SIZE (0..8))' % name
            defval, want = '"abc"', ('octets', b'abc')
        vtext = '%s DEFINITIONS ::= BEGIN\n%s\nEND\n' % (vendor, tdef)
        ttext = ('TEST-MIB DEFINITIONS ::= BEGIN\nIMPORTS OBJECT-TYPE, enterprises FROM SNMPv2-SMI %s FROM %s;\n'
                 'o1 OBJECT-TYPE SYNTAX %s MAX-ACCESS read-write STATUS current DESCRIPTION "d" DEFVAL { %s } ::= { enterprises 99 }\n'
                 'END\n' % (name, vendor, name, defval))
        sig = 'C05|imported-namesake|%s|%s|%s' % (name, case['kind'], 'sorts-first' if vendor < 'SNMP' else 'sorts-last')
        vs = []
        for backend in ('json', 'pysnmp'):
            parser = env.shared_parser('smiV2')
            parser.reset()
            res, written = env.compile_set({vendor: vtext, 'TEST-MIB': ttext}, ['TEST-MIB'], codegen=backend, dialect=parser)
            if res.get('TEST-MIB') != 'compiled' or res.get(vendor) != 'compiled':
                vs.append(('%s|%s|not-compiled' % (sig, backend), '%r %r\n%s' % (
                    dict((k, str(v)) for k, v in res.items()), getattr(res.get('TEST-MIB'), 'error', None), ttext)))
                continue
            if backend == 'json':
                doc = json.loads(written['TEST-MIB'])
                d = (doc.get('o1', {}).get('default') or {}).get('default') or {}
                got = None
                if d.get('format') == 'enum':
                    got = ('int', d.get('number', {'slow': 1, 'fast': 2}.get(d.get('value'))))
                elif d.get('format') == 'string':
                    got = ('octets', d.get('value', '').encode())
                elif d.get('format') == 'decimal':
                    got = ('int', d.get('value'))
                if got != want:
                    vs.append(('%s|json|default-differs' % sig, 'DEFVAL { %s } denotes %r, document says %r\n%s' % (defval, want, d, ttext)))
                homes = [m for m, syms in doc.get('imports', {}).items() if isinstance(syms, list) and name in syms]
                if homes != [vendor]:
                    vs.append(('%s|json|name-imported-from-%s' % (sig, '+'.join(sorted(homes)) or 'nowhere'), repr(doc.get('imports'))))
            else:
                rb = pysnmp_rec.RecBuilder()
                nsv, err = pysnmp_rec.run_module(written[vendor], rb)
                ns, err2 = (None, None) if err else pysnmp_rec.run_module(written['TEST-MIB'], rb)
                if err or err2:
                    vs.append(('%s|pysnmp|does-not-execute|%s' % (sig, (err or err2).split(':')[0]), '%s\n%s' % (err or err2, ttext)))
                    continue
                bound = ns.get(name)
                if bound is not rb.exports.get(vendor, {}).get(name):
                    vs.append(('%s|pysnmp|name-bound-to-another-modules-type' % sig,
                               '%s is %r, the vendor module exports %r\n%s' % (name, bound, rb.exports.get(vendor, {}).get(name), ttext)))
        return 'ok' if not vs else 'bad', vs, 2


class OddRefinementsWithDefaults(object):
    name = 'refinements-of-another-kind-than-the-type'
    describe = ('an object narrowing a named ENUMERATED type by a range, or a named ranged type by nothing, with a DEFVAL label / '
                'number: both back ends compile, the default is the declared number, the pysnmp module executes')

    CASES = {'enum-narrowed-by-range': ('MyEnum ::= INTEGER { a(1), b(2), c(3) }', 'MyEnum (1..2)', 'a', 1),
             'enum-narrowed-by-range-second-label': ('MyEnum ::= INTEGER { a(1), b(2), c(3) }', 'MyEnum (1..2)', 'b', 2),
             'enum-inherited-whole': ('MyEnum ::= INTEGER { a(1), b(2), c(3) }', 'MyEnum', 'c', 3),
             'enum-narrowed-by-enum': ('MyEnum ::= INTEGER { a(1), b(2), c(3) }', 'MyEnum { b(2), c(3) }', 'c', 3)}

    def blocks(self, tier):
        return [{}]

    def cases(self, block, tier):
        for k in sorted(self.CASES):
            yield {'k': k}

    def run_case(self, case):
        tdef, syn, label, number = self.CASES[case['k']]
        text = ('TEST-MIB DEFINITIONS ::= BEGIN\nIMPORTS OBJECT-TYPE, enterprises FROM SNMPv2-SMI;\n%s\n'
                'o1 OBJECT-TYPE SYNTAX %s MAX-ACCESS read-write STATUS current DESCRIPTION "d" DEFVAL { %s } ::= { enterprises 99 }\n'
                'END\n' % (tdef, syn, label))
        sig = 'C05|odd-refinement|%s' % case['k']
        vs = []
        for backend in ('json', 'pysnmp'):
            parser = env.shared_parser('smiV2')
            parser.reset()
            res, written = env.compile_set({'TEST-MIB': text}, ['TEST-MIB'], codegen=backend, dialect=parser)
            if res.get('TEST-MIB') != 'compiled':
                vs.append(('%s|%s|not-compiled' % (sig, backend), '%r\n%s' % (getattr(res.get('TEST-MIB'), 'error', None), text)))
                continue
            if backend == 'json':
                d = (json.loads(written['TEST-MIB']).get('o1', {}).get('default') or {}).get('default') or {}
                if d.get('value') != label or d.get('number', number) != number:
                    vs.append(('%s|json|default-differs' % sig, repr(d)))
            else:
                ns, err = pysnmp_rec.run_module(written['TEST-MIB'], pysnmp_rec.RecBuilder())
                if err:
                    vs.append(('%s|pysnmp|does-not-execute|%s' % (sig, err.split(':')[0]), err))
                elif 'defaultValue = %d' % number not in written['TEST-MIB']:
                    vs.append(('%s|pysnmp|default-differs' % sig, [ln for ln in written['TEST-MIB'].splitlines() if 'default' in ln.lower()][:4]))
        return 'ok' if not vs else 'bad', vs, 2


class LongChains(object):
    name = 'very-long-chains'
    describe = ('a chain of 1500 type assignments ending in an enumeration with a DEFVAL { label } on an object at its end, and an '
                'object below a chain of 1500 OID parents: both compile (chains of any length), default and OID as declared')

    def blocks(self, tier):
        return [{'what': w} for w in ('types', 'parents')]

    def cases(self, block, tier):
        for backend in ('json', 'pysnmp'):
            yield {'what': block['what'], 'backend': backend, 'n': 1500}

    def run_case(self, case):
        n = case['n']
        if case['what'] == 'types':
            body = 'T0 ::= INTEGER { a(1), b(2) }\n' + ''.join('T%d ::= T%d\n' % (i, i - 1) for i in range(1, n)) + \
                'o1 OBJECT-TYPE SYNTAX T%d MAX-ACCESS read-write STATUS current DESCRIPTION "d" DEFVAL { b } ::= { enterprises 99 }\n' % (n - 1)
        else:
            body = 'n0 OBJECT IDENTIFIER ::= { enterprises 99 }\n' + ''.join('n%d OBJECT IDENTIFIER ::= { n%d 1 }\n' % (i, i - 1) for i in range(1, n)) + \
                'o1 OBJECT-TYPE SYNTAX INTEGER MAX-ACCESS read-write STATUS current DESCRIPTION "d" ::= { n%d 5 }\n' % (n - 1)
        text = 'TEST-MIB DEFINITIONS ::= BEGIN\nIMPORTS OBJECT-TYPE, enterprises FROM SNMPv2-SMI;\n' + body + 'END\n'
        sig = 'C05|long-chain|%s|%s' % (case['what'], case['backend'])
        parser = env.shared_parser('smiV2')
        parser.reset()
        try:
            res, written = env.compile_set({'TEST-MIB': text}, ['TEST-MIB'], codegen=case['backend'], dialect=parser)
        except BaseException as exc:
            if isinstance(exc, (KeyboardInterrupt, core.CaseTimeout)):
                raise
            return 'escaped', [('%s|exception-escapes-compile|%s' % (sig, type(exc).__name__), 'chain of %d' % n)], 1
        if res.get('TEST-MIB') != 'compiled':
            return 'failed', [('%s|not-compiled' % sig, 'chain of %d: %r' % (n, getattr(res.get('TEST-MIB'), 'error', None)))], 1
        vs = []
        if case['backend'] == 'json':
            doc = json.loads(written['TEST-MIB'])
            if case['what'] == 'types':
                d = (doc.get('o1', {}).get('default') or {}).get('default') or {}
                if d.get('value') != 'b' or d.get('number', 2) != 2:
                    vs.append(('%s|default-differs' % sig, repr(d)))
            else:
                want = '1.3.6.1.4.1.99' + '.1' * (n - 1) + '.5'
                if doc.get('o1', {}).get('oid') != want:
                    vs.append(('%s|oid-differs' % sig, '%r' % doc.get('o1', {}).get('oid')[:80]))
        return 'ok', vs, 1


class AfterAFailedModule(object):
    name = 'defaults-after-a-module-that-failed'
    describe = ('ONE compiler: OLD-MIB imports a node and an enumerated type from REMOTE-MIB and fails in code generation (a BITS DEFVAL '
                'naming no bit, a range bound that is no number, an unknown DEFVAL label of an imported type); NEW-MIB declares a node '
                'and a type of those very names and uses them in DEFVALs.  OLD in an earlier call, or before / after NEW in one call '
                'with errors ignored; both back ends: the defaults of NEW-MIB are those of its own declarations, and the text written '
                'is the one a fresh compiler writes')

    FAIL = {'bits-label': 'oldFlags OBJECT-TYPE SYNTAX BITS { eco(0), silent(1) } MAX-ACCESS read-write STATUS current DESCRIPTION "d" '
                          'DEFVAL { { turbo } } ::= { remoteNode 1 }\n',
            'range-bound': "OldRange ::= INTEGER (''H..'ff'H)\noldNode OBJECT IDENTIFIER ::= { remoteNode 2 }\n",
            'enum-label': 'oldKind OBJECT-TYPE SYNTAX RemoteType MAX-ACCESS read-write STATUS current DESCRIPTION "d" '
                          'DEFVAL { nowhere } ::= { remoteNode 3 }\n'}
    REMOTE = ('REMOTE-MIB DEFINITIONS ::= BEGIN\nIMPORTS enterprises FROM SNMPv2-SMI;\nremoteNode OBJECT IDENTIFIER ::= { enterprises 777 }\n'
              'RemoteType ::= INTEGER { a(1), y(2) }\nEND\n')
    NEW = ('NEW-MIB DEFINITIONS ::= BEGIN\nIMPORTS OBJECT-TYPE, enterprises FROM SNMPv2-SMI;\n'
           'newRoot OBJECT IDENTIFIER ::= { enterprises 4242 }\nremoteNode OBJECT IDENTIFIER ::= { newRoot 7 }\n'
           'RemoteType ::= INTEGER { x(5), y(6) }\n'
           'newOid OBJECT-TYPE SYNTAX OBJECT IDENTIFIER MAX-ACCESS read-write STATUS current DESCRIPTION "d" DEFVAL { remoteNode } ::= { newRoot 1 }\n'
           'newKind OBJECT-TYPE SYNTAX RemoteType MAX-ACCESS read-write STATUS current DESCRIPTION "d" DEFVAL { y } ::= { newRoot 2 }\n'
           'END\n')

    def blocks(self, tier):
        return [{'backend': b} for b in ('json', 'pysnmp')]

    def cases(self, block, tier):
        for f in sorted(self.FAIL):
            for how in ('earlier-call', 'same-call-old-first', 'same-call-old-last', 'earlier-call-alone'):
                yield {'backend': block['backend'], 'fail': f, 'how': how}

    def texts(self, case):
        old = ('OLD-MIB DEFINITIONS ::= BEGIN\nIMPORTS OBJECT-TYPE FROM SNMPv2-SMI remoteNode, RemoteType FROM REMOTE-MIB;\n'
               + self.FAIL[case['fail']] + 'END\n')
        t = env.base_texts()
        t.update({'REMOTE-MIB': self.REMOTE, 'OLD-MIB': old, 'NEW-MIB': self.NEW})
        return t

    def compiler(self, case):
        w = env.CaptureWriter()
        parser = env.shared_parser('smiV2')
        parser.reset()
        comp = env.MibCompiler(parser, env.make_codegen(case['backend']), w)
        comp.addSources(env.DictReader(self.texts(case)))
        comp.addSearchers(env.StubSearcher(*env.BASE_NAMES))
        return comp, w

    def run_case(self, case):
        from mc.checks import C12
        sig = 'C05|after-a-failed-module|%s|%s|%s' % (case['fail'], case['how'], case['backend'])
        comp, w = self.compiler(case)
        fresh = comp.compile('NEW-MIB')
        want = dict((n, d) for n, d, _ in w.written).get('NEW-MIB')
        if fresh.get('NEW-MIB') != 'compiled' or want is None:
            raise core.InternalError('NEW-MIB does not compile on a fresh compiler: %r' % (getattr(fresh.get('NEW-MIB'), 'error', None),))
        comp, w = self.compiler(case)
        vs = []
        if case['how'] == 'earlier-call':
            first = comp.compile('REMOTE-MIB', 'OLD-MIB', ignoreErrors=True)
            del w.written[:]
            res = comp.compile('NEW-MIB')
        elif case['how'] == 'earlier-call-alone':
            first = comp.compile('OLD-MIB', ignoreErrors=True)
            del w.written[:]
            res = comp.compile('NEW-MIB')
        elif case['how'] == 'same-call-old-first':
            first = res = comp.compile('OLD-MIB', 'NEW-MIB', ignoreErrors=True)
        else:
            first = res = comp.compile('NEW-MIB', 'OLD-MIB', ignoreErrors=True)
        if first.get('OLD-MIB') != 'failed':
            return 'old-module-%s' % first.get('OLD-MIB'), [], 3   # (not every defect stops every back end: nothing to learn here)
        got = dict((n, d) for n, d, _ in w.written).get('NEW-MIB')
        if res.get('NEW-MIB') != 'compiled' or got is None:
            vs.append(('%s|not-compiled' % sig, '%r %r' % (res.get('NEW-MIB'), getattr(res.get('NEW-MIB'), 'error', None))))
        elif C12.mask(got) != C12.mask(want):
            a, b = C12.mask(want).splitlines(), C12.mask(got).splitlines()
            diff = [(x, y) for x, y in zip(a, b) if x != y][:4]
            vs.append(('%s|text-differs-from-a-fresh-compiler' % sig, 'first differing lines (fresh, long-lived): %r' % diff))
        if got is not None and case['backend'] == 'json':
            doc = json.loads(got)
            d1 = (doc.get('newOid', {}).get('default') or {}).get('default') or {}
            d2 = (doc.get('newKind', {}).get('default') or {}).get('default') or {}
            if str(d1.get('value')).replace(' ', '') not in ('(1,3,6,1,4,1,4242,7)', '1.3.6.1.4.1.4242.7'):
                vs.append(('%s|oid-default-differs' % sig, 'DEFVAL { remoteNode } of NEW-MIB: %r' % (d1,)))
            if d2.get('number', d2.get('value')) not in (6, 'y'):
                vs.append(('%s|enum-default-differs' % sig, 'DEFVAL { y } of NEW-MIB: %r' % (d2,)))
        return 'ok' if not vs else 'bad', vs, 3


class TwoEditionsOfTheTypeModule(object):
    name = 'two-editions-of-the-type-module-in-one-call'
    describe = ('TYPES-MIB exists twice in the source: in its own file and, as another edition (enumeration numbers swapped, a TC over '
                'Unsigned32 instead of OCTET STRING), inside the file of MATE-MIB; USER-MIB takes its types from TYPES-MIB and has '
                'DEFVAL { up } / DEFVAL { \'0102\'H }; every request order that makes one or the other edition come first; both back '
                'ends: the defaults of USER-MIB (and of TYPES-MIB) are read against the edition of TYPES-MIB that the call compiled')

    def edition(self, n):
        up, down = (1, 2) if n == 0 else (2, 1)
        token = 'Unsigned32' if n == 0 else 'OCTET STRING (SIZE (2))'
        return ('TYPES-MIB DEFINITIONS ::= BEGIN\nIMPORTS OBJECT-TYPE, Unsigned32, enterprises FROM SNMPv2-SMI TEXTUAL-CONVENTION FROM SNMPv2-TC;\n'
                'typesRoot OBJECT IDENTIFIER ::= { enterprises 30 }\n'
                'TStatus ::= INTEGER { up(%d), down(%d) }\n'
                'TToken ::= TEXTUAL-CONVENTION STATUS current DESCRIPTION "d" SYNTAX %s\n'
                'tStatus OBJECT-TYPE SYNTAX TStatus MAX-ACCESS read-write STATUS current DESCRIPTION "d" DEFVAL { up } ::= { typesRoot 1 }\n'
                'END\n' % (up, down, token))

    USER = ('USER-MIB DEFINITIONS ::= BEGIN\nIMPORTS OBJECT-TYPE, enterprises FROM SNMPv2-SMI TStatus, TToken FROM TYPES-MIB mateRoot FROM MATE-MIB;\n'
            'uStatus OBJECT-TYPE SYNTAX TStatus MAX-ACCESS read-write STATUS current DESCRIPTION "d" DEFVAL { up } ::= { mateRoot 1 }\n'
            'uToken OBJECT-TYPE SYNTAX TToken MAX-ACCESS read-write STATUS current DESCRIPTION "d" DEFVAL { \'0102\'H } ::= { mateRoot 2 }\n'
            'END\n')
    MATE = 'MATE-MIB DEFINITIONS ::= BEGIN\nIMPORTS enterprises FROM SNMPv2-SMI;\nmateRoot OBJECT IDENTIFIER ::= { enterprises 31 }\nEND\n'

    def blocks(self, tier):
        return [{'backend': b} for b in ('json', 'pysnmp')]

    def cases(self, block, tier):
        for own in (0, 1):                      # which edition sits in TYPES-MIB's own file
            for mate_first in (0, 1):           # in MATE-MIB's file: the other edition before or after MATE-MIB
                for req in (['USER-MIB'], ['MATE-MIB', 'USER-MIB'], ['USER-MIB', 'MATE-MIB'], ['TYPES-MIB', 'MATE-MIB', 'USER-MIB'],
                            ['MATE-MIB', 'TYPES-MIB', 'USER-MIB']):
                    yield {'backend': block['backend'], 'own': own, 'mate_first': mate_first, 'req': req}

    def run_case(self, case):
        texts = env.base_texts()
        other = self.edition(1 - case['own'])
        texts.update({'TYPES-MIB': self.edition(case['own']), 'USER-MIB': self.USER,
                      'MATE-MIB': (self.MATE + other) if case['mate_first'] else (other + self.MATE)})
        parser = env.shared_parser('smiV2')
        parser.reset()
        sig = 'C05|two-editions|%s' % case['backend']
        res, _ = env.compile_set(texts, case['req'], codegen='json', dialect=parser)
        parser.reset()
        res2, written = env.compile_set(texts, case['req'], codegen=case['backend'], dialect=parser)
        bad = [m for m in ('TYPES-MIB', 'USER-MIB', 'MATE-MIB') if res2.get(m) != 'compiled' or res.get(m) != 'compiled']
        if bad:
            return 'notcompiled', [('%s|not-compiled' % sig, '%s: %r' % (bad[0], getattr(res2.get(bad[0]), 'error', None)))], 2
        # which edition was compiled: read it off the JSON document of TYPES-MIB (same call shape, JSON back end)
        _, wj = env.compile_set(texts, case['req'], codegen='json', dialect=parser)
        tdoc = json.loads(wj['TYPES-MIB'])
        enum = (tdoc.get('TStatus', {}).get('type', {}).get('constraints', {}) or {}).get('enumeration', {})
        compiled_edition = 0 if enum.get('up') == 1 else 1
        want_up = 1 if compiled_edition == 0 else 2
        vs = []
        if case['backend'] == 'json':
            udoc = json.loads(written['USER-MIB'])
            for mod, doc, sym in (('USER-MIB', udoc, 'uStatus'), ('TYPES-MIB', json.loads(written['TYPES-MIB']), 'tStatus')):
                d = (doc.get(sym, {}).get('default') or {}).get('default') or {}
                got = d.get('number', enum.get(d.get('value')))
                if d.get('format') != 'enum' or got != want_up:
                    vs.append(('%s|enum-default-of-another-edition' % sig, '%s::%s DEFVAL { up }: %r, the compiled TYPES-MIB says up(%d)' % (mod, sym, d, want_up)))
            d = (udoc.get('uToken', {}).get('default') or {}).get('default') or {}
            if compiled_edition == 0 and not (d.get('format') == 'decimal' and d.get('value') == 258):
                vs.append(('%s|hex-default-of-another-edition' % sig, "uToken DEFVAL { '0102'H } over Unsigned32: %r" % (d,)))
            if compiled_edition == 1 and d.get('format') != 'hex':
                vs.append(('%s|hex-default-of-another-edition' % sig, "uToken DEFVAL { '0102'H } over OCTET STRING: %r" % (d,)))
        else:
            b = pysnmp_rec.RecBuilder()
            err = None
            for m in ('MATE-MIB', 'TYPES-MIB', 'USER-MIB'):
                if not err:
                    ns, err = pysnmp_rec.run_module(written[m], b)
            if err:
                vs.append(('%s|does-not-execute|%s' % (sig, err.split(':')[0]), err[:300]))
            else:
                cls = pysnmp_rec.syntax_of(ns.get('uStatus'))
                got = pysnmp_denotation(cls, 'enum', {'up': want_up, 'down': 3 - want_up})
                if got != ('int', want_up):
                    vs.append(('%s|enum-default-of-another-edition' % sig, 'uStatus: %r, the compiled TYPES-MIB says up(%d)' % (got, want_up)))
                cls = pysnmp_rec.syntax_of(ns.get('uToken'))
                got = pysnmp_denotation(cls, 'int' if compiled_edition == 0 else 'octets', None)
                want = ('int', 258) if compiled_edition == 0 else ('octets', b'\x01\x02')
                if got != want:
                    vs.append(('%s|hex-default-of-another-edition' % sig, 'uToken: %r, expected %r' % (got, want)))
        return 'edition-%d' % compiled_edition, vs, 3


class FullWidthHexDefaults(object):
    name = 'full-width-hex-and-binary-defaults'
    describe = ('hex and binary DEFVALs of exactly 32 bits and around (7FFFFFFF, 80000000, c0000000, FFFFFFFF, 0FFFFFFFF, 100000000, 64 '
                'ones, 32 ones in binary) on Unsigned32, Gauge32, TimeTicks, Counter64 and on a TEXTUAL-CONVENTION over Unsigned32 '
                'declared locally and in another module: the default is the unsigned number the literal spells, both back ends')

    LITS = ["'7FFFFFFF'h", "'80000000'h", "'c0000000'H", "'FFFFFFFF'h", "'0FFFFFFFF'h", "'100000000'h", "'FFFFFFFFFFFFFFFF'H",
            "'" + '1' * 32 + "'B", "'" + '1' + '0' * 31 + "'b"]
    BASES = ['Unsigned32', 'Gauge32', 'TimeTicks', 'Counter64', 'LocalMask', 'RemoteMask']

    def blocks(self, tier):
        return [{'base': b} for b in self.BASES]

    def cases(self, block, tier):
        for i, lit in enumerate(self.LITS):
            val = int(lit[1:-2], 16 if lit[-1] in 'hH' else 2)
            if val >= 2 ** 32 and block['base'] != 'Counter64':
                continue
            yield {'base': block['base'], 'lit': i}

    def run_case(self, case):
        lit = self.LITS[case['lit']]
        val = int(lit[1:-2], 16 if lit[-1] in 'hH' else 2)
        remote = ('REMOTE-TC DEFINITIONS ::= BEGIN\nIMPORTS Unsigned32 FROM SNMPv2-SMI TEXTUAL-CONVENTION FROM SNMPv2-TC;\n'
                  'RemoteMask ::= TEXTUAL-CONVENTION STATUS current DESCRIPTION "d" SYNTAX Unsigned32\nEND\n')
        text = ('TEST-MIB DEFINITIONS ::= BEGIN\nIMPORTS OBJECT-TYPE, Unsigned32, Gauge32, TimeTicks, Counter64, enterprises FROM SNMPv2-SMI '
                'TEXTUAL-CONVENTION FROM SNMPv2-TC RemoteMask FROM REMOTE-TC;\n'
                'LocalMask ::= TEXTUAL-CONVENTION STATUS current DESCRIPTION "d" SYNTAX Unsigned32\n'
                'subject OBJECT-TYPE SYNTAX %s MAX-ACCESS read-only STATUS current DESCRIPTION "d" DEFVAL { %s } ::= { enterprises 1 }\nEND\n'
                % (case['base'], lit))
        sig = 'C05|full-width-literal|%s|%s' % (case['base'], 'hex' if lit[-1] in 'hH' else 'binary')
        vs = []
        for backend in ('json', 'pysnmp'):
            parser = env.shared_parser('smiV2')
            parser.reset()
            res, written = env.compile_set({'TEST-MIB': text, 'REMOTE-TC': remote}, ['TEST-MIB'], codegen=backend, dialect=parser)
            if res.get('TEST-MIB') != 'compiled':
                vs.append(('%s|%s|not-compiled' % (sig, backend), '%r\n%s' % (getattr(res.get('TEST-MIB'), 'error', None), text)))
                continue
            if backend == 'json':
                d = (json.loads(written['TEST-MIB']).get('subject', {}).get('default') or {}).get('default') or {}
                got = d.get('value')
                if d.get('format') == 'hex':
                    got = int(got, 16)
                elif d.get('format') == 'bin':
                    got = int(got, 2)
                if d.get('format') not in ('decimal', 'hex', 'bin') or got != val:
                    vs.append(('%s|json|default-differs' % sig, 'DEFVAL { %s } is %d, document says %r' % (lit, val, d)))
            else:
                b = pysnmp_rec.RecBuilder()
                err = None
                for m in ('REMOTE-TC', 'TEST-MIB'):
                    if m in written and not err:
                        ns, err = pysnmp_rec.run_module(written[m], b)
                if err:
                    vs.append(('%s|pysnmp|does-not-execute|%s' % (sig, err.split(':')[0]), err[:300]))
                    continue
                got = pysnmp_denotation(pysnmp_rec.syntax_of(ns.get('subject')), 'int', None)
                if got != ('int', val):
                    vs.append(('%s|pysnmp|default-differs' % sig, 'DEFVAL { %s } is %d, executed class gives %r' % (lit, val, got)))
        return 'ok' if not vs else 'bad', vs, 2


FAMILIES = [Refinements(), Defaults(), SameNamedTypes(), RefinedChains(), ShoutedNames(), DefaultsFromFiles(), ImportedNamesakes(),
            OddRefinementsWithDefaults(), LongChains(), AfterAFailedModule(), TwoEditionsOfTheTypeModule(), FullWidthHexDefaults()]
