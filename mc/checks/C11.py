"""C11 - malformed input is rejected with a located package error, never accepted.

Seeds are well-formed catalogue texts.  Enumerated exhaustively per seed:
  prefixes   every proper prefix at every character offset (two line-end conventions)
  tokens     every single-token deletion / duplication / insertion / replacement at every token position
  noise      one illegal or quote character at every character offset
  lexical    numbers beyond 64 bits in every numeric position, every forbidden ASN.1 word in every
             identifier position, identifiers with a trailing hyphen
Oracle: the parser returns a list of modules or raises PySmiLexerError (PySmiParserError is a subclass)
with an integer 1-based lineno inside the text; nothing else escapes; every parse ends within its
time budget; a prefix that ends strictly inside a module never returns normally, a prefix that ends
between modules returns exactly the complete modules; the line number is the line of the offending
token: known exactly for lexical errors, bounded below by the mutation point for grammar errors and
required to designate the same token when the same token sequence is laid out differently.
"""
import re
import signal

from mc import catalogue, env, mibspec
from mc.env import error

BOUNDS = {
    'quick': '28 seeds; all prefixes (LF and CRLF layouts); deletion+duplication+8-token insertion/replacement '
             'at every position; 4 noise characters at every offset; all lexical families',
    'thorough': 'every quick-catalogue text (575) for token mutations with a 42-token alphabet; 60 seeds for '
                'prefixes and 7 noise characters at every offset; all lexical families',
}
ASSUMPTIONS = [
    'non-termination is decided as: every enumerated parse returned within 20 s',
    'grammar-error line oracle: LALR(1) never shifts an erroneous token, so the offending token cannot precede '
    'the first token that differs from the well-formed seed',
]

BREAK = re.compile(r'\r\n|\n|\r')
TIME_BUDGET = 20

QUICK_SEEDS = ['ot-parts-0', 'ot-text-3', 'ot-text-4', 'ot-oid-3', 'ot-index-v1-1', 'type-22', 'tc-255a-RFC 1-1',
               'choice-1', 'macro-1-0', 'macro-0-3', 'exports-imp-1', 'imports-2', 'module-oid-1', 'oi-RFC 2',
               'nt-RFC 2-2', 'og-None-2', 'ng-RFC 2-3', 'trap-2-True-True', 'mi-2-2', 'mc-multi-2', 'ac-3-True',
               'two-modules', 'three-modules', 'table', 'ot-text-7', 'macro-3-0', 'exports-3', 'choice-4', 'imports-5']
MORE_SEEDS = ['ot-parts-%d' % i for i in (3, 9, 17, 25, 33, 41)] + \
             ['ot-syntax-%d' % i for i in (2, 5, 6, 9, 13, 16, 20, 21, 30, 36, 44, 50)] + \
             ['type-%d' % i for i in (60, 61, 62, 63)] + ['type-smi-0', 'choice-3', 'macro-2-0', 'exports-1',
                                                          'imports-3', 'empty-module', 'mi-shortdate',
                                                          'mi-0-None', 'mc-7', 'mc-multi-0', 'ac-0-False', 'ac-2-True',
                                                          'value-name-3', 'value-name-4']

LONG_HEX = "'" + '0' * 40 + "'H"          # an all-zero 20-octet key: a legal literal that begins like a bit string
LONG_OPEN = "'" + '01' * 24            # the same kind of run, never closed
TOK_ALPHA_Q = ['}', '(', ',', '::=', 'foo', 'Bar', '1', 'END']
TOK_ALPHA_T = ['{', '}', '(', ')', ',', ';', '|', '::=', '..', 'foo', 'Bar', '1', '-1', '4294967296', '"s"', "'ff'H",
               "'01'B", 'BEGIN', 'END', 'DEFINITIONS', 'IMPORTS', 'FROM', 'OBJECT', 'IDENTIFIER', 'OBJECT-TYPE',
               'SYNTAX', 'INTEGER', 'OCTET', 'STRING', 'SEQUENCE', 'OF', 'STATUS', 'DESCRIPTION', 'MACRO', 'EXPORTS',
               'CHOICE', 'SIZE', 'DEFVAL', 'INDEX', 'MODULE', 'TRAP-TYPE', 'ACCESS']
NOISE_Q = ['$', '"', '\x00', 'é']
NOISE_T = ['$', '"', '\x00', 'é', "'", '\\', '`']
FORBIDDEN = ['ABSENT', 'ANY', 'BIT', 'BOOLEAN', 'BY', 'COMPONENT', 'COMPONENTS', 'DEFAULT', 'DEFINED', 'ENUMERATED',
             'EXPLICIT', 'EXTERNAL', 'FALSE', 'MIN', 'MINUS-INFINITY', 'NULL', 'OPTIONAL', 'PLUS-INFINITY',
             'PRESENT', 'PRIVATE', 'REAL', 'SET', 'TAGS', 'TRUE', 'WITH']  # MAX is a keyword of the SMIv1 dialects

_cat = {}


def entry(eid):
    if not _cat:
        for e in catalogue.entries('quick'):
            _cat[e['id']] = e
    return _cat[eid]


def dialect_of(e, i=0):
    if e.get('only'):
        return e['only'][0]
    ds = ['smiV1', 'smiV1Relaxed'] if e['v1'] else ['smiV2', 'smiV1Relaxed', 'smiV1']
    return ds[i % len(ds)]


def lineof(text, offset):
    return 1 + len(BREAK.findall(text[:offset]))


def layout(tokens, mode):
    """Render tokens; return (text, [start offset of each token])."""
    parts, offs, pos = [], [], 0

    def put(s):
        nonlocal pos
        parts.append(s)
        pos += len(s)

    if mode == 'B':
        put('-- leading comment\r\n\r\n')
    for i, tok in enumerate(tokens):
        raw = tok.startswith(mibspec.RAW)
        if i:
            if raw or tokens[i - 1].startswith(mibspec.RAW):
                put(' ')
            elif mode == 'A':
                put('\n')
            elif mode == 'B':
                put('\r\n   ' if i % 3 == 0 else ' ')
            elif mode == 'C':
                put('\r' if i % 4 == 0 else '\t')
            elif mode == 'D':
                # comments between the tokens of a module: a text may be cut inside any of them
                put(' -- note %d: see END of section; \n' % i if i % 3 == 0 else ' --x\n' if i % 3 == 1 else ' ')
            else:
                put(' ')
        offs.append(pos)
        put(tok[len(mibspec.RAW):] if raw else tok)
    put('\n')
    return ''.join(parts), offs


class _Timeout(Exception):
    pass


def _alarm(signum, frame):
    raise _Timeout()


def run_parse(text, dialect):
    """-> ('ok', tree) | ('err', excclass, lineno) | ('bad', description)"""
    # CPU time, not wall-clock time: machine load must not turn a slow parse into a verdict
    old = signal.signal(signal.SIGVTALRM, _alarm)
    signal.setitimer(signal.ITIMER_VIRTUAL, TIME_BUDGET)
    try:
        try:
            tree = env.parse(text, dialect)
        finally:
            signal.setitimer(signal.ITIMER_VIRTUAL, 0)
            signal.signal(signal.SIGVTALRM, old)
    except _Timeout:
        return ('bad', 'no-termination-within-%ds' % TIME_BUDGET)
    except error.PySmiLexerError as exc:
        ln = getattr(exc, 'lineno', None)
        if not isinstance(ln, int) or isinstance(ln, bool):
            return ('bad', 'lineno-not-int:%r' % (ln,))
        return ('err', type(exc).__name__, ln, 'eof' if 'end of input' in str(getattr(exc, 'msg', exc)).lower() else 'token')
    except Exception as exc:
        return ('bad', 'foreign-exception:%s' % type(exc).__name__)
    if not isinstance(tree, list):
        return ('bad', 'result-not-a-list:%s' % type(tree).__name__)
    return ('ok', tree)


def basic(res, text, sig):
    """The part of the oracle that holds for any string."""
    if res[0] == 'bad':
        return [('%s|%s' % (sig, res[1]), 'text %r -> %r' % (text, res))]
    if res[0] == 'err':
        nlines = lineof(text, len(text))
        if not 1 <= res[2] <= nlines:
            return [('%s|lineno-outside-text' % sig, 'text %r (%d lines) -> %r' % (text, nlines, res))]
        if res[3:] == ('eof',) and res[2] != nlines:
            # no token offends: the text ends too early, and it ends on its last line
            return [('%s|end-of-input-not-on-the-last-line' % sig, 'text %r (%d lines) -> %r' % (text, nlines, res))]
    return []


def module_spans(tokens, offs):
    """[(offset of module name, offset just after END)] from the reference token list."""
    spans, start = [], None
    for i, tok in enumerate(tokens):
        if start is None:
            start = offs[i]
        macro_end = i >= 2 and tokens[i - 2] == 'MACRO' and tokens[i - 1].startswith(mibspec.RAW)
        if tok == 'END' and not macro_end:
            spans.append((start, offs[i] + 3))
            start = None
    return spans


class Prefixes(object):
    case_timeout = None  # run_parse() owns the interval timer
    name = 'prefixes'
    describe = ('every proper prefix (every character offset) of every seed text in an LF and a CRLF layout, and in a layout with '
                'comments between the tokens (a text may end inside a comment)')

    def blocks(self, tier):
        seeds = QUICK_SEEDS + (MORE_SEEDS if tier == 'thorough' else [])
        out = [{'e': s, 'mode': m} for s in seeds for m in ('A', 'B')]
        # ... and in a layout with comments between the tokens (quick: six seeds)
        out += [{'e': s, 'mode': 'D'} for s in (seeds if tier == 'thorough' else
                                                ['ot-parts-0', 'imports-2', 'two-modules', 'table', 'mi-2-2', 'trap-2-True-True'])]
        return out

    def cases(self, block, tier):
        e = entry(block['e'])
        text, _ = layout(mibspec.file_tokens(e['mods']), block['mode'])
        for cut in range(len(text)):
            yield {'e': block['e'], 'mode': block['mode'], 'cut': cut}

    def run_case(self, case):
        e = entry(case['e'])
        tokens = mibspec.file_tokens(e['mods'])
        text, offs = layout(tokens, case['mode'])
        cut = case['cut']
        prefix = text[:cut]
        res = run_parse(prefix, dialect_of(e, cut))
        kind = case['e'].rsplit('-', 1)[0]
        vs = basic(res, prefix, 'C11|prefix|%s' % kind)
        spans = module_spans(tokens, offs)
        inside = any(a < cut < b for a, b in spans)
        complete = len([1 for a, b in spans if b <= cut])
        if not vs:
            if inside and res[0] == 'ok':
                vs.append(('C11|prefix|truncated-accepted|returns=%s' % ('empty' if not res[1] else 'modules'),
                           'prefix %r ends inside a module but parse() returned %r' % (prefix, res[1])))
            elif not inside and text[cut - 1:cut + 1] == '--' and cut > 0:
                pass  # the cut splits a comment introducer: a lone '-' is a token, not a complete file
            elif not inside:
                exp = mibspec.file_tree(e['mods'])[:complete]
                if res[0] != 'ok' or res[1] != exp:
                    vs.append(('C11|prefix|complete-prefix-wrong|%s' % res[0],
                               'prefix %r holds %d complete module(s) but parse() gave %r' % (prefix, complete, res)))
        return (res[0], repr(res[1:])), vs, 1


class ReservedWords(object):
    case_timeout = None
    name = 'reserved-words-as-tokens'
    describe = ('every word the lexers reserve (taken from their tables: SMI, SPPI and ASN.1 words, with and without a grammar rule) '
                'put where a value name, a type name, a SYNTAX and a stray token may stand, in four dialects (strict, SMIv1, relaxed '
                'SMIv1, strict + noCells): accepted, or refused with the package error on the line of the word')

    DIALECTS = ['smiV2', 'smiV1', 'smiV1Relaxed', {'noCells': True}]
    FRAMES = ['T-MIB DEFINITIONS ::= BEGIN\n\n%s OBJECT IDENTIFIER ::= { a 1 }\nEND\n',
              'T-MIB DEFINITIONS ::= BEGIN\n\n\n%s ::= INTEGER\nEND\n',
              'T-MIB DEFINITIONS ::= BEGIN\nx OBJECT-TYPE\n SYNTAX %s\n MAX-ACCESS read-only STATUS current DESCRIPTION "d" ::= { a 1 }\nEND\n',
              'T-MIB DEFINITIONS ::= BEGIN\nb OBJECT IDENTIFIER ::= { a 1 }\n\n\n\n%s\nc OBJECT IDENTIFIER ::= { a 2 }\nEND\n']
    LINES = [3, 4, 3, 6]

    def words(self):
        from pysmi.lexer.smi import SmiV2Lexer, SupportSmiV1Keywords
        ws = set(SmiV2Lexer.reserved) | set(getattr(SmiV2Lexer, 'forbidden_words', ()))
        try:
            ws |= set(SupportSmiV1Keywords.reserved)
        except Exception:
            pass
        return sorted(w for w in ws if w not in ('MACRO', 'EXPORTS', 'CHOICE', 'END', 'BEGIN'))

    def blocks(self, tier):
        return [{'d': i} for i in range(len(self.DIALECTS))]

    def cases(self, block, tier):
        for w in self.words():
            for f in range(len(self.FRAMES)):
                yield {'d': block['d'], 'w': w, 'f': f}

    def run_case(self, case):
        text = self.FRAMES[case['f']] % case['w']
        d = self.DIALECTS[case['d']]
        res = run_parse(text, d)
        sig = 'C11|reserved-word|%s|frame-%d' % (env.dialect_key(d) or 'strict', case['f'])
        vs = basic(res, text, sig)
        if not vs and res[0] == 'err' and res[3:] != ('eof',) and res[2] not in (self.LINES[case['f']], self.LINES[case['f']] + 1):
            # the word itself, or the token after it (when the word is legal where it stands and what follows is not)
            vs.append(('%s|error-not-on-the-line-of-the-word' % sig, 'text %r -> %r' % (text, res)))
        return (res[0], repr(res[1:3])), vs, 1


class LaterObjects(object):
    case_timeout = None
    name = 'later-objects-of-the-shipped-classes'
    describe = ('the parser classes the package ships (SmiV2Parser, SmiV1Parser, SmiV1CompatParser): the SECOND and THIRD object of a '
                'class built in the process - the first one idle, or stopped in the middle of another text - are given every proper '
                'prefix of six seed texts: same outcome, same error class and same line as the parser of that dialect made afresh, '
                'and the general oracle (line inside the text; end of input reported on the last line)')

    CLASSES = [('SmiV2Parser', 'smiV2'), ('SmiV1Parser', 'smiV1'), ('SmiV1CompatParser', 'smiV1Relaxed')]
    SEEDS = ['ot-parts-0', 'imports-2', 'two-modules', 'table', 'mi-2-2', 'choice-1']
    _objs = {}

    def blocks(self, tier):
        return [{'cls': c, 'e': s, 'which': w} for c in range(len(self.CLASSES)) for s in self.SEEDS for w in (1, 2)]

    def cases(self, block, tier):
        e = entry(block['e'])
        text, _ = layout(mibspec.file_tokens(e['mods']), 'A')
        for cut in range(1, len(text)):
            yield dict(block, cut=cut)

    def objects(self, cname):
        if cname not in self._objs:
            import pysmi.parser as pkg
            cls = getattr(pkg, cname)
            first = cls()
            try:
                first.parse('STOPPED-MIB DEFINITIONS ::= BEGIN\n\n\n\n\nx OBJECT IDENTIFIER ::= { y')
            except error.PySmiError:
                pass
            self._objs[cname] = (first, cls(), cls())
        return self._objs[cname]

    def run_case(self, case):
        cname, dialect = self.CLASSES[case['cls']]
        e = entry(case['e'])
        text, offs = layout(mibspec.file_tokens(e['mods']), 'A')
        prefix = text[:case['cut']]
        want = run_parse(prefix, dialect)
        obj = self.objects(cname)[case['which']]
        real_parse = env.parse
        env.parse = lambda t, d: obj.parse(t)
        try:
            got = run_parse(prefix, dialect)
        finally:
            env.parse = real_parse
        sig = 'C11|later-object|%s' % cname
        vs = basic(got, prefix, sig)
        if not vs and got[:3] != want[:3] and not (got[0] == want[0] == 'ok'):
            vs.append(('%s|differs-from-a-parser-made-afresh|%s-%s' % (sig, want[0], got[0]),
                       'prefix %r: object %d of the class -> %r, fresh %s parser -> %r' % (prefix, case['which'] + 1, got[1:], dialect, want[1:])))
        elif not vs and got[0] == 'ok' and got[1] != want[1]:
            vs.append(('%s|tree-differs-from-a-parser-made-afresh' % sig, 'prefix %r' % prefix))
        return (got[0], repr(got[1:])[:200]), vs, 2


def mutations(tokens, alpha):
    n = len(tokens)
    for i in range(n):
        if tokens[i].startswith(mibspec.RAW):
            continue
        yield ('del', i, None)
        yield ('dup', i, None)
        for a in range(len(alpha)):
            yield ('rep', i, a)
    for i in range(n + 1):
        for a in range(len(alpha)):
            yield ('ins', i, a)


def apply_mutation(tokens, alpha, m):
    op, i, a = m
    toks = list(tokens)
    if op == 'del':
        del toks[i]
    elif op == 'dup':
        toks.insert(i, toks[i])
    elif op == 'rep':
        toks[i] = alpha[a]
    else:
        toks.insert(i, alpha[a])
    return toks


class TokenMutations(object):
    case_timeout = None  # run_parse() owns the interval timer
    name = 'token-mutations'
    describe = ('every single-token deletion, duplication, replacement and insertion (token alphabet of 8 / 42) at every '
                'token position of every seed; each mutant is parsed in two layouts (one token per line with LF; '
                'three per line with CRLF, tabs and a leading comment)')

    def blocks(self, tier):
        if tier == 'thorough':
            seeds = [e['id'] for e in catalogue.entries('quick')]
        else:
            seeds = QUICK_SEEDS
        return [{'e': s} for s in seeds]

    def cases(self, block, tier):
        e = entry(block['e'])
        alpha = TOK_ALPHA_T if tier == 'thorough' else TOK_ALPHA_Q
        for m in mutations(mibspec.file_tokens(e['mods']), alpha):
            yield {'e': block['e'], 'm': list(m), 'al': 'T' if tier == 'thorough' else 'Q'}

    def run_case(self, case):
        e = entry(case['e'])
        alpha = TOK_ALPHA_T if case['al'] == 'T' else TOK_ALPHA_Q
        base = mibspec.file_tokens(e['mods'])
        m = tuple(case['m'])
        toks = apply_mutation(base, alpha, m)
        d = dialect_of(e, m[1])
        kind = case['e'].rsplit('-', 1)[0]
        sig = 'C11|tokens|%s|%s' % (kind, m[0])
        ta, oa = layout(toks, 'A')
        tb, ob = layout(toks, 'B')
        ra, rb = run_parse(ta, d), run_parse(tb, d)
        vs = basic(ra, ta, sig) + basic(rb, tb, sig)
        if vs:
            return (ra[0], rb[0]), vs, 2
        if ra[0] != rb[0] or (ra[0] == 'ok' and ra[1] != rb[1]):
            vs.append(('%s|layout-changes-verdict' % sig, 'tokens %r:\n%r -> %r\n%r -> %r' % (toks, ta, ra, tb, rb)))
        elif ra[0] == 'err':
            # lower bound: the offending token cannot precede the mutation point
            first = min(m[1], len(toks) - 1)
            for text, offs, r in ((ta, oa, ra), (tb, ob, rb)):
                if r[2] < lineof(text, offs[first]):
                    vs.append(('%s|lineno-before-mutation' % sig,
                               'text %r: error %r but the first changed token is on line %d' % (
                                   text, r, lineof(text, offs[first]))))
                    break
            else:
                # metamorphic: the line reported in layout A designates token(s) K; layout B must report the
                # line of one of them (end of input: the last line)
                K = [k for k in range(len(toks)) if lineof(ta, oa[k]) == ra[2]]
                allowed = set(lineof(tb, ob[k]) for k in K)
                if ra[2] >= lineof(ta, len(ta)) - 1:
                    allowed |= set([lineof(tb, len(tb)), lineof(tb, len(tb)) - 1])
                exact = not any(t.startswith(mibspec.RAW) or t in ('MACRO', 'CHOICE', 'EXPORTS') for t in toks)
                if exact and not K and ra[2] < lineof(ta, len(ta)) - 1:
                    # the token list is exactly what the lexer sees: an error must name the line on which a token starts
                    vs.append(('%s|lineno-is-not-the-first-line-of-any-token' % sig,
                               'tokens %r\nlayout A %r -> %r' % (toks, ta, ra)))
                elif allowed and rb[2] not in allowed:
                    vs.append(('%s|lineno-names-different-token' % sig,
                               'tokens %r\nlayout A %r -> %r (token index %r)\nlayout B %r -> %r, expected line in %r' % (
                                   toks, ta, ra, K, tb, rb, sorted(allowed))))
        return (ra[0], repr(ra[1:]), repr(rb[1:])), vs, 2


class Noise(object):
    case_timeout = None  # run_parse() owns the interval timer
    name = 'noise'
    describe = ('one noise character ($, double quote, NUL, e-acute, apostrophe, backslash, backtick) inserted at '
                'every character offset of every seed (layout with CRLF, tabs, comment)')

    def blocks(self, tier):
        seeds = QUICK_SEEDS + (MORE_SEEDS if tier == 'thorough' else [])
        return [{'e': s, 'n': n} for s in seeds for n in (NOISE_T if tier == 'thorough' else NOISE_Q)]

    def cases(self, block, tier):
        e = entry(block['e'])
        text, _ = layout(mibspec.file_tokens(e['mods']), 'B')
        for off in range(len(text) + 1):
            yield {'e': block['e'], 'n': block['n'], 'off': off}

    def run_case(self, case):
        e = entry(case['e'])
        tokens = mibspec.file_tokens(e['mods'])
        text, offs = layout(tokens, 'B')
        off, ch = case['off'], case['n']
        noisy = text[:off] + ch + text[off:]
        res = run_parse(noisy, dialect_of(e, off))
        sig = 'C11|noise|%r' % ch
        vs = basic(res, noisy, sig)
        if not vs and ch in '$\x00é':
            # exact line oracle where the character certainly reaches the INITIAL lexer state: outside the leading
            # comment, outside quoted strings and raw (MACRO / EXPORTS / CHOICE) chunks
            k = max([i for i in range(len(tokens)) if offs[i] <= off] or [-1])
            in_initial = k >= 0 and not any(
                t.startswith(mibspec.RAW) or t in ('MACRO', 'EXPORTS', 'CHOICE') for t in tokens[max(0, k - 1):k + 2])
            if k >= 0:
                t = tokens[k]
                end = offs[k] + len(t)
                if t[0] == '"' and offs[k] < off < end:
                    in_initial = False
            if in_initial:
                want = lineof(noisy, off)
                if res[0] != 'err' or res[2] != want:
                    vs.append(('%s|illegal-character-not-located' % sig,
                               'text %r: noise at line %d, got %r' % (noisy, want, res)))
        return (res[0], repr(res[1:])), vs, 1


class Lexical(object):
    case_timeout = None  # run_parse() owns the interval timer
    name = 'lexical'
    describe = ('2**64, 10**30, their negations and -(2**63)-1 in every numeric token position; each of 25 forbidden ASN.1 words in '
                'every identifier position; an identifier with a trailing hyphen in every identifier position; the '
                'error must be a PySmiLexerError on exactly the line of that token')

    BIG = ['18446744073709551616', '1' + '0' * 30, '-18446744073709551616', '9' * 5000, '-9223372036854775809',
           '-18446744073709551615']

    def blocks(self, tier):
        seeds = QUICK_SEEDS + (MORE_SEEDS if tier == 'thorough' else [])
        return [{'e': s} for s in seeds]

    def cases(self, block, tier):
        e = entry(block['e'])
        tokens = mibspec.file_tokens(e['mods'])
        for i, tok in enumerate(tokens):
            if tok.startswith(mibspec.RAW) or (i and tokens[i - 1] in ('MACRO', 'EXPORTS', 'CHOICE')):
                continue
            if i >= 2 and tokens[i - 2] == 'MACRO':
                continue  # the END that closes a MACRO body is consumed inside the macro lexer state
            if tok.lstrip('-').isdigit():
                for b in range(len(self.BIG)):
                    yield {'e': block['e'], 'i': i, 'w': self.BIG[b]}
            elif tok[0].isalpha():
                words = FORBIDDEN if (tok[0].isupper() or tier == 'thorough') else FORBIDDEN[:3]
                for w in words:
                    yield {'e': block['e'], 'i': i, 'w': w}
                if not e['v1'] and not e.get('only'):
                    yield {'e': block['e'], 'i': i, 'w': 'MAX'}   # forbidden in the strict dialect, a keyword in the SMIv1 ones
                if tok not in ('MACRO', 'EXPORTS', 'CHOICE'):
                    # these three are recognised as prefixes by dedicated lexer rules (CHOICE- is CHOICE + body)
                    yield {'e': block['e'], 'i': i, 'w': tok + '-'}
                yield {'e': block['e'], 'i': i, 'w': 'Abc-'}

    def run_case(self, case):
        e = entry(case['e'])
        tokens = mibspec.file_tokens(e['mods'])
        i = case['i']
        if i and tokens[i - 1] == 'MACRO':
            return ('skip',), [], 0
        tokens[i] = case['w']
        vs = []
        outs = []
        for mode in ('B', 'C'):
            text, offs = layout(tokens, mode)
            res = run_parse(text, 'smiV2' if case['w'] == 'MAX' else dialect_of(e, i))
            outs.append(res[0])
            cls = 'big-number' if case['w'].lstrip('-').isdigit() else 'trailing-hyphen' if case['w'].endswith('-') \
                else 'forbidden-word'
            sig = 'C11|lexical|%s' % cls
            v = basic(res, text, sig)
            if not v:
                want = lineof(text, offs[i])
                if res[0] != 'err' or res[2] != want:
                    v.append(('%s|not-rejected-at-its-line' % sig, 'text %r: token %r on line %d, got %r' % (
                        text, case['w'], want, res)))
            vs += v
        return tuple(outs), vs, 2



class LongLiterals(object):
    case_timeout = None  # run_parse() owns the interval timer
    name = 'long-literals'
    describe = ('a 40-digit all-zero hex literal, a 60-digit hex literal, a 64-digit binary literal and the same digit runs never '
                'closed, put in place of every number / literal token of the seed texts and appended after the last token: the '
                'parse terminates within its budget and either succeeds or raises a located package error')
    FORMS = [LONG_HEX, "'" + 'f0' * 30 + "'h", "'" + '01' * 32 + "'B", LONG_OPEN, "'" + '0' * 40, "'" + '0' * 40 + "'"]

    def blocks(self, tier):
        return [{'e': s_} for s_ in QUICK_SEEDS + (MORE_SEEDS if tier == 'thorough' else [])]

    def cases(self, block, tier):
        e = entry(block['e'])
        tokens = mibspec.file_tokens(e['mods'])
        spots = [i for i, tok in enumerate(tokens) if not tok.startswith(mibspec.RAW) and (tok.lstrip('-').isdigit() or tok[0] == "'")]
        for i in spots[:3] + [len(tokens)]:
            for f in range(len(self.FORMS)):
                yield {'e': block['e'], 'i': i, 'f': f}

    def run_case(self, case):
        e = entry(case['e'])
        tokens = mibspec.file_tokens(e['mods'])
        i = case['i']
        if i < len(tokens):
            if i and tokens[i - 1] in ('MACRO', 'EXPORTS', 'CHOICE'):
                return ('skip',), [], 0
            tokens[i] = self.FORMS[case['f']]
        else:
            tokens.append(self.FORMS[case['f']])
        text, offs = layout(tokens, 'B')
        if case['f'] in self._hung:
            # this process has already spent a full budget on this very literal: report the same finding, do not pay again
            return ('bad',), [('C11|long-literal|form-%d|%s' % (case['f'], self._hung[case['f']]),
                               'text %r (not run: the literal did not terminate in an earlier case of this process)' % text)], 0
        res = run_parse(text, dialect_of(e, i))
        if res[0] == 'bad' and res[1].startswith('no-termination'):
            self._hung[case['f']] = res[1]
        return (res[0],), basic(res, text, 'C11|long-literal|form-%d' % case['f']), 1

    _hung = {}

def _shared_cache_directory():
    from mc.checks import C17

    class SharedCacheDirectory(C17.SharedCacheDirectory):
        """A text is accepted, or rejected with the located error of ITS dialect, whatever other dialect used the parser cache directory before."""
        prefix = 'C11'
        name = 'dialects-over-one-cache-directory'
    return SharedCacheDirectory()


FAMILIES = [Prefixes(), TokenMutations(), Noise(), Lexical(), LongLiterals(), ReservedWords(), LaterObjects(), _shared_cache_directory()]
