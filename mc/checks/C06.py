"""C06 - references between objects keep their targets, order and module attribution.

tables      1..3 columns x INDEX lists (own / other local table's / imported columns, plain and hyphenated, IMPLIED on
            the last) or AUGMENTS (local / imported row) x declaration orders of table, row, SEQUENCE type, columns
lists       OBJECTS / NOTIFICATIONS / VARIABLES lists of length 0..3 over local, hyphenated and imported objects, every order
compliance  MODULE parts (<=2, unnamed / named) x MANDATORY-GROUPS 0..2 x GROUP / OBJECT item sequences <=3
Oracle: JSON nodetype, indices (module, object, implied) in order, augmention.object, objects lists with module
attribution, modulecompliance lists; pysnmp classes, setIndexNames / registerAugmentions / setObjects arguments.
"""
import itertools
import json

from mc import env, mibspec, pysnmp_rec, refir

BOUNDS = {
    'quick': 'tables: 1-2 columns, all 24 orders for the 1-column table, rotations otherwise, all index lists of length <=2 '
             'over 5 index objects; lists: all sequences without repetition of length <=2 over 4 objects; compliance: '
             'item sequences <=2',
    'thorough': 'tables: 1-3 columns; lists: length <=3; compliance: item sequences <=3, two MODULE parts',
}
ASSUMPTIONS = ['an index / list entry may name the object in its MIB spelling or in the underscore form used as document key',
               'AUGMENTS: the property fixes the augmented row; the module recorded next to it is not compared']

REMOTE = 'REMOTE-MIB'
LOCAL = 'TEST-MIB'
_SPLIT = [0]
_TEXTS = [0]    # 1: every object carries a REFERENCE and the set is compiled with genTexts


def ot(name, syn, oid, access='read-only', **kw):
    d = {'k': 'ot', 'name': name, 'syntax': syn, 'access': ('MAX-ACCESS', access), 'status': 'current', 'descr': 'd',
         'oid': oid}
    if _TEXTS[0]:
        d['ref'] = 'RFC 9999, section %d' % len(name)
    d.update(kw)
    return d


def table(prefix, root, arc, cols, index=None, augments=None, rowtype=None):
    """[table, row, SEQUENCE type, columns...]"""
    rowtype = rowtype or (prefix[0].upper() + prefix[1:] + 'Entry').replace('-', '')
    decls = [ot(prefix + 'Table', ('seqof', rowtype), [root, arc], 'not-accessible'),
             ot(prefix + 'Entry', ('ref', rowtype), [prefix + 'Table', 1], 'not-accessible', index=index, augments=augments),
             {'k': 'type', 'name': rowtype, 'syntax': ('seq', [(c, 'Integer32') for c in cols])}]
    for i, c in enumerate(cols):
        decls.append(ot(c, ('simple', 'Integer32'), [prefix + 'Entry', i + 1]))
    return decls


def remote_module():
    decls = [{'k': 'value', 'name': 'remoteRoot', 'oid': ['enterprises', 777]}]
    decls += table('remote', 'remoteRoot', 1, ['remoteIdx', 'remote-hy-idx'], index=[(0, 'remoteIdx')])
    decls += [ot('remoteObj', ('simple', 'Integer32'), ['remoteRoot', 2]),
              ot('remote-hy-obj', ('simple', 'Integer32'), ['remoteRoot', 3]),
              {'k': 'nt', 'name': 'remoteNotif', 'objects': None, 'status': 'current', 'descr': 'd', 'oid': ['remoteRoot', 4]},
              {'k': 'og', 'name': 'remoteGroup', 'objects': ['remoteObj'], 'status': 'current', 'descr': 'd',
               'oid': ['remoteRoot', 5]}]
    return {'name': REMOTE, 'decls': decls}


def compile_set(local_decls):
    rmod = remote_module()
    lmod = {'name': LOCAL, 'decls': local_decls}
    mods = [refir.finish_module(rmod, [rmod, lmod]), refir.finish_module(lmod, [rmod, lmod])]
    if _SPLIT[0]:
        # the same IMPORTS spelled with one FROM clause per symbol (1), the clauses of the other module's symbols
        # interleaved with the rest (2)
        imps = []
        for frm, syms in mods[1].get('imports') or []:
            imps += [(frm, [sym]) for sym in syms] if frm == REMOTE else [(frm, syms)]
        if _SPLIT[0] == 2:
            rem = [i for i in imps if i[0] == REMOTE]
            rest = [i for i in imps if i[0] != REMOTE]
            imps = rem[:1] + rest + rem[1:]
        mods[1] = dict(mods[1], imports=imps)
    texts = dict((m['name'], mibspec.pretty([m])) for m in mods)
    out = {}
    for backend in ('json', 'pysnmp'):
        parser = env.shared_parser('smiV2')
        parser.reset()
        out[backend] = env.compile_set(texts, [LOCAL], codegen=backend, dialect=parser, **({'genTexts': True} if _TEXTS[0] else {}))
    return refir.Universe(mods), mods, texts, out


def same_name(got, written):
    return got in (written, refir.under(written))


def load_pysnmp(written):
    b = pysnmp_rec.RecBuilder()
    ns = None
    err = None
    for name in (REMOTE, LOCAL):
        if name in written and not err:
            ns, err = pysnmp_rec.run_module(written[name], b, name)
    return b, ns, err


def status_problem(out, texts, sig):
    vs = []
    for backend in ('json', 'pysnmp'):
        res, written = out[backend]
        for m in (LOCAL, REMOTE):
            if m == REMOTE and REMOTE not in res:
                continue  # not imported by this case
            if res.get(m) != 'compiled':
                vs.append(('%s|%s|not-compiled' % (sig, backend), '%s\n%s: %r %r' % (
                    texts[LOCAL], m, res.get(m), getattr(res.get(m), 'error', None))))
                break
    return vs


INDEX_OBJECTS = ['colA', 'colB', 'otherIdx', 'remoteIdx', 'remote-hy-idx', 'col-hy']


class Tables(object):
    name = 'tables'
    describe = ('a table with 1..3 columns (one of them hyphenated) whose row has an INDEX list of length 1..2 over own columns, '
                'a column of another local table, imported plain and hyphenated columns (IMPLIED on the last or not) or '
                'AUGMENTS a local / imported row; declarations in every order (1 column) / every rotation')

    def blocks(self, tier):
        maxcols = 3 if tier == 'thorough' else 2
        return [{'ncols': n, 'rel': rel} for n in range(1, maxcols + 1) for rel in ('index1', 'index2', 'augments')]

    def cases(self, block, tier):
        n = block['ncols']
        cols = ['colA', 'col-hy', 'colB'][:n]
        avail = [o for o in INDEX_OBJECTS if o in cols or o in ('otherIdx', 'remoteIdx', 'remote-hy-idx')]
        size = 3 + n
        if n == 1:
            orders = [list(p) for p in itertools.permutations(range(size))]
        else:
            orders = [list(range(r, size)) + list(range(r)) for r in range(size)] + [list(range(size))[::-1]]
        if block['rel'] == 'augments':
            for aug in ('otherEntry', 'remoteEntry'):
                for order in orders:
                    yield {'ncols': n, 'aug': aug, 'order': order}
            return
        ln = 1 if block['rel'] == 'index1' else 2
        for idx in itertools.permutations(avail, ln):
            for implied in (0, 1):
                for order in (orders if ln == 1 or tier == 'thorough' else orders[:3]):
                    yield {'ncols': n, 'idx': list(idx), 'implied': implied, 'order': order}

    def run_case(self, case):
        n = case['ncols']
        cols = ['colA', 'col-hy', 'colB'][:n]
        index = None
        if 'idx' in case:
            index = [(0, o) for o in case['idx']]
            if case['implied']:
                index[-1] = (1, index[-1][1])
        tdecls = table('test', 'ctxRoot', 1, cols, index=index, augments=case.get('aug'))
        tdecls = [tdecls[i] for i in case['order']]
        other = table('other', 'ctxRoot', 2, ['otherIdx', 'otherVal'], index=[(0, 'otherIdx')])
        scal = [ot('plainScalar', ('simple', 'Integer32'), ['ctxRoot', 3])]
        # own scalars named like columns of the other module's table (names are per module): whenever the name is not imported
        namesakes = [nm for nm in ('remoteIdx', 'remote-hy-idx') if nm not in case.get('idx', [])]
        for i, nm in enumerate(namesakes):
            scal.append(ot(nm, ('simple', 'Integer32'), ['ctxRoot', 4 + i]))
        decls = [{'k': 'value', 'name': 'ctxRoot', 'oid': ['enterprises', 4242]}]
        pos = sum(case['order']) % 3
        decls += [other + tdecls + scal, tdecls + other + scal, scal + tdecls + other][pos]
        uni, mods, texts, out = compile_set(decls)
        sig = 'C06|table|cols=%d|%s' % (n, 'augments' if 'aug' in case else 'index')
        vs = status_problem(out, texts, sig)
        if vs:
            return 'notcompiled', vs, 2
        lmod = mods[1]
        doc = json.loads(out['json'][1][LOCAL])
        want_nt = {'testTable': 'table', 'testEntry': 'row', 'otherTable': 'table', 'otherEntry': 'row',
                   'otherIdx': 'column', 'otherVal': 'column', 'plainScalar': 'scalar'}
        for c in cols:
            want_nt[c] = 'column'
        for nm in namesakes:
            want_nt[nm] = 'scalar'
        for sym, nt in sorted(want_nt.items()):
            if refir.nodetype(lmod, uni.decl[(LOCAL, sym)]) != nt:
                raise AssertionError('reference model disagrees with itself on %s' % sym)
            got = doc.get(refir.under(sym), {}).get('nodetype')
            if got != nt:
                vs.append(('%s|json|nodetype|%s-as-%s' % (sig, nt, got), 'symbol %s: %r\n%s' % (sym, got, texts[LOCAL])))
        row = doc.get('testEntry', {})
        if index is not None:
            got = row.get('indices') or []
            ok = len(got) == len(index)
            for g, (imp, name) in zip(got, index):
                home = uni.home(LOCAL, name)
                if not (same_name(g.get('object'), name) and g.get('module') == home and bool(g.get('implied')) == bool(imp)):
                    ok = False
            if not ok:
                feat = 'hyphen' if any('-' in nm for _, nm in index) else 'plain'
                feat += '+imported' if any(uni.home(LOCAL, nm) != LOCAL for _, nm in index) else ''
                vs.append(('%s|json|indices|%s' % (sig, feat), 'written %r (homes %r)\ndocument %r\n%s' % (
                    index, [uni.home(LOCAL, nm) for _, nm in index], got, texts[LOCAL])))
        else:
            got = (row.get('augmention') or {}).get('object')
            if not same_name(got, case['aug']):
                vs.append(('%s|json|augmention' % sig, 'written %r document %r\n%s' % (case['aug'], row.get('augmention'),
                                                                                       texts[LOCAL])))
        # pysnmp
        b, ns, err = load_pysnmp(out['pysnmp'][1])
        if err:
            vs.append(('%s|pysnmp|does-not-execute|%s' % (sig, err.split(':')[0]), '%s\n%s' % (err, texts[LOCAL])))
            return json.dumps(row, sort_keys=True), vs, 2
        for sym, nt in sorted(want_nt.items()):
            o = ns.get(refir.under(sym))
            kind = getattr(o, 'kind', None)
            if kind != refir.PYSNMP_OT[nt]:
                vs.append(('%s|pysnmp|class|%s-as-%s' % (sig, nt, kind), 'symbol %s\n%s' % (sym, texts[LOCAL])))
        rowobj = ns.get('testEntry')
        if isinstance(rowobj, pysnmp_rec.Node):
            calls = rowobj.called('setIndexNames')
            if index is not None:
                got = list(calls[-1]) if calls else []
                ok = len(got) == len(index)
                for g, (imp, name) in zip(got, index):
                    if not (len(g) == 3 and bool(g[0]) == bool(imp) and g[1] == uni.home(LOCAL, name) and same_name(g[2], name)):
                        ok = False
                if not ok:
                    feat = 'hyphen' if any('-' in nm for _, nm in index) else 'plain'
                    feat += '+imported' if any(uni.home(LOCAL, nm) != LOCAL for _, nm in index) else ''
                    vs.append(('%s|pysnmp|setIndexNames|%s' % (sig, feat), 'written %r\ncalls %r\n%s' % (index, calls, texts[LOCAL])))
            else:
                target = ns.get(refir.under(case['aug']))
                regs = target.called('registerAugmentions') if isinstance(target, pysnmp_rec.Node) else None
                flat = [tuple(a) for call in (regs or []) for a in call]
                if not any(len(a) == 2 and a[0] == LOCAL and same_name(a[1], 'testEntry') for a in flat):
                    vs.append(('%s|pysnmp|registerAugmentions' % sig, 'augmented %s calls %r\n%s' % (case['aug'], regs, texts[LOCAL])))
        return json.dumps(row, sort_keys=True), vs, 2


LIST_OBJECTS = {'objects': ['localObj', 'local-hy-obj', 'remoteObj', 'remote-hy-obj'],
                'notifications': ['localNotif', 'local-hy-notif', 'remoteNotif']}


class TablesWithTexts(Tables):
    name = 'tables-with-texts'
    describe = ('the tables family again with a REFERENCE clause on every object and genTexts on: what the text-bearing clauses add '
                'to an entry takes nothing away from its INDEX / AUGMENTS data')

    def run_case(self, case):
        _TEXTS[0] = 1
        try:
            out, vs, st = Tables.run_case(self, case)
        finally:
            _TEXTS[0] = 0
        return out, [(sig.replace('C06|table|', 'C06|table-with-texts|'), d) for sig, d in vs], st


class Lists(object):
    name = 'lists'
    describe = ('NOTIFICATION-TYPE OBJECTS, OBJECT-GROUP OBJECTS, NOTIFICATION-GROUP NOTIFICATIONS and TRAP-TYPE VARIABLES lists: '
                'every sequence without repetition of length 0..3 over local, local hyphenated, imported and imported '
                'hyphenated objects; for OBJECTS / VARIABLES of notifications also every list of 2-3 members naming one object twice')

    def blocks(self, tier):
        return [{'clause': c} for c in ('nt', 'og', 'ng', 'trap')]

    def cases(self, block, tier):
        maxlen = 3 if tier == 'thorough' else 2
        pool = LIST_OBJECTS['notifications' if block['clause'] == 'ng' else 'objects']
        lo = 1 if block['clause'] in ('og', 'ng') else 0
        for ln in range(max(lo, 1), maxlen + 1):
            for seq in itertools.permutations(pool, ln):
                yield {'clause': block['clause'], 'list': list(seq)}
        if lo == 0:
            yield {'clause': block['clause'], 'list': None}
            # the variable bindings of a notification are positional: one object may be named twice (old / new value)
            for a in pool:
                yield {'clause': block['clause'], 'list': [a, a]}
            for a, b in itertools.permutations(pool, 2):
                for seq in ([a, b, a], [a, a, b], [b, a, a]):
                    yield {'clause': block['clause'], 'list': seq}

    def run_case(self, case):
        lst = case['list']
        decls = [{'k': 'value', 'name': 'ctxRoot', 'oid': ['enterprises', 4242]},
                 ot('localObj', ('simple', 'Integer32'), ['ctxRoot', 1]),
                 ot('local-hy-obj', ('simple', 'Integer32'), ['ctxRoot', 2]),
                 {'k': 'nt', 'name': 'localNotif', 'objects': None, 'status': 'current', 'descr': 'd', 'oid': ['ctxRoot', 3]},
                 {'k': 'nt', 'name': 'local-hy-notif', 'objects': None, 'status': 'current', 'descr': 'd', 'oid': ['ctxRoot', 4]}]
        c = case['clause']
        if c == 'nt':
            decls.append({'k': 'nt', 'name': 'subject', 'objects': lst, 'status': 'current', 'descr': 'd', 'oid': ['ctxRoot', 9]})
        elif c == 'trap':
            decls.append({'k': 'trap', 'name': 'subject', 'enterprise': ['ctxRoot'], 'vars': lst, 'descr': 'd', 'num': 9})
        else:
            decls.append({'k': c, 'name': 'subject', 'objects': lst, 'status': 'current', 'descr': 'd', 'oid': ['ctxRoot', 9]})
        uni, mods, texts, out = compile_set(decls)
        feat = 'empty' if not lst else '+'.join(sorted(set(
            ('hyphen' if '-' in n else 'plain') + ('-imported' if n.startswith('remote') else '') for n in lst)))
        sig = 'C06|list|%s|%s' % (c, feat)
        vs = status_problem(out, texts, sig)
        if vs:
            return 'notcompiled', vs, 2
        doc = json.loads(out['json'][1][LOCAL])
        got = doc.get('subject', {}).get('objects') or []
        want = [(uni.home(LOCAL, n), n) for n in lst or []]
        ok = len(got) == len(want) and all(g.get('module') == m and same_name(g.get('object'), n) for g, (m, n) in zip(got, want))
        if not ok:
            vs.append(('%s|json|objects' % sig, 'written %r\ndocument %r\n%s' % (want, got, texts[LOCAL])))
        b, ns, err = load_pysnmp(out['pysnmp'][1])
        if err:
            vs.append(('%s|pysnmp|does-not-execute|%s' % (sig, err.split(':')[0]), '%s\n%s' % (err, texts[LOCAL])))
        else:
            o = ns.get('subject')
            calls = o.called('setObjects') if isinstance(o, pysnmp_rec.Node) else None
            pgot = [tuple(a) for a in (calls[-1] if calls else ())]
            ok = len(pgot) == len(want) and all(len(g) == 2 and g[0] == m and same_name(g[1], n) for g, (m, n) in zip(pgot, want))
            if not ok:
                vs.append(('%s|pysnmp|setObjects' % sig, 'written %r\ncalls %r\n%s' % (want, calls, texts[LOCAL])))
        return json.dumps(got, sort_keys=True), vs, 2


class Compliance(object):
    name = 'compliance'
    describe = ('MODULE-COMPLIANCE: MODULE parts (this module unnamed / named, another module) x MANDATORY-GROUPS of 0..2 groups '
                'x every sequence of <=2 (3) GROUP / OBJECT items; one and two MODULE parts')
    ITEMS = [('GROUP', 'grpA'), ('GROUP', 'grp-hy'), ('OBJECT', 'localObj'), ('GROUP', 'grpB')]

    def blocks(self, tier):
        # 'two': 0 one MODULE part; 1 a named THIRD-MIB part after it; 2 the THIRD-MIB part before it; 3 between two others
        return [{'mname': m, 'two': t} for m in (None, LOCAL, REMOTE) for t in (0, 1, 2, 3)]

    def cases(self, block, tier):
        maxlen = 3 if tier == 'thorough' else 2
        for mand in (None, ['grpA'], ['grpB', 'grp-hy']):
            for ln in range(0, maxlen + 1):
                for seq in itertools.product(range(len(self.ITEMS)), repeat=ln):
                    if mand is None and ln == 0 and not block['two']:
                        pass
                    yield {'mname': block['mname'], 'two': block['two'], 'mand': mand, 'items': list(seq)}

    def run_case(self, case):
        decls = [{'k': 'value', 'name': 'ctxRoot', 'oid': ['enterprises', 4242]},
                 ot('localObj', ('simple', 'Integer32'), ['ctxRoot', 1])]
        for i, g in enumerate(('grpA', 'grpB', 'grp-hy')):
            decls.append({'k': 'og', 'name': g, 'objects': ['localObj'], 'status': 'current', 'descr': 'd',
                          'oid': ['ctxRoot', 10 + i]})
        items = []
        for i in case['items']:
            kind, name = self.ITEMS[i]
            if case['mname'] == REMOTE:
                name = {'grpA': 'remoteGroup', 'grp-hy': 'remoteGroup2', 'grpB': 'remoteGroup3', 'localObj': 'remoteObj'}[name]
            items.append(('GROUP', name, 'd') if kind == 'GROUP' else ('OBJECT', name, None, None, None, 'd'))
        mand = case['mand']
        if mand and case['mname'] == REMOTE:
            mand = ['remoteGroup'] + (['remoteGroup9'] if len(mand) > 1 else [])
        mods_ = [{'name': case['mname'], 'mandatory': mand, 'items': items}]
        third = {'name': 'THIRD-MIB', 'mandatory': ['thirdGroup'], 'items': [('GROUP', 'thirdOptional', 'd')]}
        if case['two'] == 1:
            mods_.append(third)
        elif case['two'] == 2:
            mods_.insert(0, third)
        elif case['two'] == 3:
            mods_ = [{'name': 'FOURTH-MIB', 'mandatory': ['fourthGroup'], 'items': []}, third] + mods_
        if not mand and not items:
            pass
        decls.append({'k': 'mc', 'name': 'subject', 'status': 'current', 'descr': 'd', 'modules': mods_, 'oid': ['ctxRoot', 9]})
        uni, mods, texts, out = compile_set(decls)
        sig = 'C06|compliance|module=%s|%s|parts=%d' % (
            'unnamed' if case['mname'] is None else 'self' if case['mname'] == LOCAL else 'other',
            'object-first' if items and items[0][0] == 'OBJECT' else 'plain', case['two'])
        vs = status_problem(out, texts, sig)
        if vs:
            return 'notcompiled', vs, 2
        want = []
        for m in mods_:
            mn = m['name'] or LOCAL
            for g in m.get('mandatory') or []:
                want.append((mn, g))
            for it in m.get('items') or []:
                if it[0] == 'GROUP':
                    want.append((mn, it[1]))
        doc = json.loads(out['json'][1][LOCAL])
        got = doc.get('subject', {}).get('modulecompliance') or []
        ok = len(got) == len(want) and all(g.get('module') == m and same_name(g.get('object'), n) for g, (m, n) in zip(got, want))
        if not ok:
            vs.append(('%s|json|modulecompliance' % sig, 'written %r\ndocument %r\n%s' % (want, got, texts[LOCAL])))
        b, ns, err = load_pysnmp(out['pysnmp'][1])
        if err:
            vs.append(('%s|pysnmp|does-not-execute|%s' % (sig, err.split(':')[0]), '%s\n%s' % (err, texts[LOCAL])))
        else:
            o = ns.get('subject')
            calls = o.called('setObjects') if isinstance(o, pysnmp_rec.Node) else None
            pgot = [tuple(a) for a in (calls[-1] if calls else ())]
            ok = len(pgot) == len(want) and all(len(g) == 2 and g[0] == m and same_name(g[1], n) for g, (m, n) in zip(pgot, want))
            if not ok:
                vs.append(('%s|pysnmp|setObjects' % sig, 'written %r\ncalls %r\n%s' % (want, calls, texts[LOCAL])))
        return json.dumps(got, sort_keys=True), vs, 2



class ImportSpellings(object):
    name = 'import-clause-spellings'
    describe = ('the tables / lists cases that reference two imported symbols, with the IMPORTS section naming the other module in '
                'one FROM clause per symbol, adjacent or separated by the clauses of other modules')

    def blocks(self, tier):
        return [{'split': 1}, {'split': 2}]

    def cases(self, block, tier):
        for clause in ('nt', 'og', 'trap'):
            for lst in (['remoteObj', 'remote-hy-obj'], ['remote-hy-obj', 'remoteObj'], ['localObj', 'remote-hy-obj', 'remoteObj']):
                yield {'split': block['split'], 'fam': 'lists', 'case': {'clause': clause, 'list': lst}}
        yield {'split': block['split'], 'fam': 'lists', 'case': {'clause': 'ng', 'list': ['remoteNotif', 'localNotif']}}
        for idx in (['remoteIdx', 'remote-hy-idx'], ['remote-hy-idx', 'remoteIdx'], ['colA', 'remote-hy-idx']):
            for implied in (0, 1):
                yield {'split': block['split'], 'fam': 'tables',
                       'case': {'ncols': 1, 'idx': idx, 'implied': implied, 'order': [0, 1, 2, 3]}}
        yield {'split': block['split'], 'fam': 'tables', 'case': {'ncols': 1, 'aug': 'remoteEntry', 'order': [0, 1, 2, 3]}}

    def run_case(self, case):
        _SPLIT[0] = case['split']
        try:
            fam = Lists() if case['fam'] == 'lists' else Tables()
            outcome, vs, steps = fam.run_case(case['case'])
        finally:
            _SPLIT[0] = 0
        return outcome, [(sig + '|from-clause-per-symbol', detail) for sig, detail in vs], steps


class NamesOfEarlierImports(object):
    name = 'names-an-earlier-module-imported'
    describe = ('ONE compiler compiles EARLY-MIB, which imports remoteIdx / remoteObj / remoteNotif from REMOTE-MIB, and the unrelated '
                'TEST-MIB, which DEFINES objects of those very names and uses them in INDEX, OBJECTS and NOTIFICATIONS lists; request '
                'orders (EARLY first / last / in a call of its own): every reference of TEST-MIB points into TEST-MIB')

    def blocks(self, tier):
        return [{}]

    def cases(self, block, tier):
        for plan in ([['EARLY-MIB', 'TEST-MIB']], [['TEST-MIB', 'EARLY-MIB']], [['EARLY-MIB'], ['TEST-MIB']], [['TEST-MIB']]):
            for backend in ('json', 'pysnmp'):
                yield {'plan': plan, 'backend': backend}

    def run_case(self, case):
        rmod = remote_module()
        early = {'name': 'EARLY-MIB', 'decls': [
            {'k': 'value', 'name': 'earlyRoot', 'oid': ['enterprises', 555]},
            {'k': 'og', 'name': 'earlyGroup', 'objects': ['remoteObj', 'remoteIdx'], 'status': 'current', 'descr': 'd', 'oid': ['earlyRoot', 1]},
            {'k': 'ng', 'name': 'earlyNotifs', 'objects': ['remoteNotif'], 'status': 'current', 'descr': 'd', 'oid': ['earlyRoot', 2]}]}
        local = [{'k': 'value', 'name': 'ctxRoot', 'oid': ['enterprises', 4242]}]
        local += table('test', 'ctxRoot', 1, ['remoteIdx', 'colB'], index=[(0, 'remoteIdx')])
        local += [ot('remoteObj', ('simple', 'Integer32'), ['ctxRoot', 2]),
                  {'k': 'nt', 'name': 'remoteNotif', 'objects': ['remoteObj', 'colB'], 'status': 'current', 'descr': 'd', 'oid': ['ctxRoot', 3]},
                  {'k': 'og', 'name': 'testGroup', 'objects': ['remoteObj', 'colB'], 'status': 'current', 'descr': 'd', 'oid': ['ctxRoot', 4]},
                  {'k': 'ng', 'name': 'testNotifs', 'objects': ['remoteNotif'], 'status': 'current', 'descr': 'd', 'oid': ['ctxRoot', 5]}]
        lmod = {'name': LOCAL, 'decls': local}
        mods = [refir.finish_module(rmod, [rmod, early]), refir.finish_module(early, [rmod, early]), refir.finish_module(lmod, [lmod])]
        texts = dict((m['name'], mibspec.pretty([m])) for m in mods)
        writer = env.CaptureWriter()
        comp = env.MibCompiler(env.fresh_parser('smiV2'), env.make_codegen(case['backend']), writer)
        alltexts = env.base_texts()
        alltexts.update(texts)
        comp.addSources(env.DictReader(alltexts))
        comp.addSearchers(env.StubSearcher(*env.BASE_NAMES))
        for req in case['plan']:
            res = comp.compile(*req, rebuild=True)
        written = dict((n, d) for n, d, _ in writer.written)
        sig = 'C06|earlier-imports|%s|%s' % (case['backend'], '+'.join(','.join(r) for r in case['plan']))
        if LOCAL not in written:
            return 'notcompiled', [('%s|not-compiled' % sig, repr(dict((k, str(v)) for k, v in res.items())))], 1
        vs = []
        if case['backend'] == 'json':
            doc = json.loads(written[LOCAL])
            refs = [('testEntry.indices', doc.get('testEntry', {}).get('indices') or [])] + \
                   [('%s.objects' % k, doc.get(k, {}).get('objects') or []) for k in ('remoteNotif', 'testGroup', 'testNotifs')]
            for where, lst in refs:
                for ent in lst:
                    if ent.get('module') != LOCAL:
                        vs.append(('%s|reference-names-another-module' % sig, '%s: %r' % (where, ent)))
        else:
            b = pysnmp_rec.RecBuilder()
            ns, err = pysnmp_rec.run_module(written[LOCAL], b, LOCAL)
            if err:
                return 'noexec', [('%s|does-not-execute|%s' % (sig, err.split(':')[0]), err)], 1
            for name, call in (('testEntry', 'setIndexNames'), ('remoteNotif', 'setObjects'), ('testGroup', 'setObjects'),
                               ('testNotifs', 'setObjects')):
                o = ns.get(name)
                for c_ in (o.called(call) if isinstance(o, pysnmp_rec.Node) else []):
                    for a in c_:
                        modname = a[1] if call == 'setIndexNames' else a[0]
                        if modname != LOCAL:
                            vs.append(('%s|reference-names-another-module' % sig, '%s.%s: %r' % (name, call, a)))
        return 'ok', vs, len(case['plan'])

class ShippedTemplates(object):
    name = 'shipped-instrumentation-template'
    describe = ('the template the package ships for MIB instrumentation (pysnmp/mib-instrumentation/managed-objects.j2, which extends '
                'the stock one) given as dstTemplate: table, row, columns (1-3, index first / last) and a scalar, in 3 declaration '
                'orders: the object made for each OBJECT-TYPE derives from the pysnmp class of its node type')

    def blocks(self, tier):
        return [{}]

    def cases(self, block, tier):
        for ncols in (1, 2, 3):
            for order in ('top-down', 'bottom-up', 'sequence-first'):
                yield {'ncols': ncols, 'order': order}

    def run_case(self, case):
        import os
        import pysmi.codegen
        tmpl = os.path.join(os.path.dirname(pysmi.codegen.__file__), 'templates', 'pysnmp', 'mib-instrumentation', 'managed-objects.j2')
        cols = ['aCol%d' % i for i in range(case['ncols'])]
        decl = {
            'scalar': 'aScalar OBJECT-TYPE SYNTAX Integer32 MAX-ACCESS read-write STATUS current DESCRIPTION "d" ::= { enterprises 1 }\n',
            'table': 'aTable OBJECT-TYPE SYNTAX SEQUENCE OF AEntry MAX-ACCESS not-accessible STATUS current DESCRIPTION "d" ::= { enterprises 2 }\n',
            'row': 'aEntry OBJECT-TYPE SYNTAX AEntry MAX-ACCESS not-accessible STATUS current DESCRIPTION "d" INDEX { %s } ::= { aTable 1 }\n' % cols[-1],
            'seq': 'AEntry ::= SEQUENCE { %s }\n' % ', '.join('%s Integer32' % c for c in cols),
        }
        for i, c in enumerate(cols):
            decl[c] = '%s OBJECT-TYPE SYNTAX Integer32 MAX-ACCESS read-write STATUS current DESCRIPTION "d" ::= { aEntry %d }\n' % (c, i + 1)
        seq = {'top-down': ['scalar', 'table', 'row', 'seq'] + cols, 'bottom-up': cols[::-1] + ['seq', 'row', 'table', 'scalar'],
               'sequence-first': ['seq'] + cols + ['scalar', 'row', 'table']}[case['order']]
        text = 'TEST-MIB DEFINITIONS ::= BEGIN\nIMPORTS enterprises, OBJECT-TYPE, Integer32 FROM SNMPv2-SMI;\n' + \
            ''.join(decl[k] for k in seq) + 'END\n'
        res, written = env.compile_set({'TEST-MIB': text}, ['TEST-MIB'], codegen='pysnmp', dstTemplate=tmpl)
        sig = 'C06|shipped-template|managed-objects'
        if res.get('TEST-MIB') != 'compiled':
            return 'failed', [('%s|not-compiled' % sig, '%r\n%s' % (getattr(res.get('TEST-MIB'), 'error', None), text))], 1
        ns, err = pysnmp_rec.run_module(written['TEST-MIB'], pysnmp_rec.RecBuilder())
        if err:
            return 'noexec', [('%s|does-not-execute|%s' % (sig, err.split(':')[0]), '%s\n%s' % (err, text))], 1
        vs = []
        want = dict([('aScalar', 'MibScalar'), ('aTable', 'MibTable'), ('aEntry', 'MibTableRow')] + [(c, 'MibTableColumn') for c in cols])
        for sym, cls in sorted(want.items()):
            mro = [b.__name__ for b in type(ns.get(sym)).__mro__]
            kinds = [b for b in mro if b in ('MibScalar', 'MibTable', 'MibTableRow', 'MibTableColumn')]
            if kinds[:1] != [cls]:
                vs.append(('%s|%s-made-a-%s' % (sig, {'aScalar': 'scalar', 'aTable': 'table', 'aEntry': 'row'}.get(sym, 'column'),
                                                 (kinds or ['?'])[0]), '%s: %r\n%s' % (sym, mro, text)))
        return 'ok', vs, 1


class Smiv1ForeignMembers(object):
    name = 'smiv1-members-from-the-old-base-modules'
    describe = ('an SMIv1 module importing, in one FROM RFC1213-MIB (RFC1158-MIB) clause, objects that moved to an SMIv2 module '
                '(ifIndex, sysDescr ...) and objects that stayed (ipRouteDest, atIfIndex, egpNeighAddr ...), in either order, and '
                'using them ONLY as INDEX members of a row and as VARIABLES of a trap: every member keeps its order and is '
                'attributed to the module that defines it (the new home resp. RFC1213-MIB); JSON')

    MOVED = ['ifIndex', 'sysDescr', 'ipForwarding']
    KEPT = {'RFC1213-MIB': ['ipRouteDest', 'atIfIndex'], 'RFC1158-MIB': ['snmpInBadTypes']}

    def blocks(self, tier):
        return [{'v1': v} for v in sorted(self.KEPT)]

    def cases(self, block, tier):
        for moved in self.MOVED:
            for kept in self.KEPT[block['v1']]:
                for order in (0, 1):
                    yield {'v1': block['v1'], 'moved': moved, 'kept': kept, 'order': order}

    def run_case(self, case):
        from mc.checks import C16
        from mc import v1stubs
        v1, moved, kept = case['v1'], case['moved'], case['kept']
        home = v1stubs.expected_home(v1, moved)
        names = [moved, kept] if case['order'] == 0 else [kept, moved]
        text = ('V1TEST-MIB DEFINITIONS ::= BEGIN\nIMPORTS enterprises FROM RFC1155-SMI OBJECT-TYPE FROM RFC-1212 TRAP-TYPE FROM RFC-1215\n'
                '    %s FROM %s;\nroot OBJECT IDENTIFIER ::= { enterprises 4242 }\n'
                'tTable OBJECT-TYPE SYNTAX SEQUENCE OF TEntry ACCESS not-accessible STATUS mandatory DESCRIPTION "d" ::= { root 1 }\n'
                'tEntry OBJECT-TYPE SYNTAX TEntry ACCESS not-accessible STATUS mandatory DESCRIPTION "d" INDEX { %s } ::= { tTable 1 }\n'
                'TEntry ::= SEQUENCE { tVal INTEGER }\n'
                'tVal OBJECT-TYPE SYNTAX INTEGER ACCESS read-only STATUS mandatory DESCRIPTION "d" ::= { tEntry 1 }\n'
                'tTrap TRAP-TYPE ENTERPRISE root VARIABLES { %s, tVal } DESCRIPTION "d" ::= 3\nEND\n' % (
                    ', '.join(names), v1, ', '.join(names), ', '.join(reversed(names))))
        res, written = C16.compile_v({'V1TEST-MIB': text}, ['V1TEST-MIB'], 'json')
        sig = 'C06|smiv1-members|%s|%s+%s' % (v1, moved, kept)
        if res.get('V1TEST-MIB') != 'compiled':
            return 'failed', [('%s|not-compiled' % sig, '%r\n%s' % (getattr(res.get('V1TEST-MIB'), 'error', None), text))], 1
        doc = json.loads(written['V1TEST-MIB'])
        where = {moved: home[0], kept: v1stubs.expected_home(v1, kept)[0] if v1stubs.expected_home(v1, kept) else v1}
        vs = []
        got = [(i.get('module'), i.get('object')) for i in doc.get('tEntry', {}).get('indices', [])]
        want = [(where[n], n) for n in names]
        if got != want:
            vs.append(('%s|index-members-differ' % sig, 'INDEX %r, expected %r\n%s' % (got, want, text)))
        got = [(o.get('module'), o.get('object')) for o in doc.get('tTrap', {}).get('objects', [])]
        want = [(where[n], n) for n in reversed(names)] + [('V1TEST-MIB', 'tVal')]
        if got != want:
            vs.append(('%s|trap-variables-differ' % sig, 'VARIABLES %r, expected %r\n%s' % (got, want, text)))
        return 'ok' if not vs else 'bad', vs, 1


class TwoEditionsOfTheTableModule(object):
    name = 'two-editions-of-a-table-module-in-one-call'
    describe = ('SLOT-MIB exists twice in the source: in its own file and, as another edition with the same symbols but another SEQUENCE '
                '(what is a column in one edition is a scalar in the other, the INDEX differs), inside the file of MATE-MIB; every request '
                'order that makes one or the other come first; both back ends: tables, rows, columns, scalars and the INDEX of SLOT-MIB '
                'are those of the edition that was compiled (told by a marker node)')

    def edition(self, n):
        cols = ('slotIdx', 'slotShelf') if n == 0 else ('slotIdx', 'slotUptime')
        scalar = 'slotUptime' if n == 0 else 'slotShelf'
        parent = {cols[0]: 'slotEntry 1', cols[1]: 'slotEntry 2', scalar: 'slotRoot 5'}
        objs = ''.join('%s OBJECT-TYPE SYNTAX Integer32 MAX-ACCESS read-only STATUS current DESCRIPTION "d" ::= { %s }\n' % (name, parent[name])
                       for name in ('slotIdx', 'slotShelf', 'slotUptime'))
        return ('SLOT-MIB DEFINITIONS ::= BEGIN\nIMPORTS OBJECT-TYPE, Integer32, enterprises FROM SNMPv2-SMI;\n'
                'slotRoot OBJECT IDENTIFIER ::= { enterprises 40 }\nmarker OBJECT IDENTIFIER ::= { slotRoot %d }\n'
                'slotTable OBJECT-TYPE SYNTAX SEQUENCE OF SlotEntry MAX-ACCESS not-accessible STATUS current DESCRIPTION "d" ::= { slotRoot 1 }\n'
                'slotEntry OBJECT-TYPE SYNTAX SlotEntry MAX-ACCESS not-accessible STATUS current DESCRIPTION "d" INDEX { %s } ::= { slotTable 1 }\n'
                'SlotEntry ::= SEQUENCE { %s Integer32, %s Integer32 }\n%sEND\n' % (100 + n, cols[n], cols[0], cols[1], objs)), cols, scalar

    MATE = 'MATE-MIB DEFINITIONS ::= BEGIN\nIMPORTS enterprises FROM SNMPv2-SMI;\nmateRoot OBJECT IDENTIFIER ::= { enterprises 41 }\nEND\n'
    USER = ('USER-MIB DEFINITIONS ::= BEGIN\nIMPORTS slotRoot FROM SLOT-MIB mateRoot FROM MATE-MIB;\n'
            'userNode OBJECT IDENTIFIER ::= { slotRoot 9 }\nuserOther OBJECT IDENTIFIER ::= { mateRoot 9 }\nEND\n')

    def blocks(self, tier):
        return [{'backend': b} for b in ('json', 'pysnmp')]

    def cases(self, block, tier):
        for own in (0, 1):
            for mate_first in (0, 1):
                for req in (['USER-MIB'], ['MATE-MIB', 'USER-MIB'], ['SLOT-MIB', 'MATE-MIB'], ['MATE-MIB', 'SLOT-MIB']):
                    yield {'backend': block['backend'], 'own': own, 'mate_first': mate_first, 'req': req}

    def run_case(self, case):
        texts = env.base_texts()
        other = self.edition(1 - case['own'])[0]
        texts.update({'SLOT-MIB': self.edition(case['own'])[0], 'USER-MIB': self.USER,
                      'MATE-MIB': (self.MATE + other) if case['mate_first'] else (other + self.MATE)})
        sig = 'C06|two-editions|%s' % case['backend']
        parser = env.shared_parser('smiV2')
        parser.reset()
        resj, wj = env.compile_set(texts, case['req'], codegen='json', dialect=parser)
        parser.reset()
        res, written = env.compile_set(texts, case['req'], codegen=case['backend'], dialect=parser)
        if res.get('SLOT-MIB') != 'compiled' or resj.get('SLOT-MIB') != 'compiled':
            return 'notcompiled', [('%s|not-compiled' % sig, '%r' % (getattr(res.get('SLOT-MIB'), 'error', None),))], 2
        marker = json.loads(wj['SLOT-MIB']).get('marker', {}).get('oid', '')
        n = 0 if marker.endswith('.100') else 1
        _, cols, scalar = self.edition(n)
        want = {'slotTable': 'table', 'slotEntry': 'row', cols[0]: 'column', cols[1]: 'column', scalar: 'scalar'}
        vs = []
        if case['backend'] == 'json':
            doc = json.loads(written['SLOT-MIB'])
            for sym, nt in sorted(want.items()):
                if doc.get(sym, {}).get('nodetype') != nt:
                    vs.append(('%s|nodetype|%s-as-%s' % (sig, nt, doc.get(sym, {}).get('nodetype')), 'symbol %s, compiled edition %d' % (sym, n)))
            idx = [i.get('object') for i in doc.get('slotEntry', {}).get('indices') or []]
            if idx != [cols[n]]:
                vs.append(('%s|indices' % sig, 'INDEX { %s }, document %r' % (cols[n], idx)))
        else:
            b, ns, err = load_pysnmp({LOCAL: written['SLOT-MIB']}) if False else (None, None, None)
            rb = pysnmp_rec.RecBuilder()
            ns, err = pysnmp_rec.run_module(written['SLOT-MIB'], rb, 'SLOT-MIB')
            if err:
                vs.append(('%s|does-not-execute|%s' % (sig, err.split(':')[0]), err[:300]))
            else:
                for sym, nt in sorted(want.items()):
                    kind = getattr(ns.get(sym), 'kind', None)
                    if kind != refir.PYSNMP_OT[nt]:
                        vs.append(('%s|class|%s-as-%s' % (sig, nt, kind), 'symbol %s, compiled edition %d' % (sym, n)))
        return 'edition-%d' % n, vs, 2


FAMILIES = [Tables(), TablesWithTexts(), Lists(), Compliance(), ImportSpellings(), NamesOfEarlierImports(), ShippedTemplates(), Smiv1ForeignMembers(), TwoEditionsOfTheTableModule()]
