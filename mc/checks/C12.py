"""C12 - results depend only on the input: no state leaks, no hash-seed dependence.

histories  every sequence of <=2 (quick) / <=3 (thorough) inputs from a 20-input alphabet (valid modules with / without
           MODULE-IDENTITY and REVISION, with an enterprise OID, with a table, SMIv1 style, importing another input;
           lexical error on line 4, unterminated MACRO, text ending inside a comment, truncated text, syntax error after
           a multi-line string, duplicate symbol) fed to ONE parser, ONE symbol-table + code generator pair (JSON and
           pysnmp), ONE MibCompiler; every element is compared with the same input given to fresh objects: tree,
           generated text (comment block masked), MibInfo (name, identity, revision, oids, enterprise, compliance,
           imported), statuses, or error class and line number
repetition the same input three times on one object
hash seeds the single-input jobs run in subprocesses with PYTHONHASHSEED 0..7 (quick) / 0..63 (thorough); the masked
           outputs must be byte-identical across seeds
"""
import hashlib
import itertools
import json
import os
import re
import shutil
import subprocess
import sys
import tempfile

from mc import core, env
from mc.env import error

BOUNDS = {
    'quick': 'all sequences of <=2 inputs (20-input alphabet) on parser / generators / compiler; triple repetition; 8 hash seeds',
    'thorough': 'all sequences of <=3 inputs; 64 hash seeds',
}
ASSUMPTIONS = ['time stamp, host and user lines of generated output are masked',
               'hash seeds 0..63 are enumerated; a dependence that needs another collision pattern is not seen']

V_REV = """ALPHA-MIB DEFINITIONS ::= BEGIN
IMPORTS MODULE-IDENTITY, OBJECT-TYPE, Integer32, enterprises, Counter32, Gauge32, TimeTicks FROM SNMPv2-SMI
    DisplayString, TruthValue FROM SNMPv2-TC;
alphaModule MODULE-IDENTITY
    LAST-UPDATED "202001020000Z"
    ORGANIZATION "Org"
    CONTACT-INFO "Contact"
    DESCRIPTION "Alpha"
    REVISION "202001020000Z"
    DESCRIPTION "Second"
    REVISION "201901010000Z"
    DESCRIPTION "First"
    ::= { enterprises 1111 }
alphaObj OBJECT-TYPE SYNTAX Integer32 MAX-ACCESS read-only STATUS current DESCRIPTION "obj" ::= { alphaModule 1 }
alphaName OBJECT-TYPE SYNTAX DisplayString MAX-ACCESS read-only STATUS current DESCRIPTION "name" ::= { alphaModule 2 }
alphaFlag OBJECT-TYPE SYNTAX TruthValue MAX-ACCESS read-write STATUS current DESCRIPTION "flag" DEFVAL { true } ::= { alphaModule 3 }
END
"""
V_NOID = """BETA-MIB DEFINITIONS ::= BEGIN
IMPORTS OBJECT-TYPE, Integer32, mib-2 FROM SNMPv2-SMI;
betaRoot OBJECT IDENTIFIER ::= { mib-2 777 }
betaObj OBJECT-TYPE SYNTAX Integer32 (0..10) MAX-ACCESS read-only STATUS current DESCRIPTION "obj" ::= { betaRoot 1 }
END
"""
V_TBL = """GAMMA-MIB DEFINITIONS ::= BEGIN
IMPORTS OBJECT-TYPE, Integer32, enterprises, MODULE-IDENTITY FROM SNMPv2-SMI
    MODULE-COMPLIANCE, OBJECT-GROUP FROM SNMPv2-CONF;
gammaModule MODULE-IDENTITY
    LAST-UPDATED "202101010000Z" ORGANIZATION "Org" CONTACT-INFO "Contact" DESCRIPTION "Gamma, no revision clause"
    ::= { enterprises 2222 }
gammaTable OBJECT-TYPE SYNTAX SEQUENCE OF GammaEntry MAX-ACCESS not-accessible STATUS current DESCRIPTION "t" ::= { gammaModule 1 }
gammaEntry OBJECT-TYPE SYNTAX GammaEntry MAX-ACCESS not-accessible STATUS current DESCRIPTION "r" INDEX { gammaIndex } ::= { gammaTable 1 }
GammaEntry ::= SEQUENCE { gammaIndex Integer32, gammaValue Integer32 }
gammaIndex OBJECT-TYPE SYNTAX Integer32 MAX-ACCESS not-accessible STATUS current DESCRIPTION "i" ::= { gammaEntry 1 }
gammaValue OBJECT-TYPE SYNTAX Integer32 MAX-ACCESS read-only STATUS current DESCRIPTION "v" ::= { gammaEntry 2 }
gammaGroup OBJECT-GROUP OBJECTS { gammaValue } STATUS current DESCRIPTION "g" ::= { gammaModule 2 }
gammaCompliance MODULE-COMPLIANCE STATUS current DESCRIPTION "c" MODULE MANDATORY-GROUPS { gammaGroup } ::= { gammaModule 3 }
END
"""
V_V1 = """DELTA-MIB DEFINITIONS ::= BEGIN
IMPORTS enterprises, OBJECT-TYPE, Counter32, NOTIFICATION-TYPE FROM SNMPv2-SMI;
deltaRoot OBJECT IDENTIFIER ::= { enterprises 3333 }
deltaCount OBJECT-TYPE SYNTAX Counter32 ACCESS read-only STATUS mandatory DESCRIPTION "c" ::= { deltaRoot 1 }
deltaTrap TRAP-TYPE ENTERPRISE deltaRoot VARIABLES { deltaCount } DESCRIPTION "trap" ::= 5
END
"""
V_IMP = """EPSILON-MIB DEFINITIONS ::= BEGIN
IMPORTS OBJECT-TYPE, Integer32 FROM SNMPv2-SMI
    alphaModule, alphaObj FROM ALPHA-MIB;
epsRoot OBJECT IDENTIFIER ::= { alphaModule 50 }
epsObj OBJECT-TYPE SYNTAX Integer32 MAX-ACCESS read-only STATUS current DESCRIPTION "o" ::= { epsRoot 1 }
END
"""
V_NOENT = """ZETA-MIB DEFINITIONS ::= BEGIN
zetaRoot OBJECT IDENTIFIER ::= { 1 3 6 1 2 1 888 }
END
"""
E_LEX4 = """ETA-MIB DEFINITIONS ::= BEGIN
IMPORTS enterprises FROM SNMPv2-SMI;
etaRoot OBJECT IDENTIFIER ::= { enterprises 4444 }
etaBad OBJECT IDENTIFIER ::= { etaRoot $ 1 }
END
"""
E_MACRO = """THETA-MIB DEFINITIONS ::= BEGIN
thetaRoot OBJECT IDENTIFIER ::= { 1 3 6 1 4 1 5555 }
OBJECT-TYPE MACRO ::=
BEGIN
    TYPE NOTATION ::= "SYNTAX" type
    the macro body never finishes
"""
V_COMMENT = """IOTA-MIB DEFINITIONS ::= BEGIN
iotaRoot OBJECT IDENTIFIER ::= { 1 3 6 1 4 1 6666 }
END
-- the text ends inside this comment"""
E_TRUNC = """KAPPA-MIB DEFINITIONS ::= BEGIN
kappaRoot OBJECT IDENTIFIER ::= { 1 3 6 1 4 1 7777 }
kappaObj OBJECT-TYPE
    SYNTAX INTEGER
"""
E_SYN = """LAMBDA-MIB DEFINITIONS ::= BEGIN
lambdaRoot OBJECT-IDENTITY STATUS current DESCRIPTION "a
description
over
several lines" ::= { 1 3 6 1 4 1 8888 }
lambdaBad OBJECT IDENTIFIER := { lambdaRoot 1 }
END
"""
E_DUP = """MU-MIB DEFINITIONS ::= BEGIN
muRoot OBJECT IDENTIFIER ::= { 1 3 6 1 4 1 9999 }
muRoot OBJECT IDENTIFIER ::= { 1 3 6 1 4 1 9998 }
END
"""

E_UNKTYPE = """NU-MIB DEFINITIONS ::= BEGIN
IMPORTS OBJECT-TYPE FROM SNMPv2-SMI;
nuRoot OBJECT IDENTIFIER ::= { 1 3 6 1 4 1 1010 }
nuObj OBJECT-TYPE SYNTAX NowhereDefinedType MAX-ACCESS read-only STATUS current DESCRIPTION "o" ::= { nuRoot 1 }
END
"""
E_UNKPARENT = """XI-MIB DEFINITIONS ::= BEGIN
xiNode OBJECT IDENTIFIER ::= { nowhereDefinedParent 1 }
END
"""
E_GEN = """OMICRON-MIB DEFINITIONS ::= BEGIN
IMPORTS OBJECT-TYPE FROM SNMPv2-SMI;
omiRoot OBJECT IDENTIFIER ::= { 1 3 6 1 4 1 1212 }
OmiRow ::= SEQUENCE { omiCol INTEGER }
omiFlags OBJECT-TYPE SYNTAX BITS { a(0), b(1) } MAX-ACCESS read-only STATUS current DESCRIPTION "o" DEFVAL { { nosuchbit } } ::= { omiRoot 1 }
END
"""

V_MODE_INT = """PI-MIB DEFINITIONS ::= BEGIN
IMPORTS OBJECT-TYPE, enterprises FROM SNMPv2-SMI TEXTUAL-CONVENTION FROM SNMPv2-TC;
piRoot OBJECT IDENTIFIER ::= { enterprises 1313 }
Mode ::= TEXTUAL-CONVENTION STATUS current DESCRIPTION "m" SYNTAX INTEGER { off(0), on(1), auto(2) }
piMode OBJECT-TYPE SYNTAX Mode MAX-ACCESS read-write STATUS current DESCRIPTION "o" DEFVAL { auto } ::= { piRoot 1 }
END
"""
V_MODE_OCT = """RHO-MIB DEFINITIONS ::= BEGIN
IMPORTS OBJECT-TYPE, enterprises FROM SNMPv2-SMI TEXTUAL-CONVENTION FROM SNMPv2-TC;
rhoRoot OBJECT IDENTIFIER ::= { enterprises 1414 }
Mode ::= TEXTUAL-CONVENTION STATUS current DESCRIPTION "m" SYNTAX OCTET STRING (SIZE (1))
rhoMode OBJECT-TYPE SYNTAX Mode MAX-ACCESS read-write STATUS current DESCRIPTION "o" DEFVAL { '0A'H } ::= { rhoRoot 1 }
END
"""

V_SAMENAMES = """SIGMA-MIB DEFINITIONS ::= BEGIN
IMPORTS OBJECT-TYPE, Integer32, enterprises FROM SNMPv2-SMI;
sigmaRoot OBJECT IDENTIFIER ::= { enterprises 1515 }
gammaValue OBJECT-TYPE SYNTAX Integer32 MAX-ACCESS read-only STATUS current DESCRIPTION "scalar named like a column of GAMMA-MIB" ::= { sigmaRoot 1 }
gammaEntry OBJECT-TYPE SYNTAX Integer32 MAX-ACCESS read-only STATUS current DESCRIPTION "scalar named like a row of GAMMA-MIB" ::= { sigmaRoot 2 }
gammaTable OBJECT IDENTIFIER ::= { sigmaRoot 3 }
alphaObj OBJECT IDENTIFIER ::= { sigmaRoot 4 }
Mode ::= INTEGER (0..7)
sigmaMode OBJECT-TYPE SYNTAX Mode MAX-ACCESS read-write STATUS current DESCRIPTION "o" DEFVAL { 3 } ::= { sigmaRoot 5 }
END
"""

V_TWOENT = """TAU-MIB DEFINITIONS ::= BEGIN
IMPORTS enterprises, OBJECT-TYPE, Integer32 FROM SNMPv2-SMI;
tauProducts OBJECT IDENTIFIER ::= { enterprises 4242 }
tauLegacy OBJECT IDENTIFIER ::= { enterprises 9999 }
tauOne OBJECT-TYPE SYNTAX Integer32 MAX-ACCESS read-only STATUS current DESCRIPTION "o" ::= { tauProducts 1 }
tauTwo OBJECT-TYPE SYNTAX Integer32 MAX-ACCESS read-only STATUS current DESCRIPTION "o" ::= { tauLegacy 1 }
tauThree OBJECT IDENTIFIER ::= { tauLegacy 2 }
tauFour OBJECT IDENTIFIER ::= { enterprises 1717 3 }
END
"""
E_TWOPARENTS = """UPSILON-MIB DEFINITIONS ::= BEGIN
upsA OBJECT IDENTIFIER ::= { nowhereOne 1 }
upsB OBJECT IDENTIFIER ::= { nowhereTwo 2 }
upsC OBJECT IDENTIFIER ::= { nowhereThree 3 }
upsD OBJECT IDENTIFIER ::= { nowhereFour 4 }
END
"""

# the text of ALPHA-MIB as a later edition has it: the same module, the same symbols, registered under another arc
V_REV_MOVED = V_REV.replace('{ enterprises 1111 }', '{ enterprises 7777 }').replace('"Alpha"', '"Alpha, moved"')

INPUTS = [('V_REV_MOVED', 'ALPHA-MIB', V_REV_MOVED), ('V_TWOENT', 'TAU-MIB', V_TWOENT), ('E_TWOPARENTS', 'UPSILON-MIB', E_TWOPARENTS), ('V_SAMENAMES', 'SIGMA-MIB', V_SAMENAMES), ('V_MODE_INT', 'PI-MIB', V_MODE_INT), ('V_MODE_OCT', 'RHO-MIB', V_MODE_OCT), ('E_UNKTYPE', 'NU-MIB', E_UNKTYPE), ('E_UNKPARENT', 'XI-MIB', E_UNKPARENT), ('E_GEN', 'OMICRON-MIB', E_GEN),
          ('V_REV', 'ALPHA-MIB', V_REV), ('V_NOID', 'BETA-MIB', V_NOID), ('V_TBL', 'GAMMA-MIB', V_TBL), ('V_V1', 'DELTA-MIB', V_V1),
          ('V_IMP', 'EPSILON-MIB', V_IMP), ('V_NOENT', 'ZETA-MIB', V_NOENT), ('E_LEX4', 'ETA-MIB', E_LEX4),
          ('E_MACRO', 'THETA-MIB', E_MACRO), ('V_COMMENT', 'IOTA-MIB', V_COMMENT), ('E_TRUNC', 'KAPPA-MIB', E_TRUNC),
          ('E_SYN', 'LAMBDA-MIB', E_SYN), ('E_DUP', 'MU-MIB', E_DUP)]
TEXTS = dict((name, text) for label, name, text in INPUTS if label != 'V_REV_MOVED')
DIALECT = 'smiV1Relaxed'


def mask(text):
    if text is None:
        return None
    text = re.sub(r'"comments": \[[^\]]*\]', '"comments": []', text)
    text = re.sub(r'Notes\n-----\n.*?\n"""', 'Notes\n-----\n"""', text, flags=re.S)
    return text


def parse_obs(parser, text):
    try:
        return ('ok', repr(parser.parse(text)))
    except error.PySmiLexerError as exc:
        return ('err', type(exc).__name__, getattr(exc, 'lineno', None))
    except Exception as exc:
        return ('foreign', type(exc).__name__)


def info_obs(info):
    return {'name': info.name, 'identity': getattr(info, 'identity', None), 'revision': str(getattr(info, 'revision', None)),
            'oids': sorted(getattr(info, 'oids', ()) or ()), 'enterprise': getattr(info, 'enterprise', None),
            'compliance': list(getattr(info, 'compliance', ()) or ()), 'imported': list(getattr(info, 'imported', ()) or ())}


class Gens(object):
    """One symbol-table generator + one code generator, fed module after module (as MibCompiler does)."""

    def __init__(self, backend):
        self.sym = env.SymtableCodeGen()
        self.gen = env.make_codegen(backend)
        self.table = {}
        self.handed_back = []   # (label, MibInfo object, its observation at the time it was returned)
        for b in env.BASE_NAMES:
            self.feed(b, env.base_text(b), base=True)

    def feed(self, name, text, base=False):
        try:
            trees = env.parse(text, DIALECT)   # a clean parser state; the generators are the objects under study here
        except error.PySmiError as exc:
            return ('parse-error', type(exc).__name__)
        out = []
        for tree in trees:
            try:
                info, st = self.sym.genCode(tree, self.table)
                self.table[info.name] = st
                if base:
                    continue
                sinfo = info_obs(info)
                info, data = self.gen.genCode(tree, self.table, comments=['c'], genTexts=True)
                self.handed_back.append((name, info, json.dumps(info_obs(info), sort_keys=True)))
                out.append(('ok', sinfo['revision'], sinfo['imported'], json.dumps(info_obs(info), sort_keys=True),
                            hashlib.sha1(mask(data).encode()).hexdigest()))
            except error.PySmiError as exc:
                out.append(('error', type(exc).__name__))
            except Exception as exc:
                out.append(('foreign', type(exc).__name__, str(exc)[:60]))
        return tuple(out)


def make_compiler(backend, written):
    class W(object):
        def setOptions(self, **kw):
            return self

        def putData(self, name, data, comments=(), dryRun=False):
            written.append((name, hashlib.sha1(mask(data).encode()).hexdigest()))

        def getData(self, name):
            return ''
    comp = env.MibCompiler(env.fresh_parser(DIALECT), env.make_codegen(backend), W())
    texts = env.base_texts()
    texts.update(TEXTS)
    comp.addSources(env.DictReader(texts))
    comp.addSearchers(env.StubSearcher(*env.BASE_NAMES))
    comp._mc_texts = texts
    return comp


comp_last = [None]
WITH_MESSAGE = [False]   # the seed jobs also compare the text of error messages


def status_obs(res):
    out = {}
    for k, st in res.items():
        o = {'status': str(st)}
        if st == 'failed':
            o['error'] = type(getattr(st, 'error', None)).__name__
            o['lineno'] = getattr(getattr(st, 'error', None), 'lineno', None)
            if WITH_MESSAGE[0]:
                o['message'] = re.sub(r' at 0x[0-9a-f]+', '', str(getattr(getattr(st, 'error', None), 'msg', '')))
        for a in ('identity', 'revision', 'enterprise'):
            o[a] = str(getattr(st, a, None))
        o['oids'] = sorted(getattr(st, 'oids', ()) or ())
        o['compliance'] = list(getattr(st, 'compliance', ()) or ())
        out[k] = o
    return json.dumps(out, sort_keys=True)


def compile_obs(comp, written, name, text=None):
    """text: what the source holds under that name for the duration of this call (the file was edited in between)."""
    del written[:]
    texts = getattr(comp, '_mc_texts', None)
    old = texts.get(name) if texts is not None else None
    if text is not None and texts is not None:
        texts[name] = text
    try:
        res = comp.compile(name, genTexts=True)
    except Exception as exc:
        return ('escaped', type(exc).__name__)
    finally:
        if text is not None and texts is not None:
            texts[name] = old
    comp_last[0] = res
    return status_obs(res), tuple(sorted(written))


_fresh = {}


def fresh_obs(level, idx):
    key = (level, idx)
    if key not in _fresh:
        _, name, text = INPUTS[idx]
        if level == 'parser':
            _fresh[key] = parse_obs(env.fresh_parser(DIALECT), text)
        elif level.startswith('gens'):
            g = Gens(level.split(':')[1])
            if name == 'EPSILON-MIB':
                g.feed('ALPHA-MIB', V_REV, base=True)
            _fresh[key] = g.feed(name, text)
        else:
            w = []
            _fresh[key] = compile_obs(make_compiler(level.split(':')[1], w), w, name, text)
    return _fresh[key]


LEVELS = ['parser', 'gens:json', 'gens:pysnmp', 'compiler:json', 'compiler:pysnmp']


class Histories(object):
    name = 'histories'
    describe = ('every input sequence up to the bound on one parser / one generator pair / one compiler (JSON and pysnmp), each '
                'element compared with fresh objects')

    def blocks(self, tier):
        return [{'level': lv, 'first': i} for lv in LEVELS for i in range(len(INPUTS))]

    def cases(self, block, tier):
        n = 3 if tier == 'thorough' else 2
        yield {'level': block['level'], 'seq': [block['first']]}
        for ln in range(2, n + 1):
            for rest in itertools.product(range(len(INPUTS)), repeat=ln - 1):
                yield {'level': block['level'], 'seq': [block['first']] + list(rest)}
        yield {'level': block['level'], 'seq': [block['first']] * 3}

    def run_case(self, case):
        level, seq = case['level'], case['seq']
        vs = []
        obs = []
        if level == 'parser':
            p = env.fresh_parser(DIALECT)
            step = lambda i: parse_obs(p, INPUTS[i][2])
        elif level.startswith('gens'):
            g = Gens(level.split(':')[1])
            loaded = set()
            alpha_edition = [None]

            def step(i):
                _, name, text = INPUTS[i]
                if name == 'EPSILON-MIB' and alpha_edition[0] != 'V_REV':
                    g.feed('ALPHA-MIB', V_REV, base=True)   # (its dependency, in the edition the sources hold)
                    alpha_edition[0] = 'V_REV'
                if name == 'ALPHA-MIB':
                    alpha_edition[0] = INPUTS[i][0]
                return g.feed(name, text)
        else:
            w = []
            comp = make_compiler(level.split(':')[1], w)
            step = lambda i: compile_obs(comp, w, INPUTS[i][1], INPUTS[i][2])
        kept = []
        for pos, i in enumerate(seq):
            got = step(i)
            if level.startswith('compiler') and isinstance(got, tuple):
                kept.append((INPUTS[i][0], comp_last[0], got[0]))
            want = fresh_obs(level, i)
            obs.append(got)
            if got != want:
                prev = INPUTS[seq[pos - 1]][0] if pos else 'nothing'
                vs.append(('C12|history|%s|%s-after-%s' % (level, INPUTS[i][0], prev if len(set(seq)) > 1 or pos == 0 else 'itself'),
                           'sequence %r position %d\non the used object: %r\non fresh objects:  %r' % (
                               [INPUTS[j][0] for j in seq], pos, got, want)))
                break
        # what was handed back earlier must still read the same after later inputs went through the same object
        if level.startswith('gens') and not vs:
            for label, info, then in g.handed_back:
                now = json.dumps(info_obs(info), sort_keys=True)
                if now != then:
                    vs.append(('C12|history|%s|earlier-result-changed-retroactively' % level,
                               'sequence %r: the MibInfo returned for %s read %s when returned and reads %s now' % (
                                   [INPUTS[j][0] for j in seq], label, then, now)))
                    break
        if level.startswith('compiler') and not vs:
            for label, res, then in kept:
                now = status_obs(res)
                if now != then:
                    vs.append(('C12|history|%s|earlier-result-changed-retroactively' % level,
                               'sequence %r: the result of compile(%s) read %s when returned and reads %s now' % (
                                   [INPUTS[j][0] for j in seq], label, then, now)))
                    break
        return repr(obs[-1])[:200], vs, len(seq)


SEED_JOB = r'''
import sys, json, hashlib
sys.path.insert(0, %(verif)r); sys.path.insert(0, %(repo)r)
from mc.checks import C12
C12.WITH_MESSAGE[0] = True
out = {}
for backend in ('json', 'pysnmp'):
    for idx, (label, name, text) in enumerate(C12.INPUTS):
        w = []
        comp = C12.make_compiler(backend, w)
        obs = C12.compile_obs(comp, w, name, text)
        out['%%s:%%s' %% (backend, label)] = hashlib.sha1(repr(obs).encode()).hexdigest()
        if label in ('V_REV', 'V_TBL'):
            # the text itself, for diagnosis
            from mc import env
            res, written = env.compile_set({name: text}, [name], codegen=backend, dialect=C12.DIALECT, genTexts=True)
            out['%%s:%%s:text' %% (backend, label)] = C12.mask(written.get(name))
print(json.dumps(out, sort_keys=True))
'''


class HashSeeds(object):
    case_timeout = 600
    name = 'hash-seeds'
    describe = 'the single-input compile jobs of all 12 inputs x both back ends in a subprocess per PYTHONHASHSEED; outputs compared with seed 0'

    def blocks(self, tier):
        n = 64 if tier == 'thorough' else 8
        return [{'seed': s} for s in range(1, n)]

    def cases(self, block, tier):
        yield {'seed': block['seed']}

    def run_case(self, case):
        def job(seed):
            envv = dict(os.environ, PYTHONHASHSEED=str(seed), MC_KEEP_HASHSEED='1')
            r = subprocess.run([sys.executable, '-c', SEED_JOB % {'verif': core.VERIF, 'repo': core.REPO}], env=envv,
                               capture_output=True, text=True, cwd=core.VERIF)
            if r.returncode != 0:
                raise core.InternalError('seed job failed: %s' % r.stderr[-800:])
            return json.loads(r.stdout.strip().splitlines()[-1])
        base = job(0)
        other = job(case['seed'])
        vs = []
        for k in sorted(base):
            if base[k] != other.get(k) and not k.endswith(':text'):
                detail = ''
                tk = k + ':text'
                if tk in base and base[tk] != other.get(tk):
                    a, b = base[tk].splitlines(), (other.get(tk) or '').splitlines()
                    diff = [(x, y) for x, y in zip(a, b) if x != y][:6]
                    detail = 'first differing lines (seed 0 vs seed %d): %r' % (case['seed'], diff)
                vs.append(('C12|hash-seed|%s|output-depends-on-hash-seed' % k.split(':')[0],
                           'job %s differs between PYTHONHASHSEED=0 and %d\n%s' % (k, case['seed'], detail)))
        return json.dumps(sorted((k, v) for k, v in other.items() if not k.endswith(':text')))[:300], vs, 2 * len(INPUTS) * 2


OPTION_MIB = """OPTS-MIB DEFINITIONS ::= BEGIN
IMPORTS MODULE-IDENTITY, OBJECT-TYPE, Integer32, enterprises FROM SNMPv2-SMI;
optsModule MODULE-IDENTITY
    LAST-UPDATED "202001020000Z" ORGANIZATION "Org   with   gaps" CONTACT-INFO "Contact
    on two lines" DESCRIPTION "Module
    description"
    REVISION "202001020000Z" DESCRIPTION "Second
        revision"
    REVISION "201901010000Z" DESCRIPTION "First   revision"
    ::= { enterprises 5151 }
optsDelay OBJECT-TYPE SYNTAX Integer32 UNITS "milli
    seconds" MAX-ACCESS read-only STATUS current DESCRIPTION "Delay   description" REFERENCE "Some
    reference" ::= { optsModule 1 }
optsCount OBJECT-TYPE SYNTAX Integer32 UNITS "packets" MAX-ACCESS read-only STATUS current DESCRIPTION "Count" ::= { optsModule 2 }
END
"""


def _identity(symbol, text):
    return text


def _shout(symbol, text):
    return text.upper()


def _drop(symbol, text):
    return ''


OPTION_SETS = [('plain', {}), ('genTexts', {'genTexts': True}), ('identity-filter', {'textFilter': _identity}),
               ('shouting-filter', {'textFilter': _shout, 'genTexts': True}), ('dropping-filter', {'textFilter': _drop}),
               ('genTexts-off', {'genTexts': False}), ('stock-template-copy', {'dstTemplate': 'COPY'}),
               ('marker-template', {'dstTemplate': 'MARKER'}),
               # a template that has the FILE NAME of the marker template, lives in another directory and cannot be rendered
               ('broken-template-of-the-same-name', {'dstTemplate': 'BROKEN'})]


class OptionHistories(object):
    name = 'option-histories'
    prefix = 'C12'
    describe = ('ONE MibCompiler compiles the same module (UNITS, REVISION and DESCRIPTION texts with line breaks and runs of blanks) '
                'again and again with options drawn from 9 settings (nothing, genTexts on / off, identity / upper-casing / dropping '
                'text filter, a copy of the stock template in another directory, a one-line marker template, an unrenderable template of the same file name elsewhere): every sequence of '
                'length <=2 (3); each output equals what a fresh compiler gives for the same options; both back ends')

    def blocks(self, tier):
        return [{'backend': b, 'first': i} for b in ('json', 'pysnmp') for i in range(len(OPTION_SETS))]

    def cases(self, block, tier):
        n = 3 if tier == 'thorough' else 2
        yield {'backend': block['backend'], 'seq': [block['first']]}
        for ln in range(2, n + 1):
            for rest in itertools.product(range(len(OPTION_SETS)), repeat=ln - 1):
                yield {'backend': block['backend'], 'seq': [block['first']] + list(rest)}

    _tmpl = {}

    def templates(self, backend):
        import atexit
        import shutil
        import tempfile
        key = (backend, os.getpid())
        if key not in self._tmpl:
            mod = __import__('pysmi.codegen.%s' % ('jsondoc' if backend == 'json' else 'pysnmp'), fromlist=['x'])
            cls = mod.JsonCodeGen if backend == 'json' else mod.PySnmpCodeGen
            d = tempfile.mkdtemp(prefix='mcopt', dir=os.environ.get('VERIF_TMP') or ('/dev/shm' if os.path.isdir('/dev/shm') else None))
            copy = os.path.join(d, 'site-copy.j2')
            shutil.copy(os.path.join(os.path.dirname(mod.__file__), 'templates', cls.TEMPLATE_NAME), copy)
            marker = os.path.join(d, 'marker.j2')
            with open(marker, 'w') as f:
                f.write('MARKER {{ mib["meta"]["module"] if "meta" in mib else "?" }}\n')
            pid = os.getpid()
            atexit.register(lambda: os.getpid() == pid and shutil.rmtree(d, ignore_errors=True))
            os.mkdir(os.path.join(d, 'elsewhere'))
            broken = os.path.join(d, 'elsewhere', 'marker.j2')
            with open(broken, 'w') as f:
                f.write('BROKEN {{ mib["meta"]["no-such-key"]["deeper"] }}\n')
            self._tmpl[key] = {'COPY': copy, 'MARKER': marker, 'BROKEN': broken}
        return self._tmpl[key]

    def compile_with(self, comp, written, backend, opts):
        opts = dict(opts)
        if opts.get('dstTemplate'):
            opts['dstTemplate'] = self.templates(backend)[opts['dstTemplate']]
        del written[:]
        try:
            res = comp.compile('OPTS-MIB', rebuild=True, **opts)
        except Exception as exc:
            return ('escaped', type(exc).__name__, str(exc)[:80])
        st = res.get('OPTS-MIB')
        return (str(st), str(getattr(st, 'error', ''))[:120] if st == 'failed' else '', tuple(sorted(written)))

    def make(self, backend, written):
        class W(object):
            def setOptions(self, **kw):
                return self

            def putData(self, name, data, comments=(), dryRun=False):
                written.append((name, mask(data)))

            def getData(self, name):
                return ''
        comp = env.MibCompiler(env.fresh_parser('smiV2'), env.make_codegen(backend), W())
        texts = env.base_texts()
        texts['OPTS-MIB'] = OPTION_MIB
        comp.addSources(env.DictReader(texts))
        comp.addSearchers(env.StubSearcher(*env.BASE_NAMES))
        return comp

    _fresh = {}

    def fresh(self, backend, i):
        key = (backend, i, os.getpid())
        if key not in self._fresh:
            w = []
            self._fresh[key] = self.compile_with(self.make(backend, w), w, backend, OPTION_SETS[i][1])
        return self._fresh[key]

    def run_case(self, case):
        backend = case['backend']
        w = []
        comp = self.make(backend, w)
        vs = []
        got = None
        for pos, i in enumerate(case['seq']):
            got = self.compile_with(comp, w, backend, OPTION_SETS[i][1])
            want = self.fresh(backend, i)
            if got != want:
                prev = OPTION_SETS[case['seq'][pos - 1]][0] if pos else 'nothing'
                vs.append(('%s|option-history|%s|%s-after-%s' % (self.prefix, backend, OPTION_SETS[i][0], prev),
                           'sequence %r position %d\non the used compiler: %s\non a fresh compiler:  %s' % (
                               [OPTION_SETS[j][0] for j in case['seq']], pos, _short(got), _short(want))))
                break
        return repr(got)[:200], vs, len(case['seq'])


def _short(obs):
    s = repr(obs)
    return s if len(s) < 1500 else s[:700] + ' ... ' + s[-700:]


ROUTE_TC = """TC-MIB DEFINITIONS ::= BEGIN
IMPORTS TEXTUAL-CONVENTION FROM SNMPv2-TC;
Colour ::= INTEGER { red(1), green(2), blue(3) }
WarmColour ::= Colour { red(1) }
Flags ::= TEXTUAL-CONVENTION STATUS current DESCRIPTION "d" SYNTAX BITS { b0(0), b1(1), b2(2) }
Short ::= OCTET STRING (SIZE (0..8))
Shorter ::= Short (SIZE (0..4))
END
"""
ROUTE_USER = """USER-MIB DEFINITIONS ::= BEGIN
IMPORTS OBJECT-TYPE, enterprises FROM SNMPv2-SMI WarmColour, Colour, Flags, Shorter FROM TC-MIB;
userRoot OBJECT IDENTIFIER ::= { enterprises 4141 }
userWarm OBJECT-TYPE SYNTAX WarmColour MAX-ACCESS read-write STATUS current DESCRIPTION "d" DEFVAL { red } ::= { userRoot 1 }
userAny OBJECT-TYPE SYNTAX Colour { green(2), blue(3) } MAX-ACCESS read-write STATUS current DESCRIPTION "d" DEFVAL { blue } ::= { userRoot 2 }
userFlags OBJECT-TYPE SYNTAX Flags MAX-ACCESS read-write STATUS current DESCRIPTION "d" ::= { userRoot 3 }
userShort OBJECT-TYPE SYNTAX Shorter MAX-ACCESS read-write STATUS current DESCRIPTION "d" DEFVAL { "ab" } ::= { userRoot 4 }
END
"""
ROUTE_THIRD = """THIRD-MIB DEFINITIONS ::= BEGIN
IMPORTS OBJECT-TYPE, enterprises FROM SNMPv2-SMI WarmColour FROM TC-MIB userRoot FROM USER-MIB;
thirdWarm OBJECT-TYPE SYNTAX WarmColour { red(1) } MAX-ACCESS read-write STATUS current DESCRIPTION "d" DEFVAL { red } ::= { userRoot 9 }
END
"""


class Routes(object):
    name = 'same-module-by-different-routes'
    describe = ('a module of named types (a two-level enumeration, a BITS TC, a two-level SIZE chain), a module of objects with '
                'DEFVALs over them and a third one on top: every non-empty ordered request list over the three (15 routes) on a '
                'fresh compiler each, both back ends - the text written for a module is the same whichever route led to it')

    def blocks(self, tier):
        return [{'backend': b} for b in ('json', 'pysnmp')]

    def cases(self, block, tier):
        names = ['TC-MIB', 'USER-MIB', 'THIRD-MIB']
        routes = []
        for r in (1, 2, 3):
            for p in itertools.permutations(names, r):
                routes.append(list(p))
        yield {'backend': block['backend'], 'routes': routes}

    def run_case(self, case):
        seen = {}
        vs = []
        for route in case['routes']:
            res, written = env.compile_set({'TC-MIB': ROUTE_TC, 'USER-MIB': ROUTE_USER, 'THIRD-MIB': ROUTE_THIRD}, route,
                                           codegen=case['backend'], dialect=env.fresh_parser('smiV2'))
            for name, text in sorted(written.items()):
                key = hashlib.sha1(mask(text).encode()).hexdigest()
                if name in seen and seen[name][0] != key:
                    a, b = seen[name][2].splitlines(), mask(text).splitlines()
                    diff = [(x, y) for x, y in zip(a, b) if x != y][:3]
                    vs.append(('C12|routes|%s|%s-differs-between-routes' % (case['backend'], name),
                               'compile(%s) and compile(%s) write different texts for %s; first differing lines: %r' % (
                                   ', '.join(seen[name][1]), ', '.join(route), name, diff)))
                seen.setdefault(name, (key, route, mask(text)))
            for name in route:
                if res.get(name) != 'compiled':
                    vs.append(('C12|routes|%s|%s-%s' % (case['backend'], name, res.get(name)),
                               'route %r: %r' % (route, getattr(res.get(name), 'error', None))))
        dedup = {}
        for sig, d in vs:
            dedup.setdefault(sig, d)
        return repr(sorted((k, v[0][:8]) for k, v in seen.items())), list(dedup.items()), len(case['routes'])


class ClassInstances(object):
    name = 'instances-of-the-shipped-parser-classes'
    describe = ('three instances each of SmiV2Parser, SmiV1Parser, SmiV1CompatParser / SmiStarParser made in one process; six texts '
                '(sound, cut inside a module at two places, grammar error on line 7, lexical error on line 4, sound again) fed to '
                'them in every order of instances: what a text yields - tree or error class and line - is the same on every '
                'instance, and the line of a cut text is its last line')

    BODY = ('TEST-MIB DEFINITIONS ::= BEGIN\nIMPORTS enterprises FROM SNMPv2-SMI;\n\n'
            'a OBJECT IDENTIFIER ::= { enterprises 1 }\nb OBJECT IDENTIFIER ::= { a 2 }\n\n'
            'c OBJECT IDENTIFIER ::= { b 3 }\nd OBJECT IDENTIFIER ::= { c 4 }\n\ne OBJECT IDENTIFIER ::= { d 5 }\nEND\n')

    def texts(self):
        b = self.BODY
        return [('sound', b), ('cut-before-END', b[:b.index('END')]), ('cut-on-line-5', b[:b.index('b OBJECT') + 10]),
                ('grammar-error-on-line-7', b.replace('c OBJECT IDENTIFIER', 'c OBJECT OBJECT')),
                ('illegal-character-on-line-4', b.replace('a OBJECT IDENTIFIER', 'a OBJECT $ IDENTIFIER')), ('sound-again', b)]

    def blocks(self, tier):
        return [{'cls': c} for c in ('SmiV2Parser', 'SmiV1Parser', 'SmiV1CompatParser', 'SmiStarParser')]

    def cases(self, block, tier):
        for order in itertools.permutations(range(3)):
            yield {'cls': block['cls'], 'order': list(order)}

    def run_case(self, case):
        import pysmi.parser as P
        cls = getattr(P, case['cls'])
        inst = [cls() for _ in range(3)]
        vs = []
        seen = {}
        for label, text in self.texts():
            for i in case['order']:
                got = parse_obs(inst[i], text)
                if label in seen and seen[label] != got:
                    vs.append(('C12|class-instances|%s|%s-differs-between-instances' % (case['cls'], label),
                               'instance %d gives %r, another instance gave %r' % (i, got, seen[label])))
                seen.setdefault(label, got)
        nlines = {'cut-before-END': (10, 11), 'cut-on-line-5': (5, 6)}
        for label, ok in nlines.items():
            got = seen.get(label)
            line = got[-1] if isinstance(got, tuple) else None
            if not (isinstance(got, tuple) and got[0] in ('error', 'err') or 'Error' in repr(got)) or \
                    (isinstance(line, int) and line not in ok):
                vs.append(('C12|class-instances|%s|%s-line' % (case['cls'], label), repr(got)))
        dedup = {}
        for sig, d in vs:
            dedup.setdefault(sig, d)
        return repr(sorted(seen.items()))[:200], list(dedup.items()), 18


class FailingReaders(object):
    name = 'histories-over-readers-that-fail'
    describe = ('ONE compiler whose sources are real readers that cannot serve: a strict ZipReader over a missing / a damaged archive, '
                'a strict FileReader over a missing directory, a CallbackReader whose callback finds nothing - alone, or in front of '
                'a source that holds one of the modules; every sequence of <=3 requests over a held module, an importer of a module '
                'nobody holds and two absent names: the statuses of a request - class, text and module name of the error included - '
                'are those a fresh compiler returns for it, and statuses handed out earlier do not change afterwards')

    SOURCES = ['zip-missing', 'zip-damaged', 'dir-missing', 'callback-empty']
    NAMES = ['HELD-MIB', 'IMPORTER-MIB', 'NOPE-MIB', 'OTHER-MIB']
    TEXTS = {'HELD-MIB': 'HELD-MIB DEFINITIONS ::= BEGIN\nIMPORTS enterprises FROM SNMPv2-SMI;\nheld OBJECT IDENTIFIER ::= { enterprises 5 }\nEND\n',
             'IMPORTER-MIB': ('IMPORTER-MIB DEFINITIONS ::= BEGIN\nIMPORTS lost FROM LOST-MIB;\nimp OBJECT IDENTIFIER ::= { lost 5 }\nEND\n')}

    def blocks(self, tier):
        return [{'src': s, 'backed': b} for s in self.SOURCES for b in (0, 1)]

    def cases(self, block, tier):
        for ln in (2, 3):
            for seq in itertools.product(range(len(self.NAMES)), repeat=ln):
                yield dict(block, seq=list(seq))

    def make(self, case, root):
        from pysmi.reader import ZipReader, FileReader, CallbackReader
        kind = case['src']
        if kind == 'zip-missing':
            r = ZipReader(os.path.join(root, 'nowhere.zip'), ignoreErrors=False)
        elif kind == 'zip-damaged':
            with open(os.path.join(root, 'damaged.zip'), 'wb') as f:
                f.write(b'PK\x03\x04 this is no archive')
            r = ZipReader(os.path.join(root, 'damaged.zip'), ignoreErrors=False)
        elif kind == 'dir-missing':
            r = FileReader(os.path.join(root, 'nowhere'), ignoreErrors=False)
        else:
            r = CallbackReader(lambda name, ctx: '')
        # (the parser is not the subject here: one per process, its lexer rewound)
        parser = env.shared_parser(DIALECT)
        parser.reset()
        comp = env.MibCompiler(parser, env.make_codegen('json'), env.CaptureWriter())
        comp.addSearchers(env.StubSearcher(*env.BASE_NAMES))
        texts = env.base_texts()
        if case['backed']:
            texts.update(self.TEXTS)
        comp.addSources(r, env.DictReader(texts))
        return comp

    @staticmethod
    def obs(res):
        out = {}
        for k, st in res.items():
            e = getattr(st, 'error', None)
            out[k] = (str(st), type(e).__name__, re.sub(r' at 0x[0-9a-f]+|/[^ ]*/mcC12[^/ ]*', '', str(getattr(e, 'msg', ''))),
                      getattr(e, 'mibname', None) if e is not None else None)
        return out

    def run_case(self, case):
        base = os.environ.get('VERIF_TMP') or ('/dev/shm' if os.path.isdir('/dev/shm') else None)
        root = tempfile.mkdtemp(prefix='mcC12', dir=base)
        try:
            vs = []
            comp = self.make(case, root)
            handed = []
            for pos, ni in enumerate(case['seq']):
                name = self.NAMES[ni]
                try:
                    res = comp.compile(name, ignoreErrors=True)
                    got = self.obs(res)
                except Exception as exc:
                    res, got = None, ('escaped', type(exc).__name__)
                try:
                    want = self.obs(self.make(case, root).compile(name, ignoreErrors=True))
                except Exception as exc:
                    want = ('escaped', type(exc).__name__)
                sig = 'C12|failing-readers|%s%s' % (case['src'], '+backed' if case['backed'] else '')
                if got != want:
                    vs.append(('%s|request-%d-differs-from-a-fresh-compiler' % (sig, pos + 1),
                               'sequence %r: request %s gives %r, on a fresh compiler %r' % ([self.NAMES[i] for i in case['seq']], name, got, want)))
                handed.append((res, got))
            for pos, (res, got) in enumerate(handed):
                if res is not None and self.obs(res) != got:
                    vs.append(('%s|statuses-handed-out-earlier-changed' % sig,
                               'sequence %r: what request %d returned read %r then, %r now' % (
                                   [self.NAMES[i] for i in case['seq']], pos + 1, got, self.obs(res))))
            dedup = {}
            for sg, d in vs:
                dedup.setdefault(sg, d)
            return repr(handed[-1][1])[:300], list(dedup.items()), 2 * len(case['seq'])
        finally:
            shutil.rmtree(root, ignore_errors=True)


def _shared_cache_directory():
    from mc.checks import C17

    class SharedCacheDirectory(C17.SharedCacheDirectory):
        """What a parser yields does not depend on which parsers were built over the same cache directory before it."""
        prefix = 'C12'
        name = 'dialects-over-one-cache-directory'
    return SharedCacheDirectory()


class UnrelatedModulesInTheCall(object):
    name = 'unrelated-modules-in-one-call'
    describe = ('A-MIB names things it neither declares nor imports - a node in an OID DEFVAL, a node as OID parent, a type in a SYNTAX, '
                'a label in an enumeration DEFVAL, a row in AUGMENTS, an object in an OBJECTS list - and B-MIB, which A-MIB does not '
                'import, declares exactly those names: A-MIB alone, then A-MIB and B-MIB in one call in either order, then A-MIB alone '
                'again on the same compiler; both back ends: the status, error class and text of A-MIB are the same every time')

    LOOSE = {
        'oid-defval': 'a OBJECT-TYPE SYNTAX OBJECT IDENTIFIER MAX-ACCESS read-write STATUS current DESCRIPTION "d" DEFVAL { bNode } ::= { enterprises 1 }\n',
        'oid-parent': 'a OBJECT IDENTIFIER ::= { bNode 1 }\n',
        'type': 'a OBJECT-TYPE SYNTAX BType MAX-ACCESS read-write STATUS current DESCRIPTION "d" ::= { enterprises 1 }\n',
        'enum-defval': 'a OBJECT-TYPE SYNTAX INTEGER { x(1) } MAX-ACCESS read-write STATUS current DESCRIPTION "d" DEFVAL { bLabel } ::= { enterprises 1 }\n',
        'augments': ('aTable OBJECT-TYPE SYNTAX SEQUENCE OF AEntry MAX-ACCESS not-accessible STATUS current DESCRIPTION "d" ::= { enterprises 1 }\n'
                     'aEntry OBJECT-TYPE SYNTAX AEntry MAX-ACCESS not-accessible STATUS current DESCRIPTION "d" AUGMENTS { bEntry } ::= { aTable 1 }\n'
                     'AEntry ::= SEQUENCE { aCol INTEGER }\n'
                     'aCol OBJECT-TYPE SYNTAX INTEGER MAX-ACCESS read-only STATUS current DESCRIPTION "d" ::= { aEntry 1 }\n'),
        'objects': 'aNotif NOTIFICATION-TYPE OBJECTS { bObj } STATUS current DESCRIPTION "d" ::= { enterprises 1 }\n',
    }
    B = ('B-MIB DEFINITIONS ::= BEGIN\nIMPORTS OBJECT-TYPE, enterprises FROM SNMPv2-SMI;\nbNode OBJECT IDENTIFIER ::= { enterprises 2000 7 }\n'
         'BType ::= INTEGER { bLabel(5) }\n'
         'bTable OBJECT-TYPE SYNTAX SEQUENCE OF BEntry MAX-ACCESS not-accessible STATUS current DESCRIPTION "d" ::= { enterprises 2001 }\n'
         'bEntry OBJECT-TYPE SYNTAX BEntry MAX-ACCESS not-accessible STATUS current DESCRIPTION "d" INDEX { bObj } ::= { bTable 1 }\n'
         'BEntry ::= SEQUENCE { bObj INTEGER }\n'
         'bObj OBJECT-TYPE SYNTAX INTEGER MAX-ACCESS read-only STATUS current DESCRIPTION "d" ::= { bEntry 1 }\nEND\n')

    def blocks(self, tier):
        return [{'backend': b} for b in ('json', 'pysnmp')]

    def cases(self, block, tier):
        for k in sorted(self.LOOSE):
            yield {'backend': block['backend'], 'loose': k}

    def run_case(self, case):
        a = ('A-MIB DEFINITIONS ::= BEGIN\nIMPORTS OBJECT-TYPE, NOTIFICATION-TYPE, enterprises FROM SNMPv2-SMI;\n' + self.LOOSE[case['loose']] + 'END\n')
        w = env.CaptureWriter()
        parser = env.shared_parser(DIALECT)
        parser.reset()
        comp = env.MibCompiler(parser, env.make_codegen(case['backend']), w)
        texts = env.base_texts()
        texts.update({'A-MIB': a, 'B-MIB': self.B})
        comp.addSources(env.DictReader(texts))
        comp.addSearchers(env.StubSearcher(*env.BASE_NAMES))

        def obs(*req):
            del w.written[:]
            res = comp.compile(*req, ignoreErrors=True, rebuild=True)
            st = res.get('A-MIB')
            text = dict((n, d) for n, d, _ in w.written).get('A-MIB')
            return (str(st), type(getattr(st, 'error', None)).__name__, mask(text))
        runs = [('alone', obs('A-MIB')), ('with-B-after', obs('A-MIB', 'B-MIB')), ('with-B-before', obs('B-MIB', 'A-MIB')),
                ('alone-again', obs('A-MIB'))]
        vs = []
        sig = 'C12|unrelated-modules|%s|%s' % (case['loose'], case['backend'])
        for label, o in runs[1:]:
            if o != runs[0][1]:
                vs.append(('%s|%s-differs-from-alone' % (sig, label), 'alone %r, %s %r' % (runs[0][1][:2], label, o[:2])))
        return repr([o[:2] for _, o in runs]), vs, 4


class GrowingTree(object):
    name = 'source-tree-changing-between-calls'
    describe = ('ONE compiler over a real, recursive FileReader: FIRST-MIB is compiled, then the tree changes - a directory holding '
                'SECOND-MIB appears 1 to 4 levels down (below the top, below the directory FIRST-MIB came from, below a directory '
                'that existed and was empty), or an existing directory is replaced by another of the same name - and SECOND-MIB is '
                'asked for: same statuses as a fresh compiler over the same files gives')

    def blocks(self, tier):
        return [{'where': w} for w in ('top', 'beside-first', 'in-empty-dir', 'replaced-dir')]

    def cases(self, block, tier):
        for depth in (1, 2, 3, 4):
            for first_depth in (0, 1, 2):
                yield {'where': block['where'], 'depth': depth, 'first_depth': first_depth}

    def run_case(self, case):
        from pysmi.reader.localfile import FileReader
        base = os.environ.get('VERIF_TMP') or ('/dev/shm' if os.path.isdir('/dev/shm') else None)
        root = tempfile.mkdtemp(prefix='mcC12t', dir=base)

        def mod(name, arc):
            return '%s DEFINITIONS ::= BEGIN\nIMPORTS enterprises FROM SNMPv2-SMI;\nn%d OBJECT IDENTIFIER ::= { enterprises %d }\nEND\n' % (name, arc, arc)

        def make():
            parser = env.shared_parser(DIALECT)
            parser.reset()
            comp = env.MibCompiler(parser, env.make_codegen('json'), env.CaptureWriter())
            comp.addSources(FileReader(root, recursive=True), env.DictReader(env.base_texts()))
            comp.addSearchers(env.StubSearcher(*env.BASE_NAMES))
            return comp
        try:
            fdir = os.path.join(root, *['f%d' % i for i in range(case['first_depth'])])
            os.makedirs(fdir, exist_ok=True)
            with open(os.path.join(fdir, 'FIRST-MIB.txt'), 'w') as f:
                f.write(mod('FIRST-MIB', 1))
            os.makedirs(os.path.join(root, 'empty', 'inner'))
            os.makedirs(os.path.join(root, 'old', 'release'))
            with open(os.path.join(root, 'old', 'release', 'OTHER-MIB.txt'), 'w') as f:
                f.write(mod('OTHER-MIB', 3))
            comp = make()
            r1 = comp.compile('FIRST-MIB')
            start = {'top': root, 'beside-first': fdir, 'in-empty-dir': os.path.join(root, 'empty', 'inner'),
                     'replaced-dir': os.path.join(root, 'old')}[case['where']]
            if case['where'] == 'replaced-dir':
                shutil.rmtree(os.path.join(root, 'old', 'release'))
            target = os.path.join(start, *(['release'] + ['d%d' % i for i in range(case['depth'] - 1)]))
            os.makedirs(target, exist_ok=True)
            with open(os.path.join(target, 'SECOND-MIB.txt'), 'w') as f:
                f.write(mod('SECOND-MIB', 2))
            got = sorted((k, str(v)) for k, v in comp.compile('SECOND-MIB').items())
            want = sorted((k, str(v)) for k, v in make().compile('SECOND-MIB').items())
            vs = []
            if got != want:
                vs.append(('C12|growing-tree|%s|differs-from-a-fresh-compiler' % case['where'],
                           'depth %d below %s: long-lived %r, fresh %r (first call: %r)' % (case['depth'], case['where'], got, want, str(r1.get('FIRST-MIB')))))
            return repr(got), vs, 3
        finally:
            shutil.rmtree(root, ignore_errors=True)


FAMILIES = [Histories(), HashSeeds(), OptionHistories(), Routes(), ClassInstances(), FailingReaders(), _shared_cache_directory(), UnrelatedModulesInTheCall(), GrowingTree()]
