"""C07 - compile() accounts for every module; statuses match effects; errors are contained.

Worlds = import graph x request x deviations from the default environment x option vector; every world is run on
the real MibCompiler.compile() with the real parser, symbol-table and JSON generators (wrapped for fault
injection) and judged by mc.compileharness.judge (generic invariants + reference model).
"""
import itertools

from mc import compileharness as H

BOUNDS = {
    'quick': '2 user modules: all 16 import graphs x 4 requests x all 64 option vectors without deviation; 6 graphs x 4 '
             'requests x 64 option vectors x every single deviation (54 placements: source answers, 9 text defects, '
             'symbol-table / code-generator / writer errors, searcher and borrower answers)',
    'thorough': 'additionally: every pair of deviations (2 modules, 16 graphs, 4 requests, 12 option vectors); 3 modules: all '
                '512 graphs x 15 requests x 64 option vectors without deviation, 22 graphs x 15 requests x 12 option vectors '
                'x every single deviation',
}
ASSUMPTIONS = ['imports between user modules are listed but unused unless stated, so a failed dependency does not cascade',
               'component failures are signalled with PySmiError subclasses (the property covers only those)']

TEXT_KINDS = ['empty', 'comment', 'lexerr', 'synerr', 'truncated', 'dupsym', 'unktype', 'badrange', 'badimport', 'twomods', 'misnamed', 'bundle']


def graphs(n):
    pairs = [(a, b) for a in H.USER[:n] for b in H.USER[:n]]
    for r in range(len(pairs) + 1):
        for sub in itertools.combinations(pairs, r):
            yield [list(p) for p in sub]


def requests(n):
    for r in range(1, n + 1):
        for p in itertools.permutations(H.USER[:n], r):
            yield list(p)


def option_vectors(full=True):
    if full:
        for bits in itertools.product([False, True], repeat=len(H.OPTS)):
            o = dict(zip(H.OPTS, bits))
            yield dict((k, v) for k, v in o.items() if v != H.default_opts()[k])
        yield {'dstTemplate': True}
        yield {'dstTemplate': True, 'ignoreErrors': True, 'genTexts': True}
    else:
        # the three options that interact with failures in every combination, the others toggled one at a time
        for nd, ie, wm in itertools.product([False, True], repeat=3):
            o = {}
            if nd:
                o['noDeps'] = True
            if ie:
                o['ignoreErrors'] = True
            if not wm:
                o['writeMibs'] = False
            yield o
        yield {'rebuild': True}
        yield {'dryRun': True}
        yield {'genTexts': True}
        yield {'genTexts': True, 'ignoreErrors': True, 'noDeps': True}
        yield {'dstTemplate': True}
        yield {'dstTemplate': True, 'ignoreErrors': True}


def deviations(n):
    """Single departures from the default environment, module-keyed."""
    out = []
    for m in H.USER[:n]:
        out.append({'src': {m + '0': 'notfound'}})
        out.append({'src': {m + '0': 'error'}})
        out.append({'nsrc': 2, 'src': {m + '0': 'notfound', m + '1': 'ok'}})
        out.append({'nsrc': 2, 'src': {m + '0': 'error', m + '1': 'ok'}})
        for k in TEXT_KINDS:
            out.append({'text': {m: k}})
        out.append({'symerr': [m]})
        out.append({'generr': [m]})
        out.append({'wrerr': [m]})
        out.append({'emptygen': [m]})   # the generator's text for m is empty: it is handed over and reported like any other
        # a good module followed, in the same file, by one whose symbol table cannot be built (and the other way round)
        out.append({'text': {m: 'twomods'}, 'symerr': [m + 'X']})
        out.append({'text': {m: 'twomods'}, 'symerr': [m]})
        # a file named unlike its only module, and that module's symbol table cannot be built: the failure is the module's
        out.append({'text': {m: 'misnamed'}, 'symerr': [m + 'REAL']})
        # the first source's text does not parse, the second source answers the name with a file holding another module
        out.append({'nsrc': 2, 'src': {m + '0': 'ok', m + '1': 'ok'}, 'text': {m + '0': 'synerr', m + '1': 'misnamed'}})
        out.append({'nsrc': 2, 'src': {m + '0': 'ok', m + '1': 'ok'}, 'text': {m + '0': 'dupsym', m + '1': 'misnamed'}})
        out.append({'nsrc': 2, 'src': {m + '0': 'error', m + '1': 'ok'}, 'text': {m + '1': 'misnamed'}})
        for idx in (0, 1):
            for ans in ('fresh', 'error', 'normal'):
                s = [{'ans': {}}, {'ans': {}}]
                s[idx]['ans'][m] = ans
                out.append({'searchers': s})
        out.append({'searchers': [{'honours_rebuild': False, 'ans': {m: 'fresh'}}]})
        for idx in (0, 1):
            for ans in ('has', 'error', 'plainerror'):   # plainerror: what a strict reader raises for a directory it cannot open
                b = [{'texts': False, 'ans': {}}, {'texts': True, 'ans': {}}]
                b[idx]['ans'][m] = ans
                out.append({'borrowers': b})
    return out


def merge(a, b):
    """Combine two deviations; None if they touch the same point."""
    out = {}
    for d in (a, b):
        for k, v in d.items():
            if k in ('src', 'text'):
                tgt = out.setdefault(k, {})
                for kk, vv in v.items():
                    if kk in tgt:
                        return None
                    tgt[kk] = vv
            elif k in ('symerr', 'generr', 'wrerr', 'emptygen'):
                out[k] = sorted(set(out.get(k, []) + v))
            elif k == 'nsrc':
                out[k] = max(out.get(k, 1), v)
            elif k in ('searchers', 'borrowers'):
                if k in out:
                    if len(out[k]) != len(v):
                        return None
                    merged = []
                    for x, y in zip(out[k], v):
                        if x.get('honours_rebuild', True) != y.get('honours_rebuild', True) or x.get('texts') != y.get('texts'):
                            return None
                        ans = dict(x.get('ans', {}))
                        for kk, vv in y.get('ans', {}).items():
                            if kk in ans:
                                return None
                            ans[kk] = vv
                        z = dict(x)
                        z['ans'] = ans
                        merged.append(z)
                    out[k] = merged
                else:
                    out[k] = [dict(x, ans=dict(x.get('ans', {}))) for x in v]
    return out


QUICK_GRAPHS_2 = [[], [['A', 'B']], [['B', 'A']], [['A', 'B'], ['B', 'A']], [['A', 'A']], [['A', 'B'], ['B', 'B']]]


def graphs3_subset():
    A, B, C = 'A', 'B', 'C'
    base = [[], [[A, B]], [[A, B], [B, C]], [[A, B], [A, C]], [[A, C], [B, C]], [[A, B], [B, C], [A, C]],
            [[A, B], [B, C], [C, A]], [[A, B], [B, A]], [[A, A]], [[A, B], [B, B]], [[C, A]], [[C, B], [B, A]],
            [[A, B], [C, B]], [[B, A], [C, A]], [[A, B], [B, A], [A, C]], [[A, C], [C, A], [B, C]],
            [[A, A], [B, B], [C, C]], [[A, B], [B, C], [C, C]], [[B, C]], [[B, C], [C, B]], [[A, C]],
            [[A, B], [B, C], [C, A], [A, A]]]
    return base


def make_world(n, edges, req, dev, opts):
    w = {'n': n, 'edges': edges, 'req': req, 'used': 0}
    w.update(dev)
    if opts:
        w['opts'] = opts
    return w


def run(world, sigbase):
    obs = H.run_world(world)
    vs = H.judge(world, obs, sigbase)
    steps = len(obs['log'])
    return H.observation_key(obs), vs, steps


class NoDeviation(object):
    case_timeout = 10
    name = 'default-environment'
    describe = 'every import graph (self loops and cycles included) x every ordered request x all 64 option vectors, all components healthy'

    def blocks(self, tier):
        out = [{'n': 2, 'g': i} for i in range(16)]
        if tier == 'thorough':
            out += [{'n': 3, 'g': i} for i in range(512)]
        return out

    def cases(self, block, tier):
        g = list(graphs(block['n']))[block['g']]
        for req in requests(block['n']):
            for o in option_vectors(True):
                yield make_world(block['n'], g, req, {}, o)

    def run_case(self, case):
        return run(case, 'C07|default-env')


class OneDeviation(object):
    case_timeout = 10
    name = 'one-deviation'
    describe = ('every single deviation (source not-found / error / second source, 9 text defects, symbol-table, code-generator, '
                'writer errors, searcher answers at either list position, stub-like searcher, borrower answers of either '
                'flavour) for every module x graphs x requests x option vectors')

    def blocks(self, tier):
        out = [{'n': 2, 'g': g, 'd': d, 'full': 1} for g in range(len(QUICK_GRAPHS_2)) for d in range(len(deviations(2)))]
        if tier == 'thorough':
            out += [{'n': 3, 'g': g, 'd': d, 'full': 0} for g in range(len(graphs3_subset())) for d in range(len(deviations(3)))]
        return out

    def cases(self, block, tier):
        n = block['n']
        g = (QUICK_GRAPHS_2 if n == 2 else graphs3_subset())[block['g']]
        dev = deviations(n)[block['d']]
        for req in requests(n):
            for o in option_vectors(bool(block['full'])):
                yield make_world(n, g, req, dev, o)

    def run_case(self, case):
        return run(case, 'C07|one-deviation')


class TwoDeviations(object):
    case_timeout = 10
    name = 'two-deviations'
    describe = 'thorough: every compatible pair of deviations, 2 modules, all 16 graphs, 4 requests, 12 option vectors'

    def blocks(self, tier):
        if tier != 'thorough':
            return []
        nd = len(deviations(2))
        return [{'d1': i, 'g': g} for i in range(nd) for g in range(16)]

    def cases(self, block, tier):
        devs = deviations(2)
        g = list(graphs(2))[block['g']]
        for j in range(block['d1'] + 1, len(devs)):
            dev = merge(devs[block['d1']], devs[j])
            if dev is None:
                continue
            for req in requests(2):
                for o in option_vectors(False):
                    yield make_world(2, g, req, dev, o)

    def run_case(self, case):
        return run(case, 'C07|two-deviations')


class FailureAndRepair(object):
    case_timeout = 10
    name = 'failure-plus-second-deviation'
    describe = ('quick-tier slice of the pair space: a failure on one module (absent, reader error, syntax error, symbol-table, code '
                'generation, writer error) combined with a borrower answer (and the writer then failing on the borrowed module), a second '
                'failure, a fresh searcher answer or a writer error on either module; A imports B; all requests; all 64 option vectors')

    def blocks(self, tier):
        fails = [{'src': {'%s0': 'notfound'}}, {'src': {'%s0': 'error'}}, {'text': {'%s': 'synerr'}}, {'symerr': ['%s']},
                 {'generr': ['%s']}, {'wrerr': ['%s']}]
        out = []
        for fi in range(len(fails)):
            for m1 in 'AB':
                for part in range(6):
                    out.append({'f': fi, 'm1': m1, 'part': part})
        return out

    def _fail(self, fi, m):
        import json
        fails = [{'src': {'%s0': 'notfound'}}, {'src': {'%s0': 'error'}}, {'text': {'%s': 'synerr'}}, {'symerr': ['%s']},
                 {'generr': ['%s']}, {'wrerr': ['%s']}]
        return json.loads(json.dumps(fails[fi]).replace('%s', m))

    def cases(self, block, tier):
        first = self._fail(block['f'], block['m1'])
        seconds = []
        for m2 in 'AB':
            for idx in (0, 1):
                b = [{'texts': False, 'ans': {}}, {'texts': True, 'ans': {}}]
                b[idx]['ans'][m2] = 'has'
                seconds.append({'borrowers': b})
            seconds.append({'searchers': [{'ans': {m2: 'fresh'}}]})
            seconds.append({'borrowers': [{'texts': False, 'ans': {m2: 'hasempty'}}, {'texts': True, 'ans': {m2: 'hasempty'}}]})
            # a borrower that fails (reader error / the package's plain error) in front of one that has the copy
            for bad in ('error', 'plainerror'):
                seconds.append({'borrowers': [{'texts': False, 'ans': {m2: bad}}, {'texts': False, 'ans': {m2: 'has'}}]})
            for fi in range(6):
                seconds.append(self._fail(fi, m2))
        for si, sec in enumerate(seconds):
            if si % 6 != block['part']:
                continue
            dev = merge(first, sec)
            if dev is None:
                continue
            for req in requests(2):
                for o in option_vectors(True):
                    yield make_world(2, [['A', 'B']], req, dev, o)
            if 'borrowers' in sec:
                # three deviations: the failure, a borrower that has the module, and a searcher that calls the (borrowed) copy
                # in the destination up to date - what a second run over the same destination meets
                for ans in sec['borrowers']:
                    for m2, a in ans.get('ans', {}).items():
                        if a != 'has':
                            continue
                        for honours in (True, False):
                            dev3 = merge(dev, {'searchers': [{'honours_rebuild': honours, 'ans': {m2: 'fresh'}}]})
                            if dev3 is None:
                                continue
                            for req in requests(2):
                                for o in option_vectors(False):
                                    yield make_world(2, [['A', 'B']], req, dev3, o)
                # three deviations: the failure, a borrower that has the module, and the writer failing on that very module
                for ans in sec['borrowers']:
                    for m2, a in ans.get('ans', {}).items():
                        if a != 'has':
                            continue
                        dev3 = merge(dev, {'wrerr': [m2]})
                        if dev3 is None or dev3 == dev:
                            continue
                        for req in requests(2):
                            for o in option_vectors(False):
                                yield make_world(2, [['A', 'B']], req, dev3, o)
                # three deviations: the failure, a borrower answer, and a second failure on the other module
                other = 'B' if block['m1'] == 'A' else 'A'
                for fi in range(6):
                    dev3 = merge(dev, self._fail(fi, other))
                    if dev3 is None:
                        continue
                    for req in requests(2):
                        for o in option_vectors(False):
                            yield make_world(2, [['A', 'B']], req, dev3, o)

    def run_case(self, case):
        return run(case, 'C07|failure-plus')


class FileNamesVsModuleNames(object):
    case_timeout = 10
    name = 'file-names-that-are-other-modules-names'
    describe = ('3 names A, B, C over 2 sources: a file may hold its own module, ONLY a copy of the next module (file A holds module '
                'B ...), its own module plus such a copy or a copy of the previous module, or a module named unlike the file - sound or '
                'broken; no imports / a chain / A importing both others; every assignment with '
                '<=2 of the 6 (source, name) slots off the default x every ordered request of 1-2 names x ignoreErrors: requested '
                'names are FILE names (each file asked for is read), imported names are MODULE names')

    KINDS = ['absent', 'healthy', 'only', 'plus', 'misnamed', 'misnamedbroken', 'dupsym',
             # ... plus a copy of the PREVIOUS module (file C holds C and B: imports are looked up in alphabetical order, so B has
             # been asked for - and found nowhere - by the time the file that carries it is read)
             'plusprev']
    SLOTS = ['A0', 'B0', 'C0', 'A1', 'B1', 'C1']
    DEFAULT = {'A0': 'healthy', 'B0': 'healthy', 'C0': 'healthy', 'A1': 'absent', 'B1': 'absent', 'C1': 'absent'}
    NEXT = {'A': 'B', 'B': 'C', 'C': 'A'}
    PREV = {'A': 'C', 'B': 'A', 'C': 'B'}

    def blocks(self, tier):
        out = [{'dev': []}]
        for sl in self.SLOTS:
            for k in self.KINDS:
                if k != self.DEFAULT[sl]:
                    out.append({'dev': [[sl, k]]})
        return out

    def cases(self, block, tier):
        assigns = []
        base = dict(self.DEFAULT)
        for sl, k in block['dev']:
            base[sl] = k
        assigns.append(base)
        if block['dev']:
            first = block['dev'][0][0]
            for sl in self.SLOTS[self.SLOTS.index(first) + 1:]:
                for k in self.KINDS:
                    if k != self.DEFAULT[sl]:
                        a = dict(base)
                        a[sl] = k
                        assigns.append(a)
        reqs = [list(p) for r in (1, 2) for p in itertools.permutations('ABC', r)]
        for a in assigns:
            src, text = {}, {}
            for sl, k in a.items():
                m = sl[0]
                if k == 'absent':
                    src[sl] = 'notfound'
                    continue
                src[sl] = 'ok'
                text[sl] = {'only': 'only' + self.NEXT[m], 'plus': 'plus' + self.NEXT[m], 'plusprev': 'plus' + self.PREV[m]}.get(k, k)
            for edges in ([], [['A', 'B']], [['A', 'B'], ['B', 'C']], [['A', 'B'], ['A', 'C']]):
                for req in reqs:
                    for ie in (False, True):
                        w = {'n': 3, 'edges': edges, 'used': 0, 'req': req, 'nsrc': 2, 'src': dict(src), 'text': dict(text)}
                        if ie:
                            w['opts'] = {'ignoreErrors': True}
                        yield w

    def run_case(self, case):
        return run(case, 'C07|file-vs-module-names')


class SeveralPerFile(object):
    """Files that hold several modules, across two sources: a broken module next to a sound file mate (either order), two copies
    of one module in a file (broken + sound, either order), a file that carries a copy - sound or broken - of ANOTHER module,
    a module that exists both as a file of its own and as a file mate.  Up to two of the four (source, file name) slots
    deviate from 'source 0 holds a healthy A and a healthy B'."""
    case_timeout = 10
    name = 'several-modules-per-file'
    prefix = 'C07'
    describe = ('2 sources x file names A, B; each (source, name) slot one of: absent, healthy, broken module + sound mate (2 orders), '
                'broken + sound copy of the same module (2 orders), healthy + sound / broken copy of the OTHER module, duplicate '
                'symbol, two sound modules, unparsable text, reader error, only a copy of the other module; every assignment with <=2 slots off the default (3 slots: without noDeps and borrowers in the quick tier) x A imports B or not (used or only '
                'listed) x 4 requests x ignoreErrors x noDeps x no borrower / borrower holding A / holding B')

    KINDS = ['absent', 'healthy', 'brokenfirst', 'brokenlast', 'copies-bs', 'copies-sb', 'plus', 'brokenplus', 'dupsym', 'twomods',
             # the file of that name cannot be used at all: its text does not parse / the source fails on the name
             'synerr', 'error',
             # the file holds a sound copy of the OTHER module and nothing else
             'only']
    SLOTS = ['A0', 'B0', 'A1', 'B1']
    DEFAULT = {'A0': 'healthy', 'B0': 'healthy', 'A1': 'absent', 'B1': 'absent'}

    def blocks(self, tier):
        out = [{'dev': []}]
        for i, sl in enumerate(self.SLOTS):
            for k in self.KINDS:
                if k != self.DEFAULT[sl]:
                    out.append({'dev': [[sl, k]]})
        for (i, a), (j, b) in itertools.combinations(list(enumerate(self.SLOTS)), 2):
            for ka in self.KINDS:
                if ka == self.DEFAULT[a]:
                    continue
                out.append({'dev': [[a, ka], [b, None]]})   # the second slot's kinds are the cases of the block
        # three slots off the default (a failure that belongs to a module read from ANOTHER file, a source failing on the name,
        # a later source answering the name with other modules ...): quick without noDeps and borrowers
        for (i, a), (j, b), (k, c) in itertools.combinations(list(enumerate(self.SLOTS)), 3):
            for ka in self.KINDS:
                for kb in self.KINDS:
                    if ka != self.DEFAULT[a] and kb != self.DEFAULT[b]:
                        out.append({'dev': [[a, ka], [b, kb], [c, None]], 'narrow': tier != 'thorough'})
        return out

    def worlds(self, assign, narrow=False):
        src, text = {}, {}
        for sl, k in assign.items():
            m, sidx = sl[0], int(sl[1])
            other = 'B' if m == 'A' else 'A'
            if k == 'absent':
                src[sl] = 'notfound'
                continue
            if k == 'error':
                src[sl] = 'error'
                continue
            src[sl] = 'ok'
            text[sl] = {'plus': 'plus' + other, 'brokenplus': 'brokenplus' + other, 'only': 'only' + other}.get(k, k)
        for edges, used in (([], 0), ([['A', 'B']], 0), ([['A', 'B']], 1)):
            for req in (['A'], ['B'], ['A', 'B'], ['B', 'A']):
                for ie in (False, True):
                    for nd in ((False,) if narrow else (False, True)):
                        for bor in ((None,) if narrow else (None, 'A', 'B')):
                            w = {'n': 2, 'edges': edges, 'used': used, 'req': req, 'nsrc': 2, 'src': dict(src), 'text': dict(text),
                                 'variant': {'A0': 0, 'A1': 1, 'B0': 0, 'B1': 1}}
                            o = {}
                            if ie:
                                o['ignoreErrors'] = True
                            if nd:
                                o['noDeps'] = True
                            if o:
                                w['opts'] = o
                            if bor:
                                w['borrowers'] = [{'texts': False, 'ans': {bor: 'has'}}]
                            if self.select(w):
                                yield w

    def select(self, world):
        return True

    def cases(self, block, tier):
        dev = block['dev']
        if dev and dev[-1][1] is None:
            sl = dev[-1][0]
            for k in self.KINDS:
                if k == self.DEFAULT[sl]:
                    continue
                assign = dict(self.DEFAULT)
                for sl0, k0 in dev[:-1]:
                    assign[sl0] = k0
                assign[sl] = k
                for w in self.worlds(assign, block.get('narrow', False)):
                    yield w
        else:
            assign = dict(self.DEFAULT)
            for sl, k in dev:
                assign[sl] = k
            for w in self.worlds(assign):
                yield w

    def extra(self, world, obs, sigbase):
        return []

    def run_case(self, case):
        sigbase = '%s|several-per-file' % self.prefix
        obs = H.run_world(case)
        vs = H.judge(case, obs, sigbase) + self.extra(case, obs, sigbase)
        return H.observation_key(obs), vs, len(obs['log'])


# --------------------------------------------------------------------------- real readers, adversarial octets

OCTETS = [
    ('ascii', b'-- plain\n'), ('latin1-in-comment', b'-- caf\xe9\n'), ('bad-utf8-in-text', None), ('utf8', '-- caf\u00e9\n'.encode('utf-8')),
    ('bom', b'\xef\xbb\xbf'), ('nul', b'\x00'), ('lone-continuation', b'-- \x80\x80\n'), ('truncated-sequence', b'-- \xe2\x82\n'),
    ('utf16-bom', b'\xff\xfe'), ('form-feed', b'\x0c\n'), ('ctrl-z-at-end', None),
    # legal endings that leave the lexer in a state of its own: the next file must not notice
    ('comment-without-line-end-at-end', None), ('cr-at-end', None),
    # broken endings inside a skipped section
    ('ends-inside-macro', None), ('ends-inside-exports', None), ('ends-inside-choice', None),
]
LEGAL_ENDINGS = ('comment-without-line-end-at-end', 'cr-at-end')


class FilesOnDisk(object):
    case_timeout = 20
    name = 'files-on-disk'
    describe = ('module A imports module B, both files in a directory (and in a ZIP archive) read by the REAL FileReader / ZipReader; '
                'one of the files carries adversarial octets (Latin-1, invalid / truncated UTF-8, BOMs, NUL, form feed, Ctrl-Z) at '
                'its start, inside a description or at its end: compile() returns a status for A and B, whatever the octets')

    def blocks(self, tier):
        return [{'kind': k, 'victim': v} for k in ('dir', 'zip') for v in ('A', 'B')]

    def cases(self, block, tier):
        for i in range(len(OCTETS)):
            for ie in (False, True):
                yield {'kind': block['kind'], 'victim': block['victim'], 'oct': i, 'ie': ie}

    def run_case(self, case):
        import os
        import shutil
        import tempfile
        import zipfile
        from mc import env
        from pysmi.reader.localfile import FileReader
        from pysmi.reader.zipreader import ZipReader
        label, blob = OCTETS[case['oct']]
        w = {'n': 2, 'edges': [['A', 'B']], 'used': 1}
        files = {}
        for m in ('A', 'B'):
            data = H.module_text(w, m).encode('ascii')
            if m == case['victim']:
                if label == 'bad-utf8-in-text':
                    data = data.replace(b'END', b'z%s OBJECT-IDENTITY STATUS current DESCRIPTION "bad \xc3\x28 \xff octets" ::= { x%s 9 }\nEND'
                                        % (m.encode(), m.encode()))
                elif label == 'ctrl-z-at-end':
                    data = data + b'\x1a'
                elif label == 'comment-without-line-end-at-end':
                    data = data.rstrip(b'\n') + b' -- the end'
                elif label == 'cr-at-end':
                    data = data.rstrip(b'\n') + b'\r'
                elif label.startswith('ends-inside-'):
                    data = data.replace(b'END', {'macro': b'OBJECT-TYPE MACRO ::= BEGIN never closed', 'exports': b'EXPORTS a, b',
                                                 'choice': b'T ::= CHOICE { a INTEGER'}[label[12:]])
                else:
                    data = blob + data
            files[m] = data
        for b in env.BASE_NAMES:
            files[b] = env.base_text(b).encode('utf-8')
        files['GOOD'] = b'GOOD DEFINITIONS ::= BEGIN\nIMPORTS enterprises FROM SNMPv2-SMI;\ngood OBJECT IDENTIFIER ::= { enterprises 77 }\nEND\n'
        base = os.environ.get('VERIF_TMP') or ('/dev/shm' if os.path.isdir('/dev/shm') else None)
        d = tempfile.mkdtemp(prefix='mcC07', dir=base)
        try:
            if case['kind'] == 'dir':
                for m, data in files.items():
                    with open(os.path.join(d, m + '.mib'), 'wb') as f:
                        f.write(data)
                reader = FileReader(d)
            else:
                zp = os.path.join(d, 'mibs.zip')
                with zipfile.ZipFile(zp, 'w') as z:
                    for m, data in sorted(files.items()):
                        z.writestr(m + '.mib', data)
                reader = ZipReader(zp)
            wr = env.CaptureWriter()
            comp = env.MibCompiler(env.fresh_parser('smiV2'), env.make_codegen('json'), wr)
            comp.addSources(reader)
            comp.addSearchers(env.StubSearcher(*env.BASE_NAMES))
            sig = 'C07|files-on-disk|%s|%s' % (case['kind'], label)
            try:
                res = comp.compile('A', 'GOOD', ignoreErrors=case['ie'])
            except Exception as exc:
                return 'escaped', [('%s|exception-escapes-compile|%s' % (sig, type(exc).__name__), '%r\nfile %s: %r' % (
                    exc, case['victim'], files[case['victim']][:200]))], 1
            vs = []
            if label in LEGAL_ENDINGS:
                for m in ('A', 'B'):
                    if res.get(m) != 'compiled':
                        vs.append(('%s|sound-module-not-compiled' % sig, '%s: %r %r' % (m, res.get(m), getattr(res.get(m), 'error', None))))
            if label.startswith('ends-inside-') and case['victim'] == 'B' and case['ie'] and res.get('A') != 'failed':
                pass
            for m in (('A', 'B') if case['victim'] == 'B' else ('A',)):   # B is reachable only through a parsed A
                if str(res.get(m)) not in H.STATUSES:
                    vs.append(('%s|module-without-status' % sig, '%s: %r in %r' % (m, res.get(m), dict(res))))
            written = [n for n, _, _ in wr.written]
            # the sound module requested after the victim: compiled, or unprocessed when something failed and errors count
            bad = any(str(res.get(m)) in ('failed', 'missing') for m in ('A', 'B'))
            want_good = 'unprocessed' if (bad and not case['ie']) else 'compiled'
            if str(res.get('GOOD')) != want_good:
                vs.append(('%s|sound-module-%s-where-%s' % (sig, res.get('GOOD'), want_good),
                           '%r %r' % (dict((k, str(v)) for k, v in res.items()), getattr(res.get('GOOD'), 'error', None))))
            for m in ('A', 'B', 'GOOD'):
                if (res.get(m) == 'compiled') != (written.count(m) == 1):
                    vs.append(('%s|status-and-hand-over-disagree' % sig, '%s: %r, written %r' % (m, res.get(m), written)))
            return repr(sorted((k, str(v)) for k, v in res.items())), vs, 1
        finally:
            shutil.rmtree(d, ignore_errors=True)



# --------------------------------------------------------------------------- semantic defects inside one MIB

HDR = 'A DEFINITIONS ::= BEGIN\nIMPORTS OBJECT-TYPE, MODULE-COMPLIANCE, OBJECT-GROUP, enterprises FROM SNMPv2-SMI;\n'
OT = 'x OBJECT-TYPE SYNTAX INTEGER MAX-ACCESS read-only STATUS current DESCRIPTION "d" %s ::= { enterprises 1 }\n'
ODD = [
    ('oid-cycle-of-two', 'a OBJECT IDENTIFIER ::= { b 1 }\nb OBJECT IDENTIFIER ::= { a 1 }\n'),
    ('oid-cycle-of-one', 'a OBJECT IDENTIFIER ::= { a 1 }\n'),
    ('oid-cycle-of-three', 'a OBJECT IDENTIFIER ::= { c 1 }\nb OBJECT IDENTIFIER ::= { a 1 }\nc OBJECT IDENTIFIER ::= { b 1 }\n'),
    ('oid-below-a-type', 'T ::= INTEGER\nb OBJECT IDENTIFIER ::= { T 1 }\n'),
    ('oid-below-an-imported-type', 'b OBJECT IDENTIFIER ::= { OBJECT-TYPE 1 }\n'),
    ('augments-a-number', OT % 'AUGMENTS { 10 }'),
    ('index-a-number', OT % 'INDEX { 1 }'),
    ('index-implied-number', OT % 'INDEX { IMPLIED 1 }'),
    ('index-name-and-number', OT % 'INDEX { x, 1 }'),
    ('mandatory-group-a-number', 'c MODULE-COMPLIANCE STATUS current DESCRIPTION "d" MODULE MANDATORY-GROUPS { 1 } ::= { enterprises 2 }\n'),
    ('group-a-number', 'c MODULE-COMPLIANCE STATUS current DESCRIPTION "d" MODULE GROUP 11 DESCRIPTION "x" ::= { enterprises 2 }\n'),
    ('objects-a-number', 'g OBJECT-GROUP OBJECTS { 1 } STATUS current DESCRIPTION "d" ::= { enterprises 3 }\n'),
    ('type-cycle-of-two', 'T ::= U\nU ::= T\n' + OT.replace('INTEGER', 'T') % 'DEFVAL { 1 }'),
    ('type-of-itself', 'T ::= T\n' + OT.replace('INTEGER', 'T') % 'DEFVAL { 1 }'),
    ('defval-unknown-label', OT % 'DEFVAL { nowhere }'),
    ('oid-unknown-parent', 'b OBJECT IDENTIFIER ::= { nowhere 1 }\n'),
    ('deep-alias-chain', ''.join('T%d ::= T%d\n' % (i, i + 1) for i in range(100)) + 'T100 ::= INTEGER\n'
     + OT.replace('INTEGER', 'T0') % 'DEFVAL { 1 }'),
    ('deep-oid-chain', 'n0 OBJECT IDENTIFIER ::= { enterprises 5 }\n'
     + ''.join('n%d OBJECT IDENTIFIER ::= { n%d 1 }\n' % (i + 1, i) for i in range(100))),
    # chains longer than the interpreter's stack is deep
    ('deep-alias-chain-of-1500', ''.join('T%d ::= T%d\n' % (i, i + 1) for i in range(1500)) + 'T1500 ::= INTEGER\n'
     + OT.replace('INTEGER', 'T0') % 'DEFVAL { 1 }'),
    ('deep-oid-chain-of-1500', 'n0 OBJECT IDENTIFIER ::= { enterprises 5 }\n'
     + ''.join('n%d OBJECT IDENTIFIER ::= { n%d 1 }\n' % (i + 1, i) for i in range(1500))),
    # an object whose SYNTAX is an in-line SEQUENCE (the grammar takes a row type there)
    ('inline-sequence-syntax', 'r OBJECT-TYPE SYNTAX SEQUENCE { c INTEGER } MAX-ACCESS not-accessible STATUS current DESCRIPTION "d" '
                               '::= { enterprises 8 }\n'),
    ('inline-sequence-syntax-with-index', 'r OBJECT-TYPE SYNTAX SEQUENCE { c INTEGER, d OCTET STRING } MAX-ACCESS not-accessible '
                                          'STATUS current DESCRIPTION "d" INDEX { c } ::= { enterprises 8 }\n'),
    # a plain name after the first sub-identifier: refused, or resolved to its own arc - never expanded to a whole OID
    ('names-after-the-first-sub-identifier', 'myorg OBJECT IDENTIFIER ::= { iso 3 }\nmydod OBJECT IDENTIFIER ::= { myorg 6 }\n'
                                             'b OBJECT IDENTIFIER ::= { iso myorg mydod 9 }\n'),
]
# name(number) - a legal OID sub-identifier - in every place where an object is named; also with names the generators use themselves
PLACES = [('augments', OT % 'AUGMENTS { %s }'), ('index', OT % 'INDEX { %s }'), ('index-implied', OT % 'INDEX { IMPLIED %s }'),
          ('index-second', OT % 'INDEX { x, %s }'),
          ('mandatory-group', 'c MODULE-COMPLIANCE STATUS current DESCRIPTION "d" MODULE MANDATORY-GROUPS { %s } ::= { enterprises 2 }\n'),
          ('group', 'c MODULE-COMPLIANCE STATUS current DESCRIPTION "d" MODULE GROUP %s DESCRIPTION "x" ::= { enterprises 2 }\n'),
          ('compliance-object', 'c MODULE-COMPLIANCE STATUS current DESCRIPTION "d" MODULE OBJECT %s DESCRIPTION "x" ::= { enterprises 2 }\n'),
          ('objects', 'g OBJECT-GROUP OBJECTS { %s } STATUS current DESCRIPTION "d" ::= { enterprises 3 }\n')]
for _place, _tmpl in PLACES:
    for _sp in ('x(1)', 'enumSpec(1)', 'row(1)', 'x(1) 2'):
        ODD.append(('%s-spelled-%s' % (_place, _sp.replace(' ', '-')), _tmpl % _sp))


def _handler_names():
    # (the alphabet of names the code generators give to the kinds of sub-trees: an object may be called like any of them)
    from pysmi.codegen.symtable import SymtableCodeGen
    from pysmi.codegen.intermediate import IntermediateCodeGen
    return sorted(set(SymtableCodeGen.handlersTable) | set(IntermediateCodeGen.handlersTable))


# a row type named like one of Python's constants (K15: names that are Python key words)
for _nm in ('True', 'False', 'None'):
    ODD.append(('row-type-named-like-a-python-constant',
                'tTable OBJECT-TYPE SYNTAX SEQUENCE OF %(n)s MAX-ACCESS not-accessible STATUS current DESCRIPTION "d" ::= { enterprises 1 }\n'
                'tEntry OBJECT-TYPE SYNTAX %(n)s MAX-ACCESS not-accessible STATUS current DESCRIPTION "d" INDEX { tIdx } ::= { tTable 1 }\n'
                '%(n)s ::= SEQUENCE { tIdx INTEGER }\n'
                'tIdx OBJECT-TYPE SYNTAX INTEGER MAX-ACCESS read-only STATUS current DESCRIPTION "d" ::= { tEntry 1 }\n' % {'n': _nm}))
for _nm in _handler_names():
    if _nm[:1].islower() and _nm.replace('-', '').isalnum():
        ODD.append(('augments-spelled-like-a-sub-tree-kind', OT % ('AUGMENTS { %s(1) }' % _nm)))
CROSS = {
    'type-cycle-across-modules': {
        'A': 'A DEFINITIONS ::= BEGIN\nIMPORTS U FROM B OBJECT-TYPE, enterprises FROM SNMPv2-SMI;\nT ::= U\n'
             'x OBJECT-TYPE SYNTAX T MAX-ACCESS read-only STATUS current DESCRIPTION "d" DEFVAL { 1 } ::= { enterprises 1 }\nEND\n',
        'B': 'B DEFINITIONS ::= BEGIN\nIMPORTS T FROM A;\nU ::= T\nEND\n'},
    # an OBJECT IDENTIFIER default naming a node of a module that has no symbol table in this call / that does not define it
    'oid-default-from-a-missing-module': {
        'A': 'A DEFINITIONS ::= BEGIN\nIMPORTS OBJECT-TYPE, enterprises FROM SNMPv2-SMI otherRoot FROM OTHER;\n'
             'x OBJECT-TYPE SYNTAX OBJECT IDENTIFIER MAX-ACCESS read-only STATUS current DESCRIPTION "d" DEFVAL { otherRoot } ::= { enterprises 1 }\nEND\n'},
    'oid-default-from-an-unparsable-module': {
        'A': 'A DEFINITIONS ::= BEGIN\nIMPORTS OBJECT-TYPE, enterprises FROM SNMPv2-SMI otherRoot FROM OTHER;\n'
             'x OBJECT-TYPE SYNTAX OBJECT IDENTIFIER MAX-ACCESS read-only STATUS current DESCRIPTION "d" DEFVAL { otherRoot } ::= { enterprises 1 }\nEND\n',
        'OTHER': 'OTHER DEFINITIONS ::= BEGIN\notherRoot OBJECT OBJECT ::= { 1 3 }\nEND\n'},
    'oid-default-the-exporter-lacks': {
        'A': 'A DEFINITIONS ::= BEGIN\nIMPORTS OBJECT-TYPE, enterprises FROM SNMPv2-SMI otherRoot FROM OTHER;\n'
             'x OBJECT-TYPE SYNTAX OBJECT IDENTIFIER MAX-ACCESS read-only STATUS current DESCRIPTION "d" DEFVAL { otherRoot } ::= { enterprises 1 }\nEND\n',
        'OTHER': 'OTHER DEFINITIONS ::= BEGIN\nIMPORTS enterprises FROM SNMPv2-SMI;\nsomethingElse OBJECT IDENTIFIER ::= { enterprises 3 }\nEND\n'},
    'oid-default-that-is-a-type-there': {
        'A': 'A DEFINITIONS ::= BEGIN\nIMPORTS OBJECT-TYPE, enterprises FROM SNMPv2-SMI OtherType FROM OTHER;\n'
             'x OBJECT-TYPE SYNTAX OBJECT IDENTIFIER MAX-ACCESS read-only STATUS current DESCRIPTION "d" DEFVAL { OtherType } ::= { enterprises 1 }\nEND\n',
        'OTHER': 'OTHER DEFINITIONS ::= BEGIN\nOtherType ::= INTEGER\nEND\n'},
    'oid-cycle-across-modules': {
        'A': 'A DEFINITIONS ::= BEGIN\nIMPORTS b FROM B;\na OBJECT IDENTIFIER ::= { b 1 }\nEND\n',
        'B': 'B DEFINITIONS ::= BEGIN\nIMPORTS a FROM A;\nb OBJECT IDENTIFIER ::= { a 1 }\nEND\n'},
}


class SemanticOddities(object):
    case_timeout = 60
    name = 'semantic-defects-in-a-mib'
    describe = ('texts the grammar accepts but that make no sense: OID definitions forming a cycle (1, 2, 3 nodes, across two '
                'modules), an OID hung below a type, a number or name(number) where an object name is expected (AUGMENTS / INDEX / '
                'MANDATORY-GROUPS / GROUP / OBJECT / OBJECTS), type definitions forming a cycle (one module, two modules) under a DEFVAL, unknown labels, '
                '1200-link alias and OID chains; both code generators, ignoreErrors on/off, a sound module B requested alongside: '
                'compile() returns, A has one of the six statuses (a legal chain: compiled), B is compiled or unprocessed')

    def blocks(self, tier):
        return [{'backend': b} for b in ('json', 'pysnmp')]

    def cases(self, block, tier):
        for i in range(len(ODD)):
            for ie in (False, True):
                yield {'backend': block['backend'], 'odd': i, 'ie': ie}
        for k in sorted(CROSS):
            for ie in (False, True):
                yield {'backend': block['backend'], 'cross': k, 'ie': ie}

    def run_case(self, case):
        from mc import env
        if 'cross' in case:
            label = case['cross']
            texts = dict(CROSS[label])
            req = ['A', 'GOOD']
        else:
            label, body = ODD[case['odd']]
            texts = {'A': HDR + body + 'END\n'}
            if label == 'augments-spelled-like-a-sub-tree-kind':
                label += '|' + body.split('AUGMENTS { ')[1].split('(')[0]
            req = ['A', 'GOOD']
        texts['GOOD'] = 'GOOD DEFINITIONS ::= BEGIN\nIMPORTS enterprises FROM SNMPv2-SMI;\ngood OBJECT IDENTIFIER ::= { enterprises 77 }\nEND\n'
        sig = 'C07|semantic-defect|%s|%s' % (label, case['backend'])
        try:
            res, written = env.compile_set(texts, req, codegen=case['backend'], ignoreErrors=case['ie'])
        except BaseException as exc:
            if type(exc).__name__ == 'CaseTimeout':
                raise
            return 'escaped', [('%s|exception-escapes-compile|%s' % (sig, type(exc).__name__), '%s\n%r' % (
                texts['A'][:600], exc))], 1
        vs = []
        for m in req:
            if str(res.get(m)) not in H.STATUSES:
                vs.append(('%s|module-without-status' % sig, '%s: %r in %r' % (m, res.get(m), dict(res))))
        if label == 'names-after-the-first-sub-identifier' and res.get('A') == 'compiled':
            ok = case['backend'] == 'json' and '"1.3.6.9"' in written.get('A', '') or \
                case['backend'] == 'pysnmp' and '(1, 3, 6, 9)' in written.get('A', '')
            if not ok:
                vs.append(('%s|compiled-with-another-oid' % sig, written.get('A', '')[-700:]))
        if label.startswith('deep-') and res.get('A') != 'compiled':
            vs.append(('%s|legal-chain-not-compiled' % sig, '%r %r' % (res.get('A'), getattr(res.get('A'), 'error', None))))
        good = str(res.get('GOOD'))
        a_bad = str(res.get('A')) in ('failed', 'missing')
        want = 'unprocessed' if (a_bad and not case['ie']) else 'compiled'
        if good != want:
            vs.append(('%s|sound-module-%s-where-%s' % (sig, good, want), repr(dict((k, str(v)) for k, v in res.items()))))
        if ('GOOD' in written) != (good == 'compiled'):
            vs.append(('%s|status-and-hand-over-disagree' % sig, '%r written %r' % (good, sorted(written))))
        return repr(sorted((k, str(v)) for k, v in res.items())), vs, 1

class _OneFileTwoNames(object):
    """C08's real-directory worlds where two names of one call resolve (fuzzy -MIB matching) to one file - sound, or holding
    nothing but a comment: every requested name has a status of its own or its file's modules have one.  (C08 imports this
    module, so its family is looked up when first used.)"""
    name = 'one-file-reached-under-two-names'
    case_timeout = 30
    describe = ('a REAL FileReader directory (fuzzy -MIB matching on): two names of one call - imported or requested, either order - '
                'resolve to ONE file, sound or holding nothing but a comment: the file is read once, every name is accounted for')
    _fam = None

    def fam(self):
        if self._fam is None:
            from mc.checks import C08

            class OneFileTwoNames(C08.OneFileTwoNames):
                prefix = 'C07'
                ignore = True
            _OneFileTwoNames._fam = OneFileTwoNames()
        return self._fam

    def blocks(self, tier):
        return self.fam().blocks(tier)

    def cases(self, block, tier):
        return self.fam().cases(block, tier)

    def run_case(self, case):
        return self.fam().run_case(case)


FAMILIES = [SeveralPerFile(), FileNamesVsModuleNames(), NoDeviation(), OneDeviation(), TwoDeviations(), FailureAndRepair(), FilesOnDisk(), SemanticOddities(), _OneFileTwoNames()]
