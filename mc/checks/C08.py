"""C08 - dependencies are followed transitively, in source order, and always terminate.

graphs       every digraph on 3 modules (512, self loops and cycles included) x every ordered request; DAGs also with the
             imported symbol used as an OID parent (so the closure is needed for code generation to succeed)
suppliers    1..3 sources, each holding any subset of the modules with a *different* text per source, so the supplier
             of the compiled text is identifiable; not-found and error answers
shapes       chains of 4, several modules per file, a file whose module is named unlike the file
Oracle: result keys = import closure; each (source, module) asked at most once, sources in the order added, stopping
at the first holder; the text handed to the parser (and the compiled payload) is the first holder's; every run ends
(per-case time limit) within a component-call budget.
"""
import itertools
import json

from mc import compileharness as H
from mc.checks import C07

BOUNDS = {
    'quick': 'all 512 digraphs on 3 modules x 3 requests; all holdings of 2 modules over 3 sources (64) x 4 graphs',
    'thorough': 'all 512 digraphs x all 15 requests x used/unused imports (DAGs); all holdings of 3 modules over 3 sources '
                '(4096) x 6 graphs x 3 requests; chains of 4 with every request',
}
ASSUMPTIONS = ['termination is decided as: every enumerated call returned within 10 s and within 10x the reference number of component calls']


def is_dag(edges):
    adj = {}
    for a, b in edges:
        adj.setdefault(a, []).append(b)
    state = {}

    def visit(x):
        if state.get(x) == 1:
            return False
        if state.get(x) == 2:
            return True
        state[x] = 1
        for y in adj.get(x, []):
            if not visit(y):
                return False
        state[x] = 2
        return True
    return all(visit(x) for x in list(adj))


def supplier_checks(world, obs, sigbase):
    """The text given to the parser for m must be the first holder's text."""
    vs = []
    if 'result' not in obs:
        return vs
    nsrc = world.get('nsrc', 1)
    parsed_texts = [e[1] for e in obs['log'] if e[0] == 'parse']
    for m in H.USER[:world['n']]:
        answers = [world.get('src', {}).get('%s%d' % (m, s), 'ok' if s == 0 else 'notfound') for s in range(nsrc)]
        holders = [s for s, a in enumerate(answers) if a == 'ok']
        reads = [e[1] for e in obs['log'] if e[0] == 'read' and e[2] == m]
        if not reads:
            continue
        if holders:
            first = holders[0]
            want = H.source_text(world, first, m)
            others = [H.source_text(world, s, m) for s in holders[1:]]
            if want not in parsed_texts:
                vs.append(('%s|first-holder-text-not-parsed' % sigbase, 'module %s holders %r reads %r\nworld %s' % (
                    m, holders, reads, json.dumps(world, sort_keys=True))))
            if any(o in parsed_texts for o in others if o != want):
                vs.append(('%s|later-holder-text-parsed' % sigbase, 'module %s holders %r\nworld %s' % (
                    m, holders, json.dumps(world, sort_keys=True))))
            if reads != list(range(first + 1)):
                vs.append(('%s|sources-not-asked-in-order-until-first-holder' % sigbase, 'module %s: asked %r, first holder %d\nworld %s' % (
                    m, reads, first, json.dumps(world, sort_keys=True))))
            data = [e[2] for e in obs['log'] if e[0] == 'write' and e[1] == m]
            if data and '.%d.%d"' % (100 + H.USER.index(m), 1 + world.get('variant', {}).get('%s%d' % (m, first), 0)) not in data[0]:
                vs.append(('%s|payload-not-from-first-holder' % sigbase, 'module %s\nworld %s' % (m, json.dumps(world, sort_keys=True))))
        else:
            if reads != list(range(nsrc)):
                vs.append(('%s|not-all-sources-asked-for-unheld-module' % sigbase, 'module %s: asked %r' % (m, reads)))
    return vs


def run(world, sigbase):
    obs = H.run_world(world)
    vs = H.judge(world, obs, sigbase) + supplier_checks(world, obs, sigbase)
    return H.observation_key(obs), vs, len(obs['log'])


class Graphs(object):
    case_timeout = 10
    name = 'graphs'
    describe = 'every digraph on 3 modules x ordered requests (x imports used as OID parents when acyclic)'

    def blocks(self, tier):
        return [{'lo': i, 'hi': i + 16} for i in range(0, 512, 16)]

    def cases(self, block, tier):
        gs = list(C07.graphs(3))[block['lo']:block['hi']]
        reqs = list(C07.requests(3)) if tier == 'thorough' else [['A'], ['C', 'A'], ['B', 'C', 'A']]
        for g in gs:
            for req in reqs:
                yield {'n': 3, 'edges': g, 'req': req, 'used': 0}
                if is_dag(g) and g:
                    yield {'n': 3, 'edges': g, 'req': req, 'used': 1}

    def run_case(self, case):
        return run(case, 'C08|graphs')


HOLD = ['ok', 'notfound', 'error']


class Suppliers(object):
    case_timeout = 10
    name = 'suppliers'
    describe = ('3 sources; every assignment of {holds (with its own distinct text), not found, error} to each (source, module) '
                'for 2 (3) modules x graphs x requests')

    def blocks(self, tier):
        n = 3 if tier == 'thorough' else 2
        graphs = [[], [['A', 'B']], [['A', 'B'], ['B', 'A']], [['B', 'A']]]
        if n == 3:
            graphs += [[['A', 'B'], ['B', 'C']], [['A', 'B'], ['B', 'C'], ['C', 'A']]]
        return [{'n': n, 'g': g, 'a0': a} for g in graphs for a in range(27)]

    def cases(self, block, tier):
        n = block['n']
        mods = H.USER[:n]
        a0 = block['a0']
        first = [HOLD[(a0 // 9) % 3], HOLD[(a0 // 3) % 3], HOLD[a0 % 3]]
        rest = list(itertools.product(HOLD, repeat=3))
        reqs = [['A'], ['B', 'A']] if n == 2 else [['A'], ['C', 'B'], ['B', 'A', 'C']]
        for others in itertools.product(rest, repeat=n - 1):
            src = {}
            variant = {}
            for mi, m in enumerate(mods):
                ans = first if mi == 0 else others[mi - 1]
                for s in range(3):
                    src['%s%d' % (m, s)] = ans[s]
                    variant['%s%d' % (m, s)] = s
            for req in reqs:
                yield {'n': n, 'edges': block['g'], 'req': req, 'used': 0, 'nsrc': 3, 'src': src, 'variant': variant}

    def run_case(self, case):
        return run(case, 'C08|suppliers')


class Shapes(object):
    case_timeout = 10
    name = 'file-shapes'
    describe = ('files holding two modules / a module named unlike the file, anywhere in chains, cycles and diamonds; the '
                'alias-imports-itself loop that must still terminate')

    def blocks(self, tier):
        return [{'k': k} for k in ('twomods', 'misnamed', 'bundle')]

    def cases(self, block, tier):
        for g in C07.graphs3_subset():
            for m in 'ABC':
                for req in ([['A'], ['C'], ['A', 'B', 'C'], ['C', 'B', 'A']]):
                    for nd in (False, True):
                        w = {'n': 3, 'edges': g, 'req': req, 'used': 0, 'text': {m: block['k']}}
                        if nd:
                            w['opts'] = {'noDeps': True}
                        yield w

    def run_case(self, case):
        return run(case, 'C08|file-shapes')



class TwoDirectories(object):
    case_timeout = 30
    name = 'two-directories'
    describe = ('two REAL FileReader sources: COMMON-MIB is held by the first directory under a regular file name (4 variants) and by '
                'the second under an odd name listed in its .index (or a regular one); AUX-MIB only by the second; request orders '
                'x who imports whom x one or two compile() calls on the same readers: the text compiled for COMMON-MIB is the first '
                'directory\'s')

    def blocks(self, tier):
        return [{'f1': f} for f in ('COMMON-MIB', 'COMMON-MIB.txt', 'common-mib.mib', 'COMMON-MIB.my',
                                    # ... or further down in the first directory's tree (a source is searched recursively)
                                    'vendor/COMMON-MIB.txt', 'vendor/acme/COMMON-MIB', 'a/b/c/common-mib.mib')]

    def cases(self, block, tier):
        for second in ('index', 'regular'):
            for plan in (['AUX-MIB', 'COMMON-MIB'], ['COMMON-MIB', 'AUX-MIB'], ['USER-MIB'], [['AUX-MIB'], ['COMMON-MIB']],
                         [['COMMON-MIB'], ['COMMON-MIB']]):
                yield {'f1': block['f1'], 'second': second, 'plan': plan}
                # the first directory also holds a file whose name is a looser variant of the name (suffix removed) and that
                # holds another module: the exact name, with any extension, is looked at first
                # (files side by side: which of several directories of a tree is looked at first is not specified)
                for decoy in (('COMMON', 'COMMON.txt', 'common') if '/' not in block['f1'] else ()):
                    yield {'f1': block['f1'], 'second': second, 'plan': plan, 'decoy': decoy}

    def run_case(self, case):
        import json
        import os
        import shutil
        import tempfile
        from mc import env
        from pysmi.reader.localfile import FileReader

        def mod(name, arc, imports=''):
            return ('%s DEFINITIONS ::= BEGIN\nIMPORTS enterprises FROM SNMPv2-SMI%s;\n%sRoot OBJECT IDENTIFIER ::= { enterprises %d }\nEND\n'
                    % (name, imports, name.split('-')[0].lower(), arc))
        base = os.environ.get('VERIF_TMP') or ('/dev/shm' if os.path.isdir('/dev/shm') else None)
        root = tempfile.mkdtemp(prefix='mcC08', dir=base)
        try:
            d1, d2 = os.path.join(root, 'first'), os.path.join(root, 'second')
            os.mkdir(d1)
            os.mkdir(d2)
            for b in env.BASE_NAMES:
                with open(os.path.join(d1, b), 'w') as f:
                    f.write(env.base_text(b))
            if '/' in case['f1']:
                os.makedirs(os.path.join(d1, os.path.dirname(case['f1'])))
            with open(os.path.join(d1, case['f1']), 'w') as f:
                f.write(mod('COMMON-MIB', 1000))
            if case.get('decoy'):
                with open(os.path.join(d1, case['decoy']), 'w') as f:
                    f.write(mod('COMMON', 5000))
            if case['second'] == 'index':
                with open(os.path.join(d2, 'common-v2.dat'), 'w') as f:
                    f.write(mod('COMMON-MIB', 2000))
                with open(os.path.join(d2, '.index'), 'w') as f:
                    f.write('COMMON-MIB common-v2.dat\n')
            else:
                with open(os.path.join(d2, 'COMMON-MIB.txt'), 'w') as f:
                    f.write(mod('COMMON-MIB', 2000))
            with open(os.path.join(d2, 'AUX-MIB.txt'), 'w') as f:
                f.write(mod('AUX-MIB', 3000))
            with open(os.path.join(d2, 'USER-MIB.txt'), 'w') as f:
                f.write(mod('USER-MIB', 4000, ' auxRoot FROM AUX-MIB commonRoot FROM COMMON-MIB'))
            w = env.CaptureWriter()
            comp = env.MibCompiler(env.fresh_parser('smiV2'), env.make_codegen('json'), w)
            comp.addSources(FileReader(d1), FileReader(d2))
            comp.addSearchers(env.StubSearcher(*env.BASE_NAMES))
            calls = case['plan'] if isinstance(case['plan'][0], list) else [case['plan']]
            vs = []
            sig = 'C08|two-directories|second-holds-it-%s%s' % ('under-an-indexed-name' if case['second'] == 'index' else 'regularly',
                                                                '|namesake-file-in-the-first' if case.get('decoy') else '')
            out = []
            for n, req in enumerate(calls):
                del w.written[:]
                res = comp.compile(*req, rebuild=True)
                docs = dict((name, json.loads(data)) for name, data, _ in w.written)
                out.append(sorted((k, str(v)) for k, v in res.items()))
                if 'COMMON-MIB' not in req and 'USER-MIB' not in req:
                    continue
                if res.get('COMMON-MIB') != 'compiled' or 'COMMON-MIB' not in docs:
                    vs.append(('%s|common-not-compiled|call-%d' % (sig, n + 1), repr(out[-1])))
                    continue
                got = docs['COMMON-MIB'].get('commonRoot', {}).get('oid')
                if got != '1.3.6.1.4.1.1000':
                    vs.append(('%s|text-of-a-later-source-compiled|call-%d' % (sig, n + 1),
                               'commonRoot is %r, the first source says 1.3.6.1.4.1.1000 (file %s)' % (got, case['f1'])))
                if not str(getattr(res['COMMON-MIB'], 'path', '')).startswith('file://' + d1):
                    vs.append(('%s|path-names-a-later-source|call-%d' % (sig, n + 1), repr(getattr(res['COMMON-MIB'], 'path', None))))
            return repr(out), vs, len(calls)
        finally:
            shutil.rmtree(root, ignore_errors=True)

class OneFileTwoNames(object):
    case_timeout = 30
    name = 'one-file-reached-under-two-names'
    prefix = 'C08'
    ignore = True
    describe = ('a REAL FileReader directory (fuzzy -MIB matching on, as by default): module A imports from FOO and from FOO-MIB (or '
                'both names are requested) while only one of FOO.txt / FOO-MIB.txt exists: the file is fetched and parsed once per '
                'call; the name that no module carries is missing (when imported) and the other compiled')

    def blocks(self, tier):
        return [{}]

    def cases(self, block, tier):
        for present in ('FOO', 'FOO-MIB'):
            for how in ('imported-by-A', 'imported-by-A-other-order', 'requested', 'requested-other-order'):
                yield {'present': present, 'how': how}
                # the one file holds nothing but a comment: as good as absent - under both names
                yield {'present': present, 'how': how, 'empty': 1}

    def run_case(self, case):
        import os
        import shutil
        import tempfile
        from mc import env
        from pysmi.reader.localfile import FileReader
        base = os.environ.get('VERIF_TMP') or ('/dev/shm' if os.path.isdir('/dev/shm') else None)
        root = tempfile.mkdtemp(prefix='mcC08f', dir=base)
        try:
            for b in env.BASE_NAMES:
                with open(os.path.join(root, b), 'w') as f:
                    f.write(env.base_text(b))
            present = case['present']
            absent = 'FOO' if present == 'FOO-MIB' else 'FOO-MIB'
            if case.get('empty'):
                with open(os.path.join(root, present + '.txt'), 'w') as f:
                    f.write('-- to be written\n')
            with open(os.path.join(root, present + '.txt'), 'w' if not case.get('empty') else 'a') as f:
                f.write('' if case.get('empty') else '%s DEFINITIONS ::= BEGIN\nIMPORTS enterprises FROM SNMPv2-SMI;\nfooRoot OBJECT IDENTIFIER ::= { enterprises 5 }\nEND\n' % present)
            names = [present, absent] if 'other-order' not in case['how'] else [absent, present]
            if case['how'].startswith('imported'):
                with open(os.path.join(root, 'A.txt'), 'w') as f:
                    f.write('A DEFINITIONS ::= BEGIN\nIMPORTS enterprises FROM SNMPv2-SMI x FROM %s y FROM %s;\n'
                            'aRoot OBJECT IDENTIFIER ::= { enterprises 6 }\nEND\n' % tuple(names))
                req = ['A']
            else:
                req = names
            parsed = []
            real = env.fresh_parser('smiV2')

            class P(object):
                def reset(self):
                    real.reset()

                def parse(self, data, **kw):
                    parsed.append(data.split(None, 1)[0] if data.strip() else '')
                    return real.parse(data, **kw)
            w = env.CaptureWriter()
            comp = env.MibCompiler(P(), env.make_codegen('json'), w)
            comp.addSources(FileReader(root))
            comp.addSearchers(env.StubSearcher(*env.BASE_NAMES))
            res = comp.compile(*req, ignoreErrors=self.ignore)
            sig = '%s|one-file-two-names|%s-present|%s' % (self.prefix, present, case['how'])
            vs = []
            if case.get('empty'):
                # no module anywhere: both names are accounted for as missing (failed), nothing but A may be written
                for n_ in (present, absent):
                    if str(res.get(n_)) not in ('missing', 'failed'):
                        vs.append(('%s|comment-only-file|name-without-a-failure-status|%s' % (sig, res.get(n_)),
                                   '%s: %r in %r' % (n_, res.get(n_), dict((k, str(v)) for k, v in res.items()))))
                return repr(sorted((k, str(v)) for k, v in res.items())), vs, 1
            if not self.ignore and case['how'].startswith('imported'):
                # a module of the closure cannot be found: nothing at all is written
                if w.written:
                    vs.append(('%s|written-although-a-module-of-the-closure-is-missing' % sig,
                               'written %r, result %r' % ([x[0] for x in w.written], dict((k, str(v)) for k, v in res.items()))))
                if str(res.get(absent)) not in ('missing', 'failed'):
                    vs.append(('%s|name-nobody-carries-is-%s' % (sig, res.get(absent)), repr(dict((k, str(v)) for k, v in res.items()))))
                return repr(sorted((k, str(v)) for k, v in res.items())), vs, 1
            if parsed.count(present) != 1:
                vs.append(('%s|file-parsed-%d-times' % (sig, parsed.count(present)), 'texts parsed: %r' % parsed))
            if res.get(present) != 'compiled':
                vs.append(('%s|module-of-the-file-%s' % (sig, res.get(present)), repr(dict((k, str(v)) for k, v in res.items()))))
            if case['how'].startswith('imported') and str(res.get(absent)) not in ('missing', 'failed'):
                vs.append(('%s|name-nobody-carries-is-%s' % (sig, res.get(absent)), repr(dict((k, str(v)) for k, v in res.items()))))
            return repr(sorted((k, str(v)) for k, v in res.items())), vs, 1
        finally:
            shutil.rmtree(root, ignore_errors=True)


class GrowingSource(object):
    case_timeout = 30
    name = 'first-source-grows-between-calls'
    describe = ('ONE compiler over two real directories, two compile() calls: between them a new module appears in the FIRST source - '
                'as a file at the top, in an existing sub-directory, or in a NEW directory one, two or three levels down - while the '
                'second source holds another text of it: the second call compiles the first source\'s text (sources in order, the '
                'first that holds the module at the time of the call)')

    PLACES = ['', 'vendor', 'newdir', 'vendor/release-2', 'vendor/release-1/patches', 'x/y/z']

    def blocks(self, tier):
        return [{}]

    def cases(self, block, tier):
        for place in self.PLACES:
            for importer in (0, 1):
                yield {'place': place, 'importer': importer}

    def run_case(self, case):
        import os
        import shutil
        import tempfile
        from mc import env
        from pysmi.reader.localfile import FileReader

        def mod(name, arc, imports=''):
            return ('%s DEFINITIONS ::= BEGIN\nIMPORTS enterprises FROM SNMPv2-SMI%s;\n%sRoot OBJECT IDENTIFIER ::= { enterprises %d }\nEND\n'
                    % (name, imports, name.split('-')[0].lower(), arc))
        base = os.environ.get('VERIF_TMP') or ('/dev/shm' if os.path.isdir('/dev/shm') else None)
        root = tempfile.mkdtemp(prefix='mcC08g', dir=base)
        try:
            d1, d2 = os.path.join(root, 'first'), os.path.join(root, 'second')
            os.makedirs(os.path.join(d1, 'vendor', 'release-1'))
            os.mkdir(d2)
            for b in env.BASE_NAMES:
                with open(os.path.join(d1, b), 'w') as f:
                    f.write(env.base_text(b))
            with open(os.path.join(d1, 'vendor', 'release-1', 'OLD-MIB.txt'), 'w') as f:
                f.write(mod('OLD-MIB', 500))
            with open(os.path.join(d2, 'NEW-MIB.txt'), 'w') as f:
                f.write(mod('NEW-MIB', 2000))
            with open(os.path.join(d2, 'TOP-MIB.txt'), 'w') as f:
                f.write(mod('TOP-MIB', 3000, ' newRoot FROM NEW-MIB'))
            w = env.CaptureWriter()
            comp = env.MibCompiler(env.fresh_parser('smiV2'), env.make_codegen('json'), w)
            comp.addSources(FileReader(d1), FileReader(d2))
            comp.addSearchers(env.StubSearcher(*env.BASE_NAMES))
            comp.compile('OLD-MIB', rebuild=True)
            target = os.path.join(d1, case['place'])
            if not os.path.isdir(target):
                os.makedirs(target)
            with open(os.path.join(target, 'NEW-MIB.txt'), 'w') as f:
                f.write(mod('NEW-MIB', 1000))
            del w.written[:]
            res = comp.compile('TOP-MIB' if case['importer'] else 'NEW-MIB', rebuild=True)
            docs = dict((name, json.loads(data)) for name, data, _ in w.written)
            sig = 'C08|growing-source|%s' % ('top' if not case['place'] else 'existing-directory' if case['place'] == 'vendor'
                                              else 'new-directory-depth-%d' % len(case['place'].split('/')))
            vs = []
            if res.get('NEW-MIB') != 'compiled' or 'NEW-MIB' not in docs:
                vs.append(('%s|module-not-compiled' % sig, repr(dict((k, str(v)) for k, v in res.items()))))
            elif docs['NEW-MIB'].get('newRoot', {}).get('oid') != '1.3.6.1.4.1.1000':
                vs.append(('%s|text-of-a-later-source-compiled' % sig, 'newRoot is %r; the first source holds NEW-MIB in %s' % (
                    docs['NEW-MIB'].get('newRoot', {}).get('oid'), target)))
            return repr(sorted((k, str(v)) for k, v in res.items())), vs, 2
        finally:
            shutil.rmtree(root, ignore_errors=True)


class SeveralPerFile(C07.SeveralPerFile):
    """C07's worlds of multi-module files over two sources, judged for WHICH copy of a module is compiled."""
    prefix = 'C08'
    describe = C07.SeveralPerFile.describe + '; here: errors ignored, no borrowers; the text written for a module is that of the copy ' \
        'the reference model names, and a copy travelling in another module\'s file never displaces a source that holds the module ' \
        'under its own name'

    def select(self, world):
        return not world.get('borrowers') and world.get('opts', {}).get('ignoreErrors')

    def extra(self, world, obs, sigbase):
        vs = []
        if 'result' not in obs:
            return vs
        ref = H.reference(world)
        desc = 'world %s' % json.dumps(world, sort_keys=True)
        for e in obs['log']:
            if e[0] != 'write' or e[1] not in ('A', 'B'):
                continue
            m, data = e[1], e[2]
            got = [v for v in (0, 1, H.MATE_VARIANT) if '.%d.%d"' % (100 + H.USER.index(m), 1 + v) in data]
            want = ref['variant_of'].get(m)
            if want is not None and got != [want]:
                vs.append(('%s|text-of-another-copy-compiled|%s' % (sigbase, H.features(world)),
                           'module %s: copy %r compiled, the model names copy %r\n%s' % (m, got, want, desc)))
            # the property: 'the first source that holds a module supplies the text': a source holds m when it has a file
            # called m whose module m has a symbol table
            holders = [s for s in range(world.get('nsrc', 1))
                       if world.get('src', {}).get('%s%d' % (m, s)) == 'ok' and
                       any(c == m and ok for c, ok, var in (H.file_entries(world, s, m) or []))]
            if got == [H.MATE_VARIANT] and holders:
                vs.append(('%s|file-mate-copy-displaces-a-source-that-holds-the-module|%s' % (sigbase, H.features(world)),
                           'module %s: the copy inside the other module\'s file was compiled although source(s) %r hold %s\n%s' % (
                               m, holders, m, desc)))
        return vs


def _file_edges():
    from mc.checks import C01

    class FileEdges(C01.FileEdges):
        """The modules of an import chain are read one after the other by one parser: each is taken from the source that holds it
        and compiled, whatever the file read before it ended in (a comment without line end, an unclosed --, nothing)."""
        prefix = 'C08'
        name = 'file-edges-along-an-import-chain'
    return FileEdges()


class OldBaseModulesInTheClosure(object):
    name = 'smiv1-base-modules-in-the-closure'
    describe = ('an SMIv1 module naming RFC-1212 / RFC-1215 / RFC1155-SMI / RFC1213-MIB in its IMPORTS, taking from them only symbols '
                'that the generators redirect to SMIv2 modules, only symbols that stay, or both; the sources hold all of them and '
                'nothing is stubbed but the three SMIv2 base modules: every module NAMED in the IMPORTS clause is looked up and has '
                'a status in the result')

    CLAUSES = [('RFC-1212', ['OBJECT-TYPE']), ('RFC-1215', ['TRAP-TYPE']), ('RFC1155-SMI', ['enterprises']),
               ('RFC1155-SMI', ['enterprises', 'Counter']), ('RFC1213-MIB', ['ifIndex']), ('RFC1213-MIB', ['ifIndex', 'egp']),
               ('RFC1213-MIB', ['egp'])]

    def blocks(self, tier):
        return [{'backend': b} for b in ('json', 'pysnmp')]

    def cases(self, block, tier):
        for r in (1, 2):
            for combo in itertools.combinations(range(len(self.CLAUSES)), r):
                if len(set(self.CLAUSES[i][0] for i in combo)) == len(combo):
                    yield {'backend': block['backend'], 'clauses': list(combo)}

    def run_case(self, case):
        from mc import env, v1stubs
        from mc.checks import C16
        clauses = [self.CLAUSES[i] for i in case['clauses']]
        imports = ' '.join('%s FROM %s' % (', '.join(syms), mod) for mod, syms in clauses)
        text = 'OLD-MIB DEFINITIONS ::= BEGIN\nIMPORTS %s;\noldNode OBJECT IDENTIFIER ::= { 1 3 6 1 4 1 77 }\nEND\n' % imports
        texts = dict(C16.stubs())
        texts['OLD-MIB'] = text
        parser = env.shared_parser('smiV1Relaxed')
        parser.reset()
        res, written = env.compile_set(texts, ['OLD-MIB'], codegen=case['backend'], dialect=parser, ignoreErrors=True)
        vs = []
        sig = 'C08|old-base-modules|%s' % case['backend']
        if res.get('OLD-MIB') != 'compiled':
            vs.append(('%s|not-compiled' % sig, '%r\n%s' % (getattr(res.get('OLD-MIB'), 'error', None), text)))
        for mod, syms in clauses:
            if mod not in res:
                vs.append(('%s|named-module-without-a-status|%s' % (sig, mod), 'IMPORTS %s; result keys %r' % (imports, sorted(res))))
        return repr(sorted((k, str(v)) for k, v in res.items())), vs, 1


FAMILIES = [SeveralPerFile(), OneFileTwoNames(), GrowingSource(), Graphs(), Suppliers(), Shapes(), TwoDirectories(), _file_edges(), OldBaseModulesInTheClosure()]
