"""C20 - command-line tools report and leave on disk exactly what happened.

mibdump  worlds of the compile() reference model (mc.compileharness) are *realised on disk*: module files in a source
         directory (absent / broken / misnamed / two-module files), a destination directory that may already hold an
         up-to-date copy, a borrower directory; the script runs in-process (runpy) with explicit --mib-source,
         --mib-borrower, --destination-directory; option subsets of {--no-dependencies, --rebuild, --dry-run,
         --no-mib-writes, --ignore-errors, --generate-mib-texts, --build-index, --no-python-compile} x format
         {json, pysnmp, null}; usage errors.  Oracle: exit code 0 iff the reference model has no missing / failed
         module (64 for usage errors); each module is named in exactly the report line of its reference status;
         destination files = modules the model says are written (+ pre-existing, index, __pycache__); none with
         --dry-run / --no-mib-writes
mibcopy  2-3 source files holding copies of <=2 modules with revisions (older / newer / equal / none) under odd file
         names, destination empty or pre-populated, EVERY permutation of the source arguments: the destination file of
         each module seen holds a copy with the maximal revision
"""
import contextlib
import io
import itertools
import os
import re
import runpy
import shutil
import sys
import tempfile

from mc import compileharness as H
from mc import core, env

BOUNDS = {
    'quick': 'mibdump: 2 modules (A imports B), 15 single deviations x 3 requests x 12 option subsets (json), 4 option subsets '
             '(pysnmp, null); 10 usage errors.  mibcopy: all permutations of 3 sources over 14 revision assignments x 2 '
             'destination states',
    'thorough': 'mibdump: all 256 option subsets for json; pairs of deviations; mibcopy: 2 modules, 4 sources',
}
ASSUMPTIONS = ['scripts are executed in-process with runpy (fresh module namespace per run), HOME and cwd in a scratch directory',
               'no network default is reachable: sources, borrowers and destination are always given explicitly']

SCRIPTS = os.path.join(core.REPO, 'scripts')
FLAGS = {'noDeps': '--no-dependencies', 'rebuild': '--rebuild', 'dryRun': '--dry-run', 'writeMibs': '--no-mib-writes',
         'ignoreErrors': '--ignore-errors', 'genTexts': '--generate-mib-texts'}
EXTRA_FLAGS = ['--build-index', '--no-python-compile']


def scratch():
    base = os.environ.get('VERIF_TMP') or ('/dev/shm' if os.path.isdir('/dev/shm') else None)
    return tempfile.mkdtemp(prefix='mcC20', dir=base)


def run_script(name, argv, cwd):
    """-> (exit code | 'exception:Type', stderr text)"""
    old_argv, old_cwd, old_home = sys.argv, os.getcwd(), os.environ.get('HOME')
    err = io.StringIO()
    out = io.StringIO()
    code = None
    try:
        sys.argv = [name] + list(argv)
        os.chdir(cwd)
        os.environ['HOME'] = cwd
        with contextlib.redirect_stderr(err), contextlib.redirect_stdout(out):
            try:
                runpy.run_path(os.path.join(SCRIPTS, name), run_name='__main__')
                code = 0
            except SystemExit as exc:
                code = exc.code if exc.code is not None else 0
            except BaseException as exc:  # noqa
                code = 'exception:%s' % type(exc).__name__
                err.write('\n%r' % (exc,))
    finally:
        sys.argv = old_argv
        os.chdir(old_cwd)
        if old_home is None:
            os.environ.pop('HOME', None)
        else:
            os.environ['HOME'] = old_home
        from pysmi import debug
        debug.setLogger(0)
    return code, err.getvalue()


# --------------------------------------------------------------------------- mibdump

def realise(world, root, fmt):
    """Create source / destination / borrower directories for a world.  -> (src, dst, bor)"""
    src, dst, bor = [os.path.join(root, d) for d in ('src', 'dst', 'bor')]
    for d in (src, dst, bor):
        os.mkdir(d)
    for b in env.BASE_NAMES:
        with open(os.path.join(src, b), 'w') as f:
            f.write(env.base_text(b))
    for m in H.USER[:world['n']]:
        ans = world.get('src', {}).get(m + '0', 'ok')
        if ans == 'ok':
            p = os.path.join(src, m + '.mib')
            with open(p, 'w') as f:
                f.write(H.source_text(world, 0, m))
            os.utime(p, (1500000000, 1500000000))
    ext = {'json': '.json', 'pysnmp': '.py', 'null': ''}[fmt]
    for s in world.get('searchers', []):
        for m, a in s.get('ans', {}).items():
            if a == 'fresh':
                p = os.path.join(dst, m + ext)
                with open(p, 'w') as f:
                    f.write('PRE-EXISTING %s' % m)
                os.utime(p, (1600000000, 1600000000))
    for b in world.get('borrowers', []):
        for m, a in b.get('ans', {}).items():
            if a == 'has':
                with open(os.path.join(bor, m + ext), 'w') as f:
                    f.write('BORROWED-0-%s' % m)
    for m in world.get('dst_dirs', []):
        # a directory named like the file the module would be stored in: the writer's rename fails, after the text was written
        os.mkdir(os.path.join(dst, m + ext))
    if world.get('pycache_is_a_file'):
        # byte-compiling any stored module fails (the cache directory cannot be made): the writer fails after the rename
        with open(os.path.join(dst, '__pycache__'), 'w') as f:
            f.write('in the way')
    return src, dst, bor


REPORT = [('compiled', r'(?:Created/updated|Would be created/updated) MIBs: (.*)'),
          ('borrowed', r'Pre-compiled MIBs (?:Would be )?borrowed: (.*)'),
          ('untouched', r'Up to date MIBs: (.*)'), ('missing', r'Missing source MIBs: (.*)'),
          ('unprocessed', r'Ignored MIBs: (.*)'), ('failed', r'Failed MIBs: (.*)')]


def parse_report(stderr):
    out = {}
    for status, rx in REPORT:
        m = re.search(rx, stderr)
        if not m:
            out[status] = None
            continue
        names = []
        body = m.group(1).strip()
        if status == 'failed':
            names = re.findall(r'(?:^|, )([A-Za-z0-9-]+) \(', body)
        else:
            for part in body.split(', '):
                part = part.strip()
                if part:
                    names.append(part.split(' ')[0])
        out[status] = names
    return out


def mibdump_case(world, fmt, extra, sig):
    root = scratch()
    try:
        src, dst, bor = realise(world, root, fmt)
        opts = dict(H.default_opts(), **world.get('opts', {}))
        argv = ['--mib-source=file://' + src, '--destination-directory=' + dst, '--destination-format=' + fmt]
        if opts['genTexts']:
            argv.append(FLAGS['genTexts'])
        argv.append('--mib-borrower=file://' + bor)
        for k in ('noDeps', 'rebuild', 'dryRun', 'ignoreErrors'):
            if opts[k]:
                argv.append(FLAGS[k])
        if not opts['writeMibs']:
            argv.append(FLAGS['writeMibs'])
        argv += list(extra)
        argv += list(world['req'])
        code, stderr = run_script('mibdump.py', argv, root)
        vs = []
        feat = H.features(world) + ('|' + '+'.join(e.strip('-') for e in extra) if extra else '')

        def v(clause, detail):
            vs.append(('%s|%s|%s|%s' % (sig, fmt, clause, feat), '%s\nargv %r\nworld %r\nstderr tail: %s' % (
                detail, argv, world, stderr[-900:])))

        if isinstance(code, str):
            v('script-crashed|%s' % code, '')
            return code, vs, 1
        if fmt == 'null' or not H.well_formed(world):
            return code, vs, 1
        # the single --mib-borrower given on the command line takes the flavour in force when it is parsed
        wref = dict(world, borrowers=[dict(b, texts=opts['genTexts']) for b in world.get('borrowers', [])])
        ref = H.reference(wref)
        want_bad = any(a & set(['missing', 'failed']) and not (a - set(['missing', 'failed'])) for a in ref['allowed'].values())
        if want_bad and code == 0:
            v('exit-0-despite-missing-or-failed-module', 'reference %r' % ref['allowed'])
        if not want_bad and code != 0:
            v('exit-%s-although-nothing-missing-or-failed' % code, 'reference %r' % ref['allowed'])
        rep = parse_report(stderr)
        if '--quiet' in extra:
            if any(names is not None for names in rep.values()):
                v('report-printed-despite-quiet', '')
            rep = None
        for m, allowed in sorted(ref['allowed'].items()) if rep is not None else ():
            where = [s for s, names in rep.items() if names and m in names]
            if len(where) != 1 or where[0] not in allowed:
                v('module-reported-under-%s-where-%s' % ('+'.join(where) or 'nothing', '/'.join(sorted(allowed))), 'module %s' % m)
        ext = {'json': '.json', 'pysnmp': '.py'}[fmt]
        present = set()
        for f in os.listdir(dst):
            if f == '__pycache__' or f.startswith('index') or f in [m + ext for m in world.get('dst_dirs', [])]:
                continue
            present.add(f)
        pre = set(m + ext for s in world.get('searchers', []) for m, a in s.get('ans', {}).items() if a == 'fresh')
        want = set(pre)
        if not opts['dryRun'] and opts['writeMibs']:
            want |= set(m + ext for m, w in ref['writes'].items() if w == 'once')
        if present != want:
            v('destination-files-differ|extra=%s|lacking=%s' % (len(present - want), len(want - present)),
              'present %r expected %r' % (sorted(present), sorted(want)))
        if '--build-index' in extra and fmt == 'json':
            has_index = os.path.exists(os.path.join(dst, 'index.json'))
            if has_index and opts['dryRun']:
                v('index-written-in-dry-run', '')
        return (code, tuple(sorted((k, tuple(n or ())) for k, n in (rep or {}).items()))), vs, 1
    finally:
        shutil.rmtree(root, ignore_errors=True)


def dump_deviations():
    out = [{}]
    for m in ('A', 'B'):
        out.append({'src': {m + '0': 'notfound'}})
        for k in ('synerr', 'lexerr', 'truncated', 'empty', 'dupsym', 'twomods', 'misnamed'):
            out.append({'text': {m: k}})
        out.append({'searchers': [{'ans': {m: 'fresh'}}]})
        out.append({'borrowers': [{'texts': False, 'ans': {m: 'has'}}]})
    out.append({'pycache_is_a_file': 1, 'wrerr': ['A', 'B']})
    out.append({'dst_dirs': ['B'], 'wrerr': ['B']})
    out.append({'dst_dirs': ['A'], 'wrerr': ['A']})
    out.append({'src': {'A0': 'notfound'}, 'borrowers': [{'texts': False, 'ans': {'A': 'has'}}]})
    out.append({'text': {'B': 'synerr'}, 'borrowers': [{'texts': False, 'ans': {'B': 'has'}}]})
    out.append({'text': {'B': 'synerr'}, 'borrowers': [{'texts': True, 'ans': {'B': 'has'}}]})
    # a failure that can be repaired by borrowing next to one that cannot: the run is abandoned (or not, with --ignore-errors)
    for good, bad in (('A', 'B'), ('B', 'A')):
        out.append({'text': {good: 'synerr', bad: 'synerr'}, 'borrowers': [{'texts': False, 'ans': {good: 'has'}}]})
        out.append({'text': {good: 'synerr'}, 'src': {bad + '0': 'notfound'}, 'borrowers': [{'texts': False, 'ans': {good: 'has'}}]})
        out.append({'text': {good: 'dupsym', bad: 'truncated'}, 'borrowers': [{'texts': False, 'ans': {good: 'has'}}]})
    # three modules, A importing the other two: C's file carries a copy of B as well; B has a file of its own, or none (then B has
    # been asked for and found nowhere by the time C's file is read), or C's copy of it is the broken one
    fan = {'n': 3, 'edges': [['A', 'B'], ['A', 'C']], 'used': 0}
    out.append(dict(fan, text={'C0': 'plusB'}))
    out.append(dict(fan, text={'C0': 'plusB'}, src={'B0': 'notfound'}))
    out.append(dict(fan, text={'C0': 'brokenplusB'}, src={'B0': 'notfound'}))
    out.append(dict(fan, text={'C0': 'brokenplusB'}))
    return out


def option_subsets(tier):
    keys = ['noDeps', 'rebuild', 'dryRun', 'writeMibs', 'ignoreErrors', 'genTexts']
    if tier == 'thorough':
        for bits in itertools.product([0, 1], repeat=6):
            for extra in ([], ['--build-index']):
                yield dict((k, (not b) if k == 'writeMibs' else bool(b)) for k, b in zip(keys, bits) if b), extra
        return
    base = [{}, {'noDeps': True}, {'rebuild': True}, {'dryRun': True}, {'writeMibs': False}, {'ignoreErrors': True},
            {'genTexts': True}, {'noDeps': True, 'ignoreErrors': True}, {'dryRun': True, 'ignoreErrors': True},
            {'rebuild': True, 'noDeps': True}, {'genTexts': True, 'ignoreErrors': True}]
    for o in base:
        yield o, []
    yield {}, ['--build-index']
    yield {'dryRun': True}, ['--build-index']
    yield {'ignoreErrors': True}, ['--build-index']
    yield {}, ['--quiet']
    yield {'ignoreErrors': True}, ['--quiet']
    yield {'noDeps': True}, ['--quiet']


class MibDump(object):
    case_timeout = 120
    name = 'mibdump'
    describe = ('worlds realised on disk (module A imports B; one or two deviations: absent, 7 text defects, up-to-date copy in the '
                'destination, borrowable copy; A importing B and C where C\'s file carries a sound / broken copy of B and B has a file or none) x request x option subsets x format; judged by the compile() reference model')

    def blocks(self, tier):
        return [{'d': i, 'fmt': f} for i in range(len(dump_deviations())) for f in ('json', 'pysnmp', 'null')]

    def cases(self, block, tier):
        dev = dump_deviations()[block['d']]
        fmt = block['fmt']
        if dev.get('pycache_is_a_file') and fmt != 'pysnmp':
            return
        for req in (['A'], ['B'], ['A', 'B']):
            for o, extra in option_subsets(tier if fmt == 'json' else 'quick'):
                if fmt != 'json' and (len(o) > 1 or extra):
                    continue
                if (dev.get('pycache_is_a_file') or dev.get('dst_dirs')) and (o.get('dryRun') or o.get('writeMibs') is False):
                    continue   # nothing is stored, so nothing is byte-compiled (nothing is renamed)
                if fmt == 'pysnmp' and not o:
                    for ex in ([], ['--no-python-compile']) if not dev.get('pycache_is_a_file') else ([],):
                        w = dict({'n': 2, 'edges': [['A', 'B']], 'req': req, 'used': 1}, **dev)
                        yield {'world': w, 'fmt': fmt, 'extra': ex}
                    continue
                w = dict({'n': 2, 'edges': [['A', 'B']], 'req': req, 'used': 1}, **dev)
                if o:
                    w['opts'] = o
                yield {'world': w, 'fmt': fmt, 'extra': extra}

    def run_case(self, case):
        w = case['world']
        if w.get('text', {}).get('B') or w.get('src', {}).get('B0'):
            # a failed / absent B would make the *used* import of A fail in code generation: keep the import unused there
            w = dict(w, used=0)
        return mibdump_case(w, case['fmt'], case['extra'], 'C20|mibdump')


class Usage(object):
    case_timeout = 120
    name = 'usage'
    describe = 'usage errors of mibdump and mibcopy: exit code 64'

    def blocks(self, tier):
        return [{}]

    def cases(self, block, tier):
        for argv in ([], ['--destination-format=json'], ['--no-such-option', 'X'], ['--destination-format=xml', 'X'],
                     ['--python-optimization-level=fast', 'X'], ['--debug'], ['--mib-source'],
                     ['--destination-format=', 'X-MIB', '--mib-source=file:///nonexistent']):
            yield {'script': 'mibdump.py', 'argv': argv}
        for argv in ([], ['onlyone'], ['--no-such-option', 'a', 'b'], ['--dry-run']):
            yield {'script': 'mibcopy.py', 'argv': argv}
        yield {'script': 'mibdump.py', 'argv': ['--help'], 'want': 0}
        yield {'script': 'mibdump.py', 'argv': ['--version'], 'want': 0}
        yield {'script': 'mibcopy.py', 'argv': ['--help'], 'want': 0}

    def run_case(self, case):
        root = scratch()
        try:
            argv = list(case['argv'])
            if case['argv'] and case['argv'][0] == '--destination-format=':
                argv = ['--destination-format=json', 'X-MIB', '--mib-source=file://' + root]
                case = dict(case, want=79)
            code, stderr = run_script(case['script'], argv, root)
            want = case.get('want', 64)
            vs = []
            if code != want:
                vs.append(('C20|usage|%s|exit-%s-where-%s|%s' % (case['script'], code, want, ' '.join(case['argv'])[:40]),
                           'stderr tail %s' % stderr[-400:]))
            return code, vs, 1
        finally:
            shutil.rmtree(root, ignore_errors=True)


# --------------------------------------------------------------------------- mibcopy

DST_SPELLINGS = ['out', './out', 'out/', 'out//', '../%s/out', 'in/../out']
REVS = {'none': None, 'old': '201001010000Z', 'mid': '201501010000Z', 'new': '202001010000Z'}


def copy_text(modname, rev, tag):
    ident = ''
    if rev:
        ident = ('%sIdentity MODULE-IDENTITY LAST-UPDATED "%s" ORGANIZATION "o" CONTACT-INFO "c" DESCRIPTION "copy %s"\n'
                 '    REVISION "%s" DESCRIPTION "r"\n    ::= { enterprises %d }\n' % (
                     modname.split('-')[0].lower(), rev, tag, rev, 4000 + len(modname)))
    return ('%s DEFINITIONS ::= BEGIN\nIMPORTS enterprises, MODULE-IDENTITY FROM SNMPv2-SMI;\n%s'
            'node%s OBJECT IDENTIFIER ::= { enterprises 99 }\n-- copy %s\nEND\n' % (modname, ident, tag, tag))


def rev_key(rev):
    return REVS[rev] or '197001010000Z'


class MibCopy(object):
    case_timeout = 300
    name = 'mibcopy'
    describe = ('sources = files with odd names each holding one copy of module ONE-MIB (or TWO-MIB) with revision none / old / mid / '
                'new; every multiset of 2-3 copies, destination empty or holding a mid-revision copy; every permutation of '
                'the source arguments; sources given as files and as a directory')

    def blocks(self, tier):
        revs = ['none', 'old', 'mid', 'new']
        sets = []
        for n in (2, 3):
            for combo in itertools.combinations_with_replacement(revs, n):
                sets.append(list(combo))
        return [{'revs': s, 'pre': p} for s in sets for p in (None, 'mid', 'none')]

    def cases(self, block, tier):
        n = len(block['revs'])
        for perm in itertools.permutations(range(n)):
            yield {'revs': block['revs'], 'pre': block['pre'], 'perm': list(perm), 'mode': 'files'}
        yield {'revs': block['revs'], 'pre': block['pre'], 'perm': list(range(n)), 'mode': 'dir'}
        if tier == 'thorough' or n == 2:
            for perm in itertools.permutations(range(n)):
                yield {'revs': block['revs'], 'pre': block['pre'], 'perm': list(perm), 'mode': 'files+other'}
        # the destination directory spelled in every usual way (relative to the working directory)
        if block['pre'] is not None:
            for spell in DST_SPELLINGS:
                yield {'revs': block['revs'], 'pre': block['pre'], 'perm': list(range(n)), 'mode': 'files', 'dst': spell}
        # the --mib-source library (used to resolve imports) itself holds a copy of the module, newer or older,
        # and one source file named exactly like the module is not a MIB at all
        for lib in ('old', 'new'):
            # junk: 1 not a MIB at all; 2-4 a MIB cut inside a MACRO / EXPORTS / CHOICE section; 5 a healthy module whose last
            # line is a comment without a line end (visited first: the parser the script shares between files must not
            # remember where the previous text stopped)
            for junk in ((0, 1, 2, 3, 4, 5) if (tier == 'thorough' or n == 2) else (0, 2, 5)):
                yield {'revs': block['revs'], 'pre': block['pre'], 'perm': list(range(n)), 'mode': 'files', 'lib': lib,
                       'junk': junk}

    def run_case(self, case):
        root = scratch()
        try:
            base = os.path.join(root, 'base')
            srcd = os.path.join(root, 'in')
            dst = os.path.join(root, 'out')
            for d in (base, srcd):
                os.mkdir(d)
            for b in env.BASE_NAMES:
                with open(os.path.join(base, b), 'w') as f:
                    f.write(env.base_text(b))
            files = []
            contents = {}
            for i, rev in enumerate(case['revs']):
                fn = os.path.join(srcd, 'odd_name_%d.txt' % i)
                text = copy_text('ONE-MIB', REVS[rev], 'src%d-%s' % (i, rev))
                with open(fn, 'w') as f:
                    f.write(text)
                files.append(fn)
                contents.setdefault('ONE-MIB', []).append((rev_key(rev), text))
            if case['mode'] == 'files+other':
                fn = os.path.join(srcd, 'zz_other.mib')
                text = copy_text('TWO-MIB', REVS['mid'], 'other')
                with open(fn, 'w') as f:
                    f.write(text)
                files.append(fn)
                contents['TWO-MIB'] = [(rev_key('mid'), text)]
            if case.get('lib'):
                with open(os.path.join(base, 'ONE-MIB'), 'w') as f:
                    f.write(copy_text('ONE-MIB', REVS[case['lib']], 'library-%s' % case['lib']))
            if case.get('junk'):
                jd = os.path.join(root, 'junk')
                os.mkdir(jd)
                fn = os.path.join(jd, 'ONE-MIB' if case['junk'] != 5 else 'tail.mib')
                cut = 'ONE-MIB DEFINITIONS ::= BEGIN\nIMPORTS enterprises FROM SNMPv2-SMI;\n'
                with open(fn, 'w') as f:
                    f.write({1: 'this is not a MIB module\n',
                             2: cut + 'OBJECT-TYPE MACRO ::=\nBEGIN\n    TYPE NOTATION ::= "x"\n',
                             3: 'ONE-MIB DEFINITIONS ::= BEGIN\nEXPORTS a, b',
                             4: cut + 'Addr ::= CHOICE { a INTEGER,',
                             5: copy_text('TAIL-MIB', REVS['mid'], 'tail') + '-- the end'}[case['junk']])
                if case['junk'] == 5:
                    contents['TAIL-MIB'] = [(rev_key('mid'), open(fn).read())]
                files.insert(0, fn)
            if case['pre'] is not None:
                os.mkdir(dst)
                text = copy_text('ONE-MIB', REVS[case['pre']], 'pre-existing-%s' % case['pre'])
                with open(os.path.join(dst, 'ONE-MIB'), 'w') as f:
                    f.write(text)
                contents['ONE-MIB'].append((rev_key(case['pre']), text))
            if case['mode'] == 'dir':
                args = [srcd]
            else:
                nj = 1 if case.get('junk') else 0
                order = files[:nj] + [files[nj + i] for i in case['perm']] + files[nj + len(case['perm']):]
                args = order
            dstarg = dst
            if case.get('dst'):
                dstarg = case['dst'].replace('%s', os.path.basename(root))
            argv = ['--mib-source=file://' + base] + args + [dstarg]
            code, stderr = run_script('mibcopy.py', argv, root)
            vs = []
            feat = 'revs=%s|pre=%s|%s' % ('+'.join(sorted(case['revs'])), case['pre'], case['mode'])
            if case.get('dst'):
                feat += '|dst=' + case['dst']
            if case.get('lib'):
                feat += '|library-holds-%s-copy' % case['lib'] + ('|junk-source-%d' % case['junk'] if case.get('junk') else '')
            if case.get('junk') and case['junk'] != 5 and not re.search(r'failed: 1\b', stderr):
                vs.append(('C20|mibcopy|unreadable-source-not-counted-failed|%s' % feat, 'argv %r\n%s' % (argv, stderr[-600:])))
            if code != 0:
                vs.append(('C20|mibcopy|exit-%s|%s' % (code, feat), 'argv %r\n%s' % (argv, stderr[-600:])))
            for mod, copies in sorted(contents.items()):
                best = max(k for k, _ in copies)
                allowed = [t for k, t in copies if k == best]
                p = os.path.join(dst, mod)
                got = open(p).read() if os.path.exists(p) else None
                if got not in allowed:
                    what = 'absent' if got is None else 'older-copy'
                    vs.append(('C20|mibcopy|destination-%s|%s' % (what, feat),
                               'module %s: destination holds %r, copies with the latest revision %r\nargv %r\n%s' % (
                                   mod, (got or '')[-40:], [t[-40:] for t in allowed], argv, stderr[-500:])))
            stray = sorted(f for f in (os.listdir(dst) if os.path.isdir(dst) else []) if f not in contents)
            if stray:
                vs.append(('C20|mibcopy|stray-destination-files|%s' % feat, repr(stray)))
            return (code, tuple(sorted(os.listdir(dst))) if os.path.isdir(dst) else ()), vs, 1
        finally:
            shutil.rmtree(root, ignore_errors=True)


FAMILIES = [MibDump(), Usage(), MibCopy()]
