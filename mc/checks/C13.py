"""C13 - writing a module is atomic under I/O faults; dry-run touches nothing.

single-writer  FileWriter ('' and '.json' suffix) and PyFileWriter (pyCompile on/off) x destination state (directory
               absent / nested absent / present without the file / present with old content) x data (empty, short
               ASCII, 70 kB, non-ASCII) x every fault plan with <=1 (quick) / <=2 (thorough) faults: the call sites are
               *discovered* from the fault-free trace, each occurrence is failed in every way that call can really fail
               (errno errors before the effect, short writes of 0 / 1 / half / len-1 bytes, partial write then ENOSPC,
               access() = False, byte-compilation errors); the second fault is placed on the trace of the run that
               already has the first
dry-run        dryRun=True and compile(writeMibs=False): recursive snapshot of the parent directory unchanged
two-writers    two putData() calls for the same module with different data under a cooperative scheduler that switches
               at every I/O call: ALL interleavings (no faults)
Oracle after every execution: destination holds the previous complete content or the complete new content (either
writer's for two writers); nothing else is left in the directory except __pycache__; an escaping exception is
PySmiWriterError; normal return => the new content is on disk (PyFileWriter: a byte-compile failure may remove it).
"""
import itertools
import os
import shutil
import tempfile

from mc import faultfs, sched
from mc.env import error

BOUNDS = {
    'quick': '4 writers x 4 destination states x 4 data x every single fault; all interleavings of two FileWriter / two '
             'PyFileWriter(pyCompile off) calls on an existing directory',
    'thorough': 'every plan of <=2 faults; two writers also on an absent directory and with byte compilation; two writers with '
                'one fault at every position of every schedule with <=2 preemptions',
}
ASSUMPTIONS = ['failures are modelled as error returns / short counts of individual calls; power loss is outside the property',
               'two writers interleave at call granularity (each proxy call is atomic)']

WRITERS = ['file', 'file.json', 'py', 'py.nocompile']
DESTS = ['absent', 'nested-absent', 'empty', 'old-content']
DATA = {'empty': '', 'short': 'x = 1\n', 'big': ''.join('# line %06d of a large module\n' % i for i in range(2400)),
        'non-ascii': 'name = "café 中文"\n',
        # a text UTF-8 cannot hold completely (what errors='surrogateescape' makes of a Latin-1 octet): storing it short is
        # no success
        'lone-surrogate': 'name = "caf\udce9"\n'}
OLD = 'previous = "complete old content"\n'
MODNAME = 'TEST-MIB'


def scratch():
    base = os.environ.get('VERIF_TMP') or ('/dev/shm' if os.path.isdir('/dev/shm') else None)
    return tempfile.mkdtemp(prefix='mcC13', dir=base)


def make_writer(kind, path):
    from pysmi.writer.localfile import FileWriter
    from pysmi.writer.pyfile import PyFileWriter
    if kind == 'file':
        return FileWriter(path), MODNAME
    if kind == 'file.json':
        return FileWriter(path).setOptions(suffix='.json'), MODNAME + '.json'
    if kind == 'py':
        return PyFileWriter(path).setOptions(pyCompile=True, pyOptimizationLevel=0), MODNAME + '.py'
    return PyFileWriter(path).setOptions(pyCompile=False), MODNAME + '.py'


def prepare(root, dest, fname):
    """-> destination directory path; creates the initial state"""
    if dest == 'absent':
        return os.path.join(root, 'dst')
    if dest == 'nested-absent':
        return os.path.join(root, 'a', 'b', 'dst')
    d = os.path.join(root, 'dst')
    os.mkdir(d)
    if dest == 'old-content':
        with open(os.path.join(d, fname), 'w') as f:
            f.write(OLD)
    return d


def one_run(writer_kind, dest, data_key, plan, dry=False):
    """-> (trace, outcome, problems)  on a fresh scratch tree"""
    root = scratch()
    try:
        rec = faultfs.Recorder(plan)
        with faultfs.Patched(rec):
            _, fname = make_writer(writer_kind, root)
            d = prepare(root, dest, fname)
            before = faultfs.snapshot(root)
            w, fname = make_writer(writer_kind, d)
            rec.trace[:] = []
            rec.injected[:] = []
            rec.plan = dict(plan)
            exc = None
            try:
                w.putData(MODNAME, DATA[data_key], dryRun=dry)
            except BaseException as e:  # noqa
                exc = e
        after = faultfs.snapshot(root)
        problems = judge_fs(d, fname, before, after, root, DATA[data_key], exc, rec, dry, writer_kind)
        outcome = ('raised:%s' % type(exc).__name__ if exc else 'ok', tuple(s for _, s, f in rec.injected))
        return list(rec.trace), outcome, problems
    finally:
        shutil.rmtree(root, ignore_errors=True)


def judge_fs(d, fname, before, after, root, data, exc, rec, dry, writer_kind, alt_data=()):
    problems = []
    rel = os.path.relpath(d, root)
    key = os.path.normpath(os.path.join(rel, fname))
    try:
        new = data.encode('utf-8')
    except UnicodeEncodeError:
        new = b'\x00 no octet string is this text \x00'   # only a writer error is right
    old = (before or {}).get(key)
    content = (after or {}).get(key)
    faults = '+'.join('%s=%s' % (s.split('.')[-1], f) for _, s, f in rec.injected) or 'no-fault'
    if dry:
        if after != before:
            problems.append(('dry-run-modified-the-filesystem', 'before %r after %r' % (sorted(before or {}), sorted(after or {}))))
        if exc is not None:
            problems.append(('dry-run-raised|%s' % type(exc).__name__, repr(exc)))
        return problems
    # the property speaks of a single failing step; a second fault placed on the clean-up itself (unlink, or access()
    # lying about the temporary file) cannot be cleaned up after: only the destination content is judged then
    cleanup_fault = any(s in ('os.unlink', 'os.access') for _, s, f in rec.injected)
    if exc is not None and not isinstance(exc, error.PySmiWriterError) and not cleanup_fault:
        problems.append(('foreign-exception|%s|%s' % (type(exc).__name__, faults), repr(exc)))
    allowed = [old, new] + [a.encode('utf-8') for a in alt_data]
    compile_fault = any(s == 'py_compile.compile' for _, s, f in rec.injected)
    if compile_fault or (writer_kind == 'py' and exc is not None):
        allowed.append(None)  # a failure while byte-compiling an already stored module may remove that module
    if content not in allowed:
        what = 'absent' if content is None else 'partial' if new.startswith(content) else 'mixed'
        problems.append(('destination-%s|%s' % (what, faults), 'destination holds %r... (%d bytes); old %r, new %d bytes' % (
            (content or b'')[:40], len(content or b''), old, len(new))))
    if exc is None and content != new and not alt_data and not (compile_fault and content is None):
        problems.append(('returned-normally-without-the-new-content|%s' % faults,
                         'destination holds %r (%d bytes), new data %d bytes' % ((content or b'')[:40], len(content or b''), len(new))))
    # nothing else left behind in the destination directory
    for k in sorted(after or {}) if not cleanup_fault else ():
        if os.path.normpath(os.path.dirname(k.rstrip('/'))) == os.path.normpath(rel) and '__pycache__' not in k \
                and os.path.normpath(k.rstrip('/')) != key:
            problems.append(('stray-entry-left-behind|%s' % faults, 'entry %s in %s' % (k, sorted(after))))
    return problems


def applicable(site):
    return faultfs.FAULTS.get(site, [])


class SingleWriter(object):
    name = 'single-writer'
    describe = ('writer kind x destination state x data x every plan of <=1 (<=2) faults over the call sites discovered from the '
                'fault-free (resp. once-faulted) trace x every fault kind of that call')

    def blocks(self, tier):
        return [{'w': w, 'dest': d, 'data': k} for w in WRITERS for d in DESTS for k in DATA]

    def cases(self, block, tier):
        trace, _, _ = one_run(block['w'], block['dest'], block['data'], {})
        yield dict(block, plan={})
        for i, site in enumerate(trace):
            for f in applicable(site):
                yield dict(block, plan={str(i): f})
                if tier == 'thorough':
                    t2, _, _ = one_run(block['w'], block['dest'], block['data'], {i: f})
                    for j in range(i + 1, len(t2)):
                        for g in applicable(t2[j]):
                            yield dict(block, plan={str(i): f, str(j): g})

    def run_case(self, case):
        plan = dict((int(k), v) for k, v in case['plan'].items())
        trace, outcome, problems = one_run(case['w'], case['dest'], case['data'], plan)
        vs = [('C13|single|%s|%s' % (case['w'].split('.')[0], p), '%s\ncase %r\ntrace %r' % (d, case, trace)) for p, d in problems]
        return (tuple(trace), outcome), vs, len(trace)


class DryRun(object):
    name = 'dry-run'
    describe = ('putData(dryRun=True) for every writer x destination x data, and MibCompiler.compile(writeMibs=False / dryRun=True) '
                'through the real writers, also followed by buildIndex(dryRun=True): the directory tree is unchanged')

    VIA = {'compile-dryRun': {'dryRun': True}, 'compile-writeMibs-off': {'writeMibs': False},
           'compile-dryRun-writeMibs-on': {'dryRun': True, 'writeMibs': True},
           'compile-dryRun-off-writeMibs-off': {'dryRun': False, 'writeMibs': False},
           'compile-dryRun-None-writeMibs-off': {'dryRun': None, 'writeMibs': False},
           'compile-dryRun-writeMibs-off': {'dryRun': True, 'writeMibs': False},
           'compile-writeMibs-off-ignoreErrors': {'writeMibs': False, 'ignoreErrors': True, 'rebuild': True, 'genTexts': True},
           # ... followed by buildIndex() with the same options, as mibdump --dry-run --build-index does
           'compile+buildIndex-dryRun': {'dryRun': True, 'index': True},
           'compile+buildIndex-dryRun-ignoreErrors': {'dryRun': True, 'ignoreErrors': True, 'index': True}}

    def blocks(self, tier):
        return [{'w': w} for w in WRITERS]

    def cases(self, block, tier):
        for d in DESTS:
            for k in DATA:
                yield {'w': block['w'], 'dest': d, 'data': k, 'via': 'putData'}
            # every way of spelling 'do not write' in the options of compile(): each option given / given as False / left out
            for via in sorted(self.VIA):
                yield {'w': block['w'], 'dest': d, 'data': 'short', 'via': via}

    def run_case(self, case):
        if case['via'] == 'putData':
            trace, outcome, problems = one_run(case['w'], case['dest'], case['data'], {}, dry=True)
            vs = [('C13|dry-run|%s|%s' % (case['w'], p), '%s\ncase %r' % (d, case)) for p, d in problems]
            return outcome, vs, 1
        from mc import env
        root = scratch()
        try:
            _, fname = make_writer(case['w'], root)
            d = prepare(root, case['dest'], fname)
            before = faultfs.snapshot(root)
            w, fname = make_writer(case['w'], d)
            text = ('TEST-MIB DEFINITIONS ::= BEGIN\nIMPORTS enterprises FROM SNMPv2-SMI;\n'
                    'x OBJECT IDENTIFIER ::= { enterprises 1 }\nEND\n')
            comp = env.MibCompiler(env.fresh_parser('smiV2'), env.make_codegen('json' if 'file' in case['w'] else 'pysnmp'), w)
            texts = env.base_texts()
            texts['TEST-MIB'] = text
            comp.addSources(env.DictReader(texts))
            comp.addSearchers(env.StubSearcher(*env.BASE_NAMES))
            opts = dict(self.VIA[case['via']])
            index = opts.pop('index', False)
            res = comp.compile('TEST-MIB', **opts)
            if index and 'file' in case['w']:
                comp.buildIndex(res, **opts)
            after = faultfs.snapshot(root)
            vs = []
            if after != before:
                vs.append(('C13|dry-run|%s|%s-modified-the-filesystem' % (case['w'], case['via']),
                           'before %r after %r' % (sorted(before or {}), sorted(after or {}))))
            return str(res.get('TEST-MIB')), vs, 1
        finally:
            shutil.rmtree(root, ignore_errors=True)


class ThroughCompile(object):
    case_timeout = 600
    name = 'faults-while-compile-stores'
    describe = ('MibCompiler.compile() storing through the real writers - a module it compiled, and a module it could only borrow - with '
                'one fault of every kind at every I/O call of the store (positions taken from the fault-free trace): the destination '
                'holds the previous or the complete new content, nothing else is left behind, and the status says what happened: '
                'failed with the writer error whenever the store failed, compiled / borrowed only when the text is on disk')

    def blocks(self, tier):
        return [{'w': w, 'kind': k, 'dest': d} for w in ('file.json', 'py', 'py.nocompile') for k in ('compiled', 'borrowed')
                for d in ('empty', 'old-content')]

    def cases(self, block, tier):
        yield dict(block)

    def one(self, case, plan):
        from mc import env
        from pysmi.borrower.pyfile import PyFileBorrower
        from pysmi.borrower.anyfile import AnyFileBorrower
        from pysmi.reader.localfile import FileReader
        root = scratch()
        try:
            js = case['w'] == 'file.json'
            _, fname = make_writer(case['w'], root)
            d = prepare(root, case['dest'], fname)
            bdir = os.path.join(root, 'borrow')
            os.mkdir(bdir)
            with open(os.path.join(bdir, MODNAME + ('.json' if js else '.py')), 'w') as f:
                f.write('# a borrowed copy\nborrowed = 1\n')
            before = faultfs.snapshot(root)
            w, fname = make_writer(case['w'], d)
            texts = env.base_texts()
            texts[MODNAME] = ('TEST-MIB DEFINITIONS ::= BEGIN\nIMPORTS enterprises FROM SNMPv2-SMI;\nx OBJECT IDENTIFIER ::= { enterprises 1 }\nEND\n'
                              if case['kind'] == 'compiled' else 'TEST-MIB DEFINITIONS ::= BEGIN this does not parse END\n')
            parser = env.shared_parser('smiV2')
            parser.reset()
            comp = env.MibCompiler(parser, env.make_codegen('json' if js else 'pysnmp'), w)
            comp.addSources(env.DictReader(texts))
            comp.addSearchers(env.StubSearcher(*env.BASE_NAMES))
            reader = FileReader(bdir)
            comp.addBorrowers(AnyFileBorrower(reader).setOptions(exts=['.json']) if js else PyFileBorrower(reader))
            rec = faultfs.Recorder(plan)
            escaped = None
            with faultfs.Patched(rec):
                try:
                    res = comp.compile(MODNAME, ignoreErrors=True)
                except BaseException as exc:   # noqa
                    res, escaped = {}, exc
            after = faultfs.snapshot(root)
            rel = os.path.relpath(d, root)
            key = os.path.normpath(os.path.join(rel, fname))
            def settled(octets):
                # the generated text names the moment it was made: two runs differ there and nowhere else
                from mc.checks import C12
                return None if octets is None else C12.mask(octets.decode('utf-8', 'replace'))
            return {'trace': list(rec.trace), 'injected': list(rec.injected), 'status': res.get(MODNAME), 'escaped': escaped,
                    'content': settled((after or {}).get(key)), 'old': settled((before or {}).get(key)), 'after': after, 'rel': rel,
                    'key': key}
        finally:
            shutil.rmtree(root, ignore_errors=True)

    def run_case(self, case):
        clean = self.one(case, {})
        want_status = case['kind']
        sig = 'C13|compile-stores|%s|%s|%s' % (case['w'].split('.')[0], case['kind'], case['dest'])
        if str(clean['status']) != want_status or clean['content'] is None:
            return 'setup', [('%s|fault-free-run-does-not-store' % sig, '%r %r' % (clean['status'], getattr(clean['status'], 'error', None)))], 1
        new = clean['content']
        vs, seen, runs = [], set(), 1
        for i, site in enumerate(clean['trace']):
            for f in applicable(site):
                r = self.one(case, {i: f})
                runs += 1
                st = r['status']
                faults = '%s=%s' % (site.split('.')[-1], f)
                cleanup_fault = site in ('os.unlink', 'os.access')
                probs = []
                if r['escaped'] is not None:
                    probs.append(('exception-escapes-compile|%s|%s' % (type(r['escaped']).__name__, faults), repr(r['escaped'])[:200]))
                elif str(st) == 'failed':
                    if not isinstance(getattr(st, 'error', None), error.PySmiWriterError) and not cleanup_fault:
                        probs.append(('failed-without-the-writer-error|%s' % faults, repr(getattr(st, 'error', None))))
                    allowed = [r['old'], new] + ([None] if site == 'py_compile.compile' or case['w'] == 'py' else [])
                    if r['content'] not in allowed:
                        probs.append(('destination-partial-or-mixed|%s' % faults, repr((r['content'] or '')[:40])))
                elif str(st) == want_status:
                    if r['content'] != new and not (site == 'py_compile.compile' and r['content'] is None):
                        probs.append(('reported-%s-but-the-text-is-not-on-disk|%s' % (want_status, faults),
                                      'destination holds %r' % ((r['content'] or '')[:40],)))
                else:
                    probs.append(('status-%s|%s' % (st, faults), ''))
                if not cleanup_fault:
                    for k in sorted(r['after'] or {}):
                        if os.path.normpath(os.path.dirname(k.rstrip('/'))) == os.path.normpath(r['rel']) and '__pycache__' not in k \
                                and os.path.normpath(k.rstrip('/')) != r['key']:
                            probs.append(('stray-entry-left-behind|%s' % faults, 'entry %s' % k))
                for p_, d_ in probs:
                    sg = '%s|%s' % (sig, p_)
                    if sg not in seen:
                        seen.add(sg)
                        vs.append((sg, '%s\nfault at call %d of %r' % (d_, i, clean['trace'])))
        return 'runs=%d' % runs, vs, (runs, runs - 1)


class DirectoryInTheWay(object):
    name = 'a-directory-where-the-file-belongs'
    describe = ('both file writers, the place of the module\'s file taken by a directory (empty, holding a '
                'file), through putData() and through compile(): the store fails with the writer error, the directory '
                'tree is exactly what it was (nothing moved into the directory, no temporary file), compile() reports failed')

    def blocks(self, tier):
        return [{'w': w} for w in WRITERS]

    def cases(self, block, tier):
        for shape in ('empty-directory', 'directory-with-a-file'):   # (a LINK to a directory is replaced by the rename: no obstacle)
            for via in ('putData', 'compile'):
                yield {'w': block['w'], 'shape': shape, 'via': via}

    def run_case(self, case):
        from mc import env
        root = scratch()
        try:
            _, fname = make_writer(case['w'], root)
            d = os.path.join(root, 'dst')
            os.mkdir(d)
            if case['shape'] == 'link-to-a-directory':
                os.mkdir(os.path.join(root, 'elsewhere'))
                os.symlink(os.path.join(root, 'elsewhere'), os.path.join(d, fname))
            else:
                os.mkdir(os.path.join(d, fname))
                if case['shape'] == 'directory-with-a-file':
                    with open(os.path.join(d, fname, 'kept'), 'w') as f:
                        f.write('kept')
            before = faultfs.snapshot(root)
            w, fname = make_writer(case['w'], d)
            sig = 'C13|directory-in-the-way|%s|%s|%s' % (case['w'], case['shape'], case['via'])
            vs = []
            if case['via'] == 'putData':
                try:
                    w.putData(MODNAME, DATA['short'])
                    vs.append(('%s|returned-normally' % sig, 'no text can be under the module name: a directory is there'))
                except error.PySmiWriterError:
                    pass
                except Exception as exc:
                    vs.append(('%s|foreign-exception|%s' % (sig, type(exc).__name__), repr(exc)[:200]))
            else:
                text = 'TEST-MIB DEFINITIONS ::= BEGIN\nIMPORTS enterprises FROM SNMPv2-SMI;\nx OBJECT IDENTIFIER ::= { enterprises 1 }\nEND\n'
                parser = env.shared_parser('smiV2')
                parser.reset()
                comp = env.MibCompiler(parser, env.make_codegen('json' if 'file' in case['w'] else 'pysnmp'), w)
                texts = env.base_texts()
                texts[MODNAME] = text
                comp.addSources(env.DictReader(texts))
                comp.addSearchers(env.StubSearcher(*env.BASE_NAMES))
                try:
                    st = comp.compile(MODNAME, ignoreErrors=True).get(MODNAME)
                    if str(st) != 'failed' or not isinstance(getattr(st, 'error', None), error.PySmiWriterError):
                        vs.append(('%s|status-%s' % (sig, st), repr(getattr(st, 'error', None))[:200]))
                except Exception as exc:
                    vs.append(('%s|exception-escapes-compile|%s' % (sig, type(exc).__name__), repr(exc)[:200]))
            after = faultfs.snapshot(root)
            if after != before:
                vs.append(('%s|directory-tree-changed' % sig, 'before %r after %r' % (sorted(before or {}), sorted(after or {}))))
            return 'ok' if not vs else 'bad', vs, 1
        finally:
            shutil.rmtree(root, ignore_errors=True)


class RealSizeLimit(object):
    name = 'real-write-failures'
    describe = ('write failures made by the operating system, not by a patched os.write: RLIMIT_FSIZE (with SIGXFSZ ignored: a '
                'short write followed by EFBIG) at 0, 10, half, length-1 and length+100 octets x writer x fresh / existing '
                'destination x short / large / non-ASCII text: reaches the writes of a buffered file object as well as os.write()')

    def blocks(self, tier):
        return [{'w': w} for w in ('file', 'file.json', 'py.nocompile')]

    def cases(self, block, tier):
        for dest in ('absent', 'old-content'):
            for data in ('short', 'big', 'non-ascii'):
                for lim in ('0', '10', 'half', 'len-1', 'len+100'):
                    yield {'w': block['w'], 'dest': dest, 'data': data, 'limit': lim}

    def run_case(self, case):
        import resource
        import signal
        root = scratch()
        try:
            _, fname = make_writer(case['w'], root)
            d = prepare(root, case['dest'], fname)
            before = faultfs.snapshot(root)
            w, fname = make_writer(case['w'], d)
            data = DATA[case['data']]
            n = len(data.encode('utf-8'))
            limit = {'0': 0, '10': 10, 'half': n // 2, 'len-1': n - 1, 'len+100': n + 100}[case['limit']]
            soft, hard = resource.getrlimit(resource.RLIMIT_FSIZE)
            old_handler = signal.signal(signal.SIGXFSZ, signal.SIG_IGN)
            exc = None
            try:
                resource.setrlimit(resource.RLIMIT_FSIZE, (limit, hard))
                try:
                    w.putData(MODNAME, data)
                except BaseException as e:  # noqa
                    exc = e
            finally:
                resource.setrlimit(resource.RLIMIT_FSIZE, (soft, hard))
                signal.signal(signal.SIGXFSZ, old_handler)
            after = faultfs.snapshot(root)

            class Rec(object):
                injected = [(0, 'os.write', 'EFBIG-at-%s' % case['limit'])] if limit < n else []
            problems = judge_fs(d, fname, before, after, root, data, exc, Rec(), False, case['w'])
            if limit >= n and exc is not None:
                problems.append(('failed-below-the-limit', repr(exc)))
            if limit < n and n and exc is None:
                problems.append(('returned-normally-although-the-text-cannot-be-stored', 'limit %d, text %d octets' % (limit, n)))
            vs = [('C13|real-limit|%s|%s' % (case['w'], p_), '%s\ncase %r' % (det, case)) for p_, det in problems]
            return ('raised:%s' % type(exc).__name__ if exc else 'ok'), vs, 1
        finally:
            shutil.rmtree(root, ignore_errors=True)


class TwoWriters(object):
    case_timeout = 600
    name = 'two-writers'
    describe = ('two putData() calls for the same module with different data, every interleaving of their I/O calls '
                '(cooperative scheduler, switch point before every proxy call); also two PyFileWriters in a directory where byte-compiling '
                'fails for both (every schedule with <=3 preemptions, thorough: all): writer errors only, nothing partial')

    def blocks(self, tier):
        out = [{'w': 'file', 'dest': 'empty'}, {'w': 'file', 'dest': 'old-content'}, {'w': 'py.nocompile', 'dest': 'old-content'}]
        # a directory in which byte-compiling fails for everybody (every schedule with <= 3 preemptions; thorough: all)
        for fault in ('OSError', 'ValueError'):
            out += [{'w': 'py', 'dest': dest, 'always': {'py_compile.compile': fault}, 'bound': None if tier == 'thorough' else 3}
                    for dest in ('empty', 'old-content')]
        if tier == 'thorough':
            out += [{'w': 'file', 'dest': 'absent'}, {'w': 'py', 'dest': 'empty'}, {'w': 'py.nocompile', 'dest': 'absent'}]
        return out

    def cases(self, block, tier):
        yield dict(block)

    def run_case(self, case):
        datas = ['first = "writer one"\n' * 3, 'second = "writer two, longer text"\n' * 5]
        vs = []
        seen_sigs = set()
        outcomes = set()
        nsched = [0]
        nsteps = [0]

        def make():
            root = scratch()
            _, fname = make_writer(case['w'], root)
            d = prepare(root, case['dest'], fname)
            before = faultfs.snapshot(root)
            ctx = {'root': root, 'd': d, 'fname': fname, 'before': before}

            def body(tid):
                w, _ = make_writer(case['w'], d)
                w.putData(MODNAME, datas[tid])
                return 'ok'

            sch = sched.Scheduler([body, body])
            rec = faultfs.Recorder(case.get('always') or {}, on_point=lambda site: sch.point(site))
            ctx['rec'] = rec
            ctx['patch'] = faultfs.Patched(rec)
            ctx['patch'].__enter__()
            return sch, ctx

        def check(run, ctx, choices):
            ctx['patch'].__exit__()
            try:
                after = faultfs.snapshot(ctx['root'])
                nsched[0] += 1
                nsteps[0] += len(ctx['rec'].trace)
                rel = os.path.relpath(ctx['d'], ctx['root'])
                key = os.path.normpath(os.path.join(rel, ctx['fname']))
                content = (after or {}).get(key)
                old = (ctx['before'] or {}).get(key)
                ok_writers = [t for t in (0, 1) if t not in run.errors]
                probs = []
                for t, e in run.errors.items():
                    if not isinstance(e, error.PySmiWriterError):
                        probs.append(('foreign-exception|%s' % type(e).__name__, repr(e)))
                allowed = [datas[t].encode() for t in ok_writers] or [old]
                if case.get('always'):
                    allowed.append(None)   # a failure while byte-compiling an already stored module may remove that module
                if content not in allowed:
                    probs.append(('destination-not-one-of-the-writers-complete-texts',
                                  'content %r..., writers that returned normally %r' % ((content or b'')[:30], ok_writers)))
                for k in sorted(after or {}):
                    if os.path.normpath(os.path.dirname(k.rstrip('/'))) == os.path.normpath(rel) and '__pycache__' not in k \
                            and os.path.normpath(k.rstrip('/')) != key:
                        probs.append(('stray-entry-left-behind', 'entry %s' % k))
                outcomes.add((content == datas[0].encode(), tuple(sorted(run.errors))))
                for p, d in probs:
                    sig = 'C13|two-writers|%s|%s|%s' % (case['w'].split('.')[0] + ('+byte-compiling-fails' if case.get('always') else ''),
                                                        case['dest'], p)
                    if sig not in seen_sigs:
                        seen_sigs.add(sig)
                        vs.append((sig, '%s\nschedule %r\ntrace %r' % (d, choices, ctx['rec'].trace)))
            finally:
                shutil.rmtree(ctx['root'], ignore_errors=True)

        for _ in sched.explore(make, check, bound=case.get('bound')):
            pass
        return ('schedules=%d' % nsched[0], tuple(sorted(outcomes))), vs, (nsteps[0], nsched[0] - 1)


class TwoWritersOneFault(object):
    case_timeout = 1500
    name = 'two-writers-one-fault'
    describe = ('thorough: two concurrent putData() calls, every schedule with <=2 preemptions x every position of the interleaved '
                'call trace x every fault kind of that call: destination = complete text of a writer that returned normally '
                '(or the old content if none did), no temporary file left, only PySmiWriterError raised')

    def blocks(self, tier):
        if tier != 'thorough':
            return []
        return [{'w': 'file', 'dest': 'old-content'}, {'w': 'py.nocompile', 'dest': 'empty'}, {'w': 'file', 'dest': 'absent'}]

    def cases(self, block, tier):
        yield dict(block)

    def run_case(self, case):
        datas = ['first = "writer one"\n' * 3, 'second = "writer two, longer text"\n' * 5]
        vs = []
        seen_sigs = set()
        counters = {'runs': 0, 'steps': 0}

        def make_with(plan):
            def make():
                root = scratch()
                _, fname = make_writer(case['w'], root)
                d = prepare(root, case['dest'], fname)
                ctx = {'root': root, 'd': d, 'fname': fname, 'before': faultfs.snapshot(root)}

                def body(tid):
                    w, _ = make_writer(case['w'], d)
                    w.putData(MODNAME, datas[tid])
                    return 'ok'

                sch = sched.Scheduler([body, body])
                rec = faultfs.Recorder(plan, on_point=lambda site: sch.point(site))
                ctx['rec'] = rec
                ctx['patch'] = faultfs.Patched(rec)
                ctx['patch'].__enter__()
                return sch, ctx
            return make

        def finish(run, ctx, choices, plan):
            ctx['patch'].__exit__()
            try:
                after = faultfs.snapshot(ctx['root'])
                counters['runs'] += 1
                counters['steps'] += len(ctx['rec'].trace)
                rel = os.path.relpath(ctx['d'], ctx['root'])
                key = os.path.normpath(os.path.join(rel, ctx['fname']))
                content = (after or {}).get(key)
                old = (ctx['before'] or {}).get(key)
                ok_writers = [t for t in (0, 1) if t not in run.errors]
                cleanup_fault = any(s_ in ('os.unlink', 'os.access') for _, s_, f in ctx['rec'].injected)
                faults = '+'.join('%s=%s' % (s_.split('.')[-1], f) for _, s_, f in ctx['rec'].injected) or 'no-fault'
                probs = []
                for t, e in run.errors.items():
                    if not isinstance(e, error.PySmiWriterError) and not cleanup_fault:
                        probs.append(('foreign-exception|%s|%s' % (type(e).__name__, faults), repr(e)))
                allowed = [datas[t].encode() for t in ok_writers] or [old]
                if content not in allowed:
                    probs.append(('destination-not-a-complete-text-of-a-successful-writer|%s' % faults,
                                  'content %r..., writers that returned normally %r, old %r' % ((content or b'')[:30], ok_writers, old)))
                if not cleanup_fault:
                    for k in sorted(after or {}):
                        if os.path.normpath(os.path.dirname(k.rstrip('/'))) == os.path.normpath(rel) and '__pycache__' not in k \
                                and os.path.normpath(k.rstrip('/')) != key:
                            probs.append(('stray-entry-left-behind|%s' % faults, 'entry %s' % k))
                for p_, d_ in probs:
                    sig = 'C13|two-writers-fault|%s|%s|%s' % (case['w'].split('.')[0], case['dest'], p_)
                    if sig not in seen_sigs:
                        seen_sigs.add(sig)
                        vs.append((sig, '%s\nschedule %r plan %r\ntrace %r' % (d_, choices, plan, ctx['rec'].trace)))
                return list(ctx['rec'].trace)
            finally:
                shutil.rmtree(ctx['root'], ignore_errors=True)

        # 1. fault-free schedules with at most two preemptions; 2. each of them again with one fault at every position
        schedules = []

        def collect(run, ctx, choices):
            trace = finish(run, ctx, choices, {})
            schedules.append((choices, trace))

        for _ in sched.explore(make_with({}), collect, bound=2):
            pass
        for choices, trace in schedules:
            for i, site in enumerate(trace):
                for f in applicable(site):
                    plan = {i: f}
                    sch, ctx = make_with(plan)()
                    run = sch.execute(choices)
                    finish(run, ctx, choices, plan)
        return 'schedules=%d runs=%d' % (len(schedules), counters['runs']), vs, (counters['steps'], counters['runs'])


FAMILIES = [SingleWriter(), DryRun(), TwoWriters(), TwoWritersOneFault(), RealSizeLimit(), ThroughCompile(), DirectoryInTheWay()]
