"""C18 - the OID-to-module index covers every indexed OID and merges monotonically.

Explicit-state breadth-first search over the real JsonCodeGen.genIndex(): a state is (canonical index document,
facts indexed so far); a transition indexes one module (or two at once, in either dict order) with an ordered OID
tuple from a menu built on arcs whose decimal spellings share digits (4 / 48), nested and overlapping subtrees,
on top of the state's document.  Every state is checked:
  I1 each indexed module is listed under its identity, enterprise and compliance OIDs
  I2 every (module, OID) indexed so far is covered by a key that is a component-wise prefix of the OID and lists the module
  I3 every module listed under a key of the oids section defines that key
  I4 (through the accumulated facts) nothing an earlier index provided is lost
  I5 re-indexing the same results on top of the new document changes nothing
The same chains are replayed through MibCompiler.buildIndex() with a real FileWriter on a scratch directory.
"""
import json
import os
import shutil
import tempfile

from mc import core, env
from mc.env import error

BOUNDS = {
    'quick': '6-OID universe (singles and all ordered pairs = 36 contents) x 2 modules; BFS depth 3 from the empty index '
             '(depth 2 for two-modules-at-once transitions); buildIndex chains of depth 2',
    'thorough': '9-OID universe (singles, ordered pairs, ordered triples over 5 OIDs) x 3 modules; BFS depth 3',
}
ASSUMPTIONS = ['OIDs are passed to genIndex as ordered tuples so that every iteration order of the OID set is enumerated',
               'comments (time stamp, host) are masked']

P = '1.3.6.1.4.1.9'
UNIVERSE_Q = [P + s for s in ('.4', '.48', '.4.4', '.4.48', '.48.4', '.5')]
UNIVERSE_T = UNIVERSE_Q + [P + s for s in ('.4.4.4', '.48.48', '.5.4')]


def contents(tier):
    uni = UNIVERSE_T if tier == 'thorough' else UNIVERSE_Q
    out = [[o] for o in uni]
    for a in uni:
        for b in uni:
            if a != b:
                out.append([a, b])
    if tier == 'thorough':
        five = UNIVERSE_Q[:5]
        for a in five:
            for b in five:
                for c in five:
                    if len(set([a, b, c])) == 3:
                        out.append([a, b, c])
    return out


class Status(str):
    pass


def module_status(name, oids):
    """Attributes as MibCompiler.compile() sets them on a 'compiled' status."""
    st = Status('compiled')
    st.oids = tuple(oids)
    idx = {'M1': 0, 'M2': 1, 'M3': 2}[name]
    st.identity = oids[0] if idx == 0 else None
    st.enterprise = P if idx in (0, 2) else None
    st.compliance = [oids[-1]] if idx == 1 else []
    return st


def facts_of(name, oids):
    st = module_status(name, oids)
    f = set(('oid', name, o) for o in oids)
    if st.identity:
        f.add(('identity', name, st.identity))
    if st.enterprise:
        f.add(('enterprise', name, st.enterprise))
    for c in st.compliance:
        f.add(('compliance', name, c))
    return f


_gen = []


def gen():
    if not _gen:
        _gen.append(env.JsonCodeGen())
    return _gen[0]


def canon(text):
    doc = json.loads(text)
    doc.get('meta', {}).pop('comments', None)
    return json.dumps(doc, sort_keys=True)


def is_prefix(k, o):
    ka, oa = k.split('.'), o.split('.')
    return len(ka) <= len(oa) and oa[:len(ka)] == ka


def check_state(doc_text, facts, sig):
    vs = []
    doc = json.loads(doc_text)
    for sect in ('identity', 'enterprise', 'compliance', 'oids'):
        if not isinstance(doc.get(sect), dict):
            return [('%s|section-missing|%s' % (sig, sect), doc_text)]
    defined = {}
    for kind, m, o in facts:
        if kind == 'oid':
            defined.setdefault(m, set()).add(o)
    for kind, m, o in sorted(facts):
        if kind in ('identity', 'enterprise', 'compliance'):
            if m not in doc[kind].get(o, []):
                vs.append(('%s|I1-%s-entry-missing' % (sig, kind), 'module %s not under %s[%s]: %s' % (m, kind, o, doc_text)))
        else:
            if not any(is_prefix(k, o) and m in mods for k, mods in doc['oids'].items()):
                near = [k for k, mods in doc['oids'].items() if o.startswith(k) and m in mods]
                vs.append(('%s|I2-oid-not-covered%s' % (sig, '|string-prefix-only' if near else ''),
                           'module %s OID %s has no component-wise prefix entry naming it; oids section %s' % (
                               m, o, json.dumps(doc['oids'], sort_keys=True))))
    for k, mods in doc['oids'].items():
        for m in mods:
            if k not in defined.get(m, ()):
                vs.append(('%s|I3-module-listed-under-foreign-oid' % sig, 'module %s under %s; defines %r; oids section %s' % (
                    m, k, sorted(defined.get(m, ())), json.dumps(doc['oids'], sort_keys=True))))
        if len(mods) != len(set(mods)):
            vs.append(('%s|module-listed-twice' % sig, '%s: %r' % (k, mods)))
    return vs


def step(old_text, mods):
    """mods: ordered list of (name, oid list).  -> new canonical document text"""
    processed = {}
    for name, oids in mods:
        processed[name] = module_status(name, oids)
    new = gen().genIndex(processed, comments=['c'], old_index_data=old_text)
    return canon(new)


class Bfs(object):
    name = 'bfs'
    describe = ('breadth-first search over index documents: transitions = index module Mi with an ordered OID tuple from the menu on '
                'top of the current document; depth 3; every reached state checked for I1-I5')

    def blocks(self, tier):
        names = ['M1', 'M2', 'M3'] if tier == 'thorough' else ['M1', 'M2']
        cs = contents(tier)
        return [{'m': n, 'c': i} for n in names for i in range(len(cs))]

    def cases(self, block, tier):
        # one case = one first transition; the BFS below it is walked inside run_case (so that states are deduplicated)
        yield {'m': block['m'], 'c': block['c'], 'tier': tier}

    def run_case(self, case):
        tier = case['tier']
        names = ['M1', 'M2', 'M3'] if tier == 'thorough' else ['M1', 'M2']
        cs = contents(tier)
        vs = []
        seen = set()
        first = (case['m'], cs[case['c']])
        start = step('', [first])
        frontier = [(start, frozenset(facts_of(*first)), [first])]
        nstates = ntrans = 1
        depth = 1
        sigs = set()

        def report(v, path):
            for sig, det in v:
                if sig not in sigs:
                    sigs.add(sig)
                    vs.append((sig, '%s\npath %r' % (det, path)))

        report(check_state(start, facts_of(*first), 'C18|bfs'), [first])
        if step(start, [first]) != start:
            report([('C18|bfs|I5-reindexing-changes-the-index', start)], [first])
        seen.add((start, frozenset(facts_of(*first))))
        while frontier and depth < 3:
            nxt = []
            for doc, facts, path in frontier:
                for n in names:
                    for c in (cs if depth == 1 else cs[:len(UNIVERSE_Q) + 30:1] if tier != 'thorough' else cs[::3]):
                        mods = [(n, c)]
                        # a module keeps its definition: re-indexing Mi later uses the same OID set or a superset order
                        prev = [p for p in path if p[0] == n]
                        if prev and sorted(prev[-1][1]) != sorted(c):
                            continue
                        new = step(doc, mods)
                        ntrans += 1
                        f2 = frozenset(facts | facts_of(n, c))
                        if f2 == facts and new != doc and any(p[0] == n and list(p[1]) == list(c) for p in path):
                            # the very same results (module, OIDs in the same order) were indexed before, other modules since
                            report([('C18|bfs|I5-reindexing-earlier-results-changes-the-index', 'before %s\nafter  %s' % (doc, new))],
                                   path + mods)
                        key = (new, f2)
                        if key in seen:
                            continue
                        seen.add(key)
                        nstates += 1
                        report(check_state(new, f2, 'C18|bfs'), path + mods)
                        again = step(new, mods)
                        ntrans += 1
                        if again != new:
                            report([('C18|bfs|I5-reindexing-changes-the-index', 'first %s\nsecond %s' % (new, again))], path + mods)
                        nxt.append((new, f2, path + mods))
            frontier = nxt
            depth += 1
        return 'states=%d' % nstates, vs, (ntrans, nstates - 1)


class Pairs(object):
    name = 'two-at-once'
    describe = 'two modules indexed in one call, both dict orders, every pair of contents from the quick menu; then re-indexed'

    def blocks(self, tier):
        cs = contents('quick')
        return [{'c': i} for i in range(len(cs))]

    def cases(self, block, tier):
        cs = contents('quick')
        for j in range(len(cs)):
            for order in (0, 1):
                yield {'c1': block['c'], 'c2': j, 'order': order}

    def run_case(self, case):
        cs = contents('quick')
        mods = [('M1', cs[case['c1']]), ('M2', cs[case['c2']])]
        if case['order']:
            mods.reverse()
        facts = facts_of(*mods[0]) | facts_of(*mods[1])
        doc = step('', mods)
        vs = check_state(doc, facts, 'C18|two-at-once')
        if step(doc, mods) != doc:
            vs.append(('C18|two-at-once|I5-reindexing-changes-the-index', doc))
        # incremental = at once, as far as the cover is concerned
        inc = step(step('', mods[:1]), mods[1:])
        vs += check_state(inc, facts, 'C18|two-at-once|incremental')
        return doc, vs, 4


class BuildIndex(object):
    name = 'buildIndex'
    describe = ('MibCompiler.buildIndex() with a real FileWriter(.json) on a scratch directory: chains of two builds over the '
                'single-OID and digit-sharing pair contents, the later build given no options / the options of a compile() call '
                '(rebuild, noDeps, ...); the file on disk must satisfy the same invariants')

    def blocks(self, tier):
        return [{'c': i} for i in range(12)]

    # what a front end may hand to the later build: nothing, or the options it gave to compile()
    OPTS = [{}, {'rebuild': True}, {'ignoreErrors': True, 'dryRun': False},
            {'noDeps': True, 'rebuild': True, 'dryRun': False, 'genTexts': True, 'writeMibs': True, 'ignoreErrors': True}]

    def cases(self, block, tier):
        for j in range(12):
            for o in range(len(self.OPTS)):
                yield {'c1': block['c'], 'c2': j, 'o': o}
            # the index of the destination is a symbolic link to a file kept elsewhere (a shared index)
            yield {'c1': block['c'], 'c2': j, 'o': 0, 'linked': 1}
            # the SAME module indexed again in a grown edition: what it defined before plus the OIDs of the second content
            yield {'c1': block['c'], 'c2': j, 'o': 0, 'grown': 1}

    def run_case(self, case):
        from pysmi.compiler import MibCompiler
        from pysmi.writer.localfile import FileWriter
        cs = contents('quick')
        opts = self.OPTS[case.get('o', 0)]
        tag = 'C18|buildIndex' + ('|rebuild-option' if opts.get('rebuild') else '')
        base = os.environ.get('VERIF_TMP') or ('/dev/shm' if os.path.isdir('/dev/shm') else None)
        d = tempfile.mkdtemp(prefix='mcC18', dir=base)
        try:
            comp = MibCompiler(env.shared_parser('smiV2'), env.JsonCodeGen(), FileWriter(d).setOptions(suffix='.json'))
            vs = []
            facts = set()
            steps = [('M1', cs[case['c1']]), ('M2', cs[case['c2']])]
            if case.get('grown'):
                steps[1] = ('M1', list(cs[case['c1']]) + [o for o in cs[case['c2']] if o not in cs[case['c1']]])
                tag = 'C18|buildIndex|grown-edition'
            for name, c in steps:
                if name == 'M2' and case.get('linked'):
                    os.mkdir(os.path.join(d, 'shared'))
                    os.rename(os.path.join(d, 'index.json'), os.path.join(d, 'shared', 'the-index.json'))
                    os.symlink(os.path.join('shared', 'the-index.json'), os.path.join(d, 'index.json'))
                    tag = 'C18|buildIndex|linked-index'
                comp.buildIndex({name: module_status(name, c)}, **(opts if name == 'M2' else {}))
                facts |= facts_of(name, c)
                with open(os.path.join(d, 'index.json')) as f:
                    doc = f.read()
                vs += check_state(canon(doc), facts, tag)
            extra = sorted(x for x in os.listdir(d) if x not in ('index.json', 'shared'))
            if extra:
                vs.append(('C18|buildIndex|stray-files', repr(extra)))
            return canon(doc), vs, 2
        finally:
            shutil.rmtree(d, ignore_errors=True)


class DamagedIndex(object):
    name = 'damaged-earlier-index'
    describe = ('buildIndex() on a directory whose index.json was damaged after an earlier build (an octet that is no UTF-8, a cut, '
                'another JSON value, an empty file, CR LF line ends, a byte order mark): with and without ignoreErrors / dryRun the '
                'call returns or raises the package error - nothing else -, and an index that is still readable is built upon')

    DAMAGE = ['bad-octet', 'cut-in-half', 'a-json-list', 'empty', 'crlf-line-ends', 'bom']

    def blocks(self, tier):
        return [{}]

    def cases(self, block, tier):
        for dmg in self.DAMAGE:
            for opts in ({}, {'ignoreErrors': True}, {'dryRun': True}):
                yield {'damage': dmg, 'opts': opts}

    def run_case(self, case):
        from pysmi.compiler import MibCompiler
        from pysmi.writer.localfile import FileWriter
        cs = contents('quick')
        base = os.environ.get('VERIF_TMP') or ('/dev/shm' if os.path.isdir('/dev/shm') else None)
        d = tempfile.mkdtemp(prefix='mcC18d', dir=base)
        try:
            comp = MibCompiler(env.shared_parser('smiV2'), env.JsonCodeGen(), FileWriter(d).setOptions(suffix='.json'))
            comp.buildIndex({'M1': module_status('M1', cs[0])})
            ip = os.path.join(d, 'index.json')
            with open(ip, 'rb') as f:
                blob = f.read()
            dmg = case['damage']
            readable = dmg == 'crlf-line-ends'   # (a byte order mark makes the JSON parser give up: damaged)
            blob = {'bad-octet': blob[:40] + b'\xff' + blob[40:], 'cut-in-half': blob[:len(blob) // 2], 'a-json-list': b'[1, 2]',
                    'empty': b'', 'crlf-line-ends': blob.replace(b'\n', b'\r\n'), 'bom': b'\xef\xbb\xbf' + blob}[dmg]
            with open(ip, 'wb') as f:
                f.write(blob)
            sig = 'C18|damaged-index|%s%s' % (dmg, ''.join('|' + k for k in sorted(case['opts'])))
            vs = []
            try:
                comp.buildIndex({'M2': module_status('M2', cs[1])}, **case['opts'])
                got = 'returned'
            except error.PySmiError:
                got = 'PySmiError'
            except Exception as exc:
                got = 'foreign:' + type(exc).__name__
                vs.append(('%s|foreign-exception|%s' % (sig, type(exc).__name__), repr(exc)[:200]))
            if got == 'PySmiError' and case['opts'].get('ignoreErrors'):
                vs.append(('%s|error-raised-although-errors-are-ignored' % sig, ''))
            if got == 'returned' and readable and not case['opts']:
                with open(ip) as f:
                    doc = f.read()
                vs += check_state(canon(doc), facts_of('M1', cs[0]) | facts_of('M2', cs[1]), 'C18|damaged-index|%s' % dmg)
            return got, vs, 2
        finally:
            shutil.rmtree(d, ignore_errors=True)


class TwoCompilers(object):
    name = 'two-compilers-one-directory'
    describe = ('chains of three buildIndex() calls on ONE scratch directory issued by two MibCompiler objects in every turn-taking '
                'pattern (AAA, AAB, ABA, ABB), the middle build for real or as a dry run, modules M1 M2 M3 with contents from a '
                '6-item menu: the file on disk satisfies the invariants after every build and a dry run changes nothing')
    MENU = [0, 1, 6, 7, 12, 17]

    def blocks(self, tier):
        return [{'who': w, 'dry': d} for w in ('AAA', 'AAB', 'ABA', 'ABB') for d in (0, 1)]

    def cases(self, block, tier):
        import itertools
        for cs_ in itertools.product(self.MENU, repeat=3):
            yield {'who': block['who'], 'dry': block['dry'], 'c': list(cs_)}

    def run_case(self, case):
        from pysmi.compiler import MibCompiler
        from pysmi.writer.localfile import FileWriter
        cs = contents('quick')
        base = os.environ.get('VERIF_TMP') or ('/dev/shm' if os.path.isdir('/dev/shm') else None)
        d = tempfile.mkdtemp(prefix='mcC18', dir=base)
        try:
            comps = dict((k, MibCompiler(env.shared_parser('smiV2'), env.JsonCodeGen(), FileWriter(d).setOptions(suffix='.json')))
                         for k in 'AB')
            vs = []
            facts = set()
            doc = ''
            sig = 'C18|two-compilers|%s%s' % (case['who'], '|dry-run-in-the-middle' if case['dry'] else '')
            for i, (name, ci) in enumerate(zip(('M1', 'M2', 'M3'), case['c'])):
                dry = bool(case['dry'] and i == 1)
                before = doc
                comps[case['who'][i]].buildIndex({name: module_status(name, cs[ci])}, dryRun=dry)
                path = os.path.join(d, 'index.json')
                doc = open(path).read() if os.path.exists(path) else ''
                if dry:
                    if doc != before:
                        vs.append(('%s|dry-run-changed-the-index' % sig, 'before %r\nafter %r' % (before, doc)))
                    continue
                facts |= facts_of(name, cs[ci])
                vs += check_state(canon(doc), facts, sig)
            return canon(doc), vs, 3
        finally:
            shutil.rmtree(d, ignore_errors=True)



class CompileThenIndex(object):
    name = 'compile-then-index'
    describe = ('real modules compiled by MibCompiler (JSON) and indexed by buildIndex() on a scratch directory: a vendor subtree '
                '{ enterprises N } (N = 4, 48, 4242) declared after / before nodes that are NOT below an enterprise arc but spell '
                'alike - the enterprises node itself, { private 10 }, { private 14 }, { internet 41 } -, with / without '
                'MODULE-IDENTITY and MODULE-COMPLIANCE: the module is listed under its enterprise, identity and compliance OIDs')
    SIBLINGS = [None, 'enterprises', 'private10', 'private14', 'internet41']

    def blocks(self, tier):
        return [{'sib': i} for i in range(len(self.SIBLINGS))]

    def cases(self, block, tier):
        for n in (4, 48, 4242):
            for first in (0, 1):
                for ident in (0, 1):
                    yield {'sib': block['sib'], 'n': n, 'sibling_first': first, 'ident': ident}
                # a compliance statement with groups, one whose MODULE part names no group at all, one naming another module
                for compl in ('groups', 'bare', 'other-module'):
                    yield {'sib': block['sib'], 'n': n, 'sibling_first': first, 'ident': 1, 'compl': compl}
                # the OIDs of the MODULE-IDENTITY and of the MODULE-COMPLIANCE given a plain name first, in the same module
                yield {'sib': block['sib'], 'n': n, 'sibling_first': first, 'ident': 1, 'compl': 'groups', 'alias': 1}
                yield {'sib': block['sib'], 'n': n, 'sibling_first': first, 'ident': 1, 'alias': 1}
                # the vendor root (and with it identity / compliance OIDs below it) written out in full: all arcs as numbers,
                # or as name(number) pairs - no bare name in the value
                for spelling in ('numbers', 'pairs'):
                    for compl in (None, 'groups'):
                        yield {'sib': block['sib'], 'n': n, 'sibling_first': first, 'ident': 1, 'compl': compl, 'spelling': spelling}

    def run_case(self, case):
        from pysmi.compiler import MibCompiler
        from pysmi.writer.localfile import FileWriter
        sib = self.SIBLINGS[case['sib']]
        n = case['n']
        imports = ['private', 'internet']
        sibtext = {None: '', 'enterprises': 'enterprises OBJECT IDENTIFIER ::= { private 1 }\n',
                   'private10': 'lookAlike OBJECT IDENTIFIER ::= { private 10 }\n',
                   'private14': 'lookAlike OBJECT IDENTIFIER ::= { private 14 }\n',
                   'internet41': 'lookAlike OBJECT IDENTIFIER ::= { internet 41 }\n'}[sib]
        if sib != 'enterprises':
            imports.append('enterprises')
        root_oid = {None: 'enterprises %d' % n, 'numbers': '1 3 6 1 4 1 %d' % n,
                    'pairs': 'iso(1) org(3) dod(6) internet(1) private(4) enterprises(1) %d' % n}[case.get('spelling')]
        vendor = 'vendorRoot OBJECT IDENTIFIER ::= { %s }\nvendorLeaf OBJECT IDENTIFIER ::= { vendorRoot 1 }\n' % root_oid
        ident = ''
        if case['ident']:
            imports += ['MODULE-IDENTITY']
            ident = ('vendorModule MODULE-IDENTITY LAST-UPDATED "202001010000Z" ORGANIZATION "o" CONTACT-INFO "c" DESCRIPTION "d" '
                     '::= { %s }\n' % ('vendorRoot 9' if not case.get('spelling') else root_oid + ' 9'))
        confimp = ''
        if case.get('compl'):
            confimp = ' MODULE-COMPLIANCE, OBJECT-GROUP FROM SNMPv2-CONF'
            imports += ['OBJECT-TYPE']
            part = {'groups': 'MODULE MANDATORY-GROUPS { vendorGroup }', 'bare': 'MODULE -- this module',
                    'other-module': 'MODULE OTHER-MIB'}[case['compl']]
            ident += ('vendorObj OBJECT-TYPE SYNTAX INTEGER MAX-ACCESS read-only STATUS current DESCRIPTION "d" ::= { vendorRoot 2 }\n'
                      'vendorGroup OBJECT-GROUP OBJECTS { vendorObj } STATUS current DESCRIPTION "d" ::= { vendorRoot 3 }\n'
                      'vendorCompl MODULE-COMPLIANCE STATUS current DESCRIPTION "d" %s\n ::= { vendorRoot 4 }\n' % part)
        if case.get('alias'):
            ident = ('identityAlias OBJECT IDENTIFIER ::= { vendorRoot 9 }\ncomplianceAlias OBJECT IDENTIFIER ::= { vendorRoot 4 }\n' + ident)
        body = (sibtext + vendor + ident) if case['sibling_first'] else (vendor + ident + sibtext)
        text = 'VENDOR-MIB DEFINITIONS ::= BEGIN\nIMPORTS %s FROM SNMPv2-SMI%s;\n%sEND\n' % (', '.join(imports), confimp, body)
        base = os.environ.get('VERIF_TMP') or ('/dev/shm' if os.path.isdir('/dev/shm') else None)
        d = tempfile.mkdtemp(prefix='mcC18', dir=base)
        try:
            comp = MibCompiler(env.fresh_parser('smiV2'), env.JsonCodeGen(), FileWriter(d).setOptions(suffix='.json'))
            texts = env.base_texts()
            texts['VENDOR-MIB'] = text
            comp.addSources(env.DictReader(texts))
            comp.addSearchers(env.StubSearcher(*env.BASE_NAMES))
            res = comp.compile('VENDOR-MIB')
            sig = 'C18|compile-then-index|sibling=%s%s' % (sib, '|oids-named-before' if case.get('alias') else '')
            if res.get('VENDOR-MIB') != 'compiled':
                return 'notcompiled', [('%s|not-compiled' % sig, '%r\n%s' % (getattr(res.get('VENDOR-MIB'), 'error', None), text))], 1
            comp.buildIndex(res)
            with open(os.path.join(d, 'index.json')) as f:
                doc = json.load(f)
            vs = []
            ent = P.rsplit('.', 1)[0] + '.%d' % n
            if 'VENDOR-MIB' not in (doc.get('enterprise', {}).get(ent) or []):
                vs.append(('%s|not-listed-under-its-enterprise' % sig, 'enterprise section %r, expected VENDOR-MIB under %s\n%s' % (
                    doc.get('enterprise'), ent, text)))
            for k, mods in (doc.get('enterprise') or {}).items():
                if 'VENDOR-MIB' in mods and k != ent:
                    vs.append(('%s|listed-under-a-non-enterprise-oid' % sig, '%s: %r' % (k, mods)))
            if case['ident'] and 'VENDOR-MIB' not in (doc.get('identity', {}).get(ent + '.9') or []):
                vs.append(('%s|not-listed-under-its-identity' % sig, repr(doc.get('identity'))))
            if case.get('compl') and 'VENDOR-MIB' not in (doc.get('compliance', {}).get(ent + '.4') or []):
                vs.append(('%s|not-listed-under-its-compliance-oid|%s' % (sig, case['compl']), '%r\n%s' % (doc.get('compliance'), text)))
            oids = doc.get('oids', {})
            for o in (ent, ent + '.1'):
                if not any(is_prefix(k, o) and 'VENDOR-MIB' in v for k, v in oids.items()):
                    vs.append(('%s|oid-not-covered' % sig, '%s not covered by %r' % (o, oids)))
            return json.dumps(doc.get('enterprise'), sort_keys=True), vs, 2
        finally:
            shutil.rmtree(d, ignore_errors=True)

class TrapsBelowForeignNodes(object):
    name = 'traps-below-nodes-of-another-module'
    describe = ('an SMIv1 module with objects and TRAP-TYPEs whose ENTERPRISE node is imported from the vendor\'s registration module, '
                'declared locally, or written out in braces; 1-2 traps, trap numbers 0 / 5 / 2147483647; both modules compiled '
                '(relaxed SMIv1 dialect) and indexed, in one build or two: the trap module is listed under the OIDs of its objects '
                'and traps (<enterprise>.0.<n>) and under no OID it does not define; every OID of both modules is covered')

    def blocks(self, tier):
        return [{'ent': e} for e in ('imported', 'local', 'braces')]

    def cases(self, block, tier):
        for nums in ([5], [0], [2147483647], [5, 6]):
            for builds in (1, 2):
                for ent_n in (99, 4242):
                    yield {'ent': block['ent'], 'nums': nums, 'builds': builds, 'n': ent_n}

    def run_case(self, case):
        from pysmi.compiler import MibCompiler
        from pysmi.writer.localfile import FileWriter
        n = case['n']
        ent = '1.3.6.1.4.1.%d' % n
        smi = ('ACME-SMI DEFINITIONS ::= BEGIN\nIMPORTS enterprises FROM RFC1155-SMI;\nacme OBJECT IDENTIFIER ::= { enterprises %d }\n'
               'acmeProducts OBJECT IDENTIFIER ::= { acme 1 }\nEND\n' % n)
        if case['ent'] == 'imported':
            imp, local, entclause, trapbase = 'acme FROM ACME-SMI', '', 'acme', ent
        elif case['ent'] == 'local':
            imp, local, entclause, trapbase = 'acme FROM ACME-SMI', 'acmeTraps OBJECT IDENTIFIER ::= { acme 9 }\n', 'acmeTraps', ent + '.9'
        else:
            imp, local, entclause, trapbase = 'acme FROM ACME-SMI enterprises FROM RFC1155-SMI', '', '{ enterprises %d 8 }' % n, ent + '.8'
        traps = ''.join('acmeTrap%d TRAP-TYPE ENTERPRISE %s VARIABLES { acmeTemp } DESCRIPTION "d" ::= %d\n' % (i, entclause, num)
                        for i, num in enumerate(case['nums']))
        trapmod = ('ACME-TRAP-MIB DEFINITIONS ::= BEGIN\nIMPORTS %s OBJECT-TYPE FROM RFC-1212 TRAP-TYPE FROM RFC-1215;\n%s'
                   'acmeTemp OBJECT-TYPE SYNTAX INTEGER ACCESS read-only STATUS mandatory DESCRIPTION "t" ::= { acme 7 1 }\n%sEND\n' % (
                       imp, local, traps))
        defined = {'ACME-SMI': set([ent, ent + '.1']),
                   'ACME-TRAP-MIB': set([ent + '.7.1'] + ([ent + '.9'] if case['ent'] == 'local' else []) +
                                        ['%s.0.%d' % (trapbase, num) for num in case['nums']])}
        base = os.environ.get('VERIF_TMP') or ('/dev/shm' if os.path.isdir('/dev/shm') else None)
        d = tempfile.mkdtemp(prefix='mcC18', dir=base)
        try:
            parser = env.shared_parser('smiV1Relaxed')
            parser.reset()
            comp = MibCompiler(parser, env.JsonCodeGen(), FileWriter(d).setOptions(suffix='.json'))
            texts = env.base_texts()
            from mc import v1stubs
            texts.update(v1stubs.stub_texts([]))
            texts.update({'ACME-SMI': smi, 'ACME-TRAP-MIB': trapmod})
            comp.addSources(env.DictReader(texts))
            comp.addSearchers(env.StubSearcher(*(list(env.BASE_NAMES) + ['RFC1155-SMI', 'RFC-1212', 'RFC-1215'])))
            sig = 'C18|traps|enterprise-%s' % case['ent']
            res = comp.compile('ACME-TRAP-MIB')
            bad = [m for m in defined if res.get(m) != 'compiled']
            if bad:
                return 'notcompiled', [('%s|not-compiled' % sig, '%s: %r\n%s' % (bad[0], getattr(res.get(bad[0]), 'error', None), trapmod))], 1
            if case['builds'] == 1:
                comp.buildIndex(res)
            else:
                comp.buildIndex(dict((k, v) for k, v in res.items() if k == 'ACME-SMI'))
                comp.buildIndex(dict((k, v) for k, v in res.items() if k == 'ACME-TRAP-MIB'))
            with open(os.path.join(d, 'index.json')) as f:
                doc = json.load(f)
            vs = []
            oids = doc.get('oids', {})
            for m, own in sorted(defined.items()):
                for k, mods in sorted(oids.items()):
                    if m in mods and k not in own:
                        vs.append(('%s|listed-under-an-oid-it-does-not-define' % sig, '%s under %s; it defines %r\n%s' % (m, k, sorted(own), trapmod)))
                for o in sorted(own):
                    if not any(is_prefix(k, o) and m in v for k, v in oids.items()):
                        vs.append(('%s|oid-not-covered' % sig, '%s of %s not covered by %r' % (o, m, oids)))
                got = set(getattr(res[m], 'oids', ()) or ())
                if got != own:
                    vs.append(('%s|status.oids-differ' % sig, '%s: %r, defines %r' % (m, sorted(got), sorted(own))))
            return json.dumps(oids, sort_keys=True), vs, 2
        finally:
            shutil.rmtree(d, ignore_errors=True)


class FailedThenGood(object):
    name = 'failed-module-next-to-good-ones'
    describe = ('one MibCompiler (JSON): a module that FAILS in the code generator after it has declared nodes (3 kinds of failure, '
                'nodes before / after the failing declaration, with / without a MODULE-COMPLIANCE) compiled next to a good module - '
                'same call in either order, or an earlier call - then buildIndex(): the good module is listed under the OIDs it '
                'defines and under no OID of the failed module; the summary of the good module holds its own OIDs only')

    FAILS = {'empty-range-bound': "BadRange ::= INTEGER (''H..'ff'H)\n",
             'bits-defval-of-unknown-bit': ('badObj OBJECT-TYPE SYNTAX BITS { a(0) } MAX-ACCESS read-write STATUS current DESCRIPTION "d" '
                                            'DEFVAL { { zz } } ::= { badRoot 7 }\n'),
             'oid-defval-of-unknown-node': ('badObj OBJECT-TYPE SYNTAX OBJECT IDENTIFIER MAX-ACCESS read-write STATUS current '
                                            'DESCRIPTION "d" DEFVAL { nowhereNode } ::= { badRoot 7 }\n')}

    def blocks(self, tier):
        return [{'f': f} for f in sorted(self.FAILS)]

    def cases(self, block, tier):
        for nodes_first in (0, 1):
            for compl in (0, 1):
                for how in ('same-call-bad-first', 'same-call-good-first', 'earlier-call'):
                    yield {'f': block['f'], 'nodes_first': nodes_first, 'compl': compl, 'how': how}

    def run_case(self, case):
        from pysmi.compiler import MibCompiler
        from pysmi.writer.localfile import FileWriter
        nodes = 'badRoot OBJECT IDENTIFIER ::= { enterprises 111 }\nbadLeaf OBJECT IDENTIFIER ::= { badRoot 1 }\n'
        compl = ''
        imports = ['enterprises', 'OBJECT-TYPE']
        if case['compl']:
            compl = ('badGroup OBJECT-GROUP OBJECTS { badLeafObj } STATUS current DESCRIPTION "d" ::= { badRoot 3 }\n'
                     'badLeafObj OBJECT-TYPE SYNTAX INTEGER MAX-ACCESS read-only STATUS current DESCRIPTION "d" ::= { badRoot 4 }\n'
                     'badCompl MODULE-COMPLIANCE STATUS current DESCRIPTION "d" MODULE MANDATORY-GROUPS { badGroup } ::= { badRoot 5 }\n')
        fail = self.FAILS[case['f']]
        body = (nodes + compl + fail) if case['nodes_first'] else ('badRoot OBJECT IDENTIFIER ::= { enterprises 111 }\n' + fail +
                                                                  'badLeaf OBJECT IDENTIFIER ::= { badRoot 1 }\n' + compl)
        bad = ('BAD-MIB DEFINITIONS ::= BEGIN\nIMPORTS %s FROM SNMPv2-SMI OBJECT-GROUP, MODULE-COMPLIANCE FROM SNMPv2-CONF;\n%sEND\n'
               % (', '.join(imports), body))
        good = ('GOOD-MIB DEFINITIONS ::= BEGIN\nIMPORTS enterprises FROM SNMPv2-SMI;\n'
                'goodRoot OBJECT IDENTIFIER ::= { enterprises 222 }\ngoodLeaf OBJECT IDENTIFIER ::= { goodRoot 1 }\nEND\n')
        base = os.environ.get('VERIF_TMP') or ('/dev/shm' if os.path.isdir('/dev/shm') else None)
        d = tempfile.mkdtemp(prefix='mcC18f', dir=base)
        try:
            comp = MibCompiler(env.fresh_parser('smiV2'), env.JsonCodeGen(), FileWriter(d).setOptions(suffix='.json'))
            texts = env.base_texts()
            texts['BAD-MIB'] = bad
            texts['GOOD-MIB'] = good
            comp.addSources(env.DictReader(texts))
            comp.addSearchers(env.StubSearcher(*env.BASE_NAMES))
            if case['how'] == 'earlier-call':
                r0 = comp.compile('BAD-MIB', ignoreErrors=True)
                res = comp.compile('GOOD-MIB', ignoreErrors=True)
                res = dict(r0, **res)
            else:
                names = ['BAD-MIB', 'GOOD-MIB'] if case['how'] == 'same-call-bad-first' else ['GOOD-MIB', 'BAD-MIB']
                res = comp.compile(*names, **{'ignoreErrors': True})
            sig = 'C18|failed-then-good|%s|%s' % (case['f'], case['how'])
            if res.get('BAD-MIB') != 'failed' or res.get('GOOD-MIB') != 'compiled':
                raise core.InternalError('harness expectation: BAD-MIB failed, GOOD-MIB compiled; got %r / %r (%r)\n%s' % (
                    res.get('BAD-MIB'), res.get('GOOD-MIB'), getattr(res.get('BAD-MIB'), 'error', None), bad))
            vs = []
            own = set([P.rsplit('.', 1)[0] + '.222', P.rsplit('.', 1)[0] + '.222.1'])
            got = set(getattr(res['GOOD-MIB'], 'oids', ()) or ())
            if got != own:
                vs.append(('%s|summary-of-good-module-holds-other-oids' % sig, 'oids %r, declared %r' % (sorted(got), sorted(own))))
            if list(getattr(res['GOOD-MIB'], 'compliance', ()) or ()):
                vs.append(('%s|summary-of-good-module-holds-a-compliance-oid' % sig, repr(res['GOOD-MIB'].compliance)))
            comp.buildIndex(res)
            with open(os.path.join(d, 'index.json')) as f:
                doc = json.load(f)
            badroot = P.rsplit('.', 1)[0] + '.111'
            for section in ('oids', 'compliance', 'identity', 'enterprise'):
                for k, mods in (doc.get(section) or {}).items():
                    if 'GOOD-MIB' in mods and (k == badroot or k.startswith(badroot + '.')):
                        vs.append(('%s|good-module-listed-under-an-oid-of-the-failed-one|%s' % (sig, section), '%s: %r' % (k, mods)))
            for o in own:
                if not any(is_prefix(k, o) and 'GOOD-MIB' in v for k, v in (doc.get('oids') or {}).items()):
                    vs.append(('%s|oid-not-covered' % sig, '%s not covered by %r' % (o, doc.get('oids'))))
            return json.dumps(doc.get('oids'), sort_keys=True), vs, 3
        finally:
            shutil.rmtree(d, ignore_errors=True)


FAMILIES = [Bfs(), Pairs(), BuildIndex(), DamagedIndex(), TwoCompilers(), CompileThenIndex(), FailedThenGood(), TrapsBelowForeignNodes()]
