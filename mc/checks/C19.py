"""C19 - borrowing happens only for modules that cannot be compiled, and verbatim.

borrower-lists  lists of <=2 borrowers (real AnyFileBorrower around scripted readers, so the flavour test is the real
                one) x flavour x {has, absent, error} per module x failure placement on A / B (missing, syntax error,
                code generation error) x noDeps x genTexts x ignoreErrors x request (A imports B): judged by the
                compile() reference model - getData only for modules that were not built, in list order, only
                matching flavour reaches the reader, first hit written verbatim with status borrowed, repaired
                modules no longer count as failures, requested modules stay eligible under noDeps
file-borrowers  real PyFileBorrower / AnyFileBorrower around the real FileReader over a directory holding every
                extension variant of the module name: only the borrower's own extensions are served
"""
import itertools
import os
import shutil
import tempfile

from mc import compileharness as H
from mc.checks import C07
from mc.checks import C09
from mc.env import error

BOUNDS = {
    'quick': 'borrower lists <=2 (343) x 9 failure placements over {missing, syntax error} x 3 requests x 8 option vectors',
    'thorough': 'borrower lists <=2 x 16 failure placements over {missing, syntax error, code generation error} x 3 requests x '
                '8 option vectors; a searcher declaring the borrowed copy fresh',
}
ASSUMPTIONS = ['borrowed payloads are opaque texts; "verbatim" = byte-identical to what the borrower\'s reader returned']

BANS = ['absent', 'has', 'error']


def borrower_lists():
    one = []
    for texts in (False, True):
        for a, b in itertools.product(BANS, repeat=2):
            one.append({'texts': texts, 'ans': {'A': a, 'B': b}})
    yield []
    for x in one:
        yield [x]
    for x in one:
        for y in one:
            yield [x, y]
    # a borrower whose reader fails with the package's plain error type, alone and in front of every other borrower
    for texts in (False, True):
        bad = {'texts': texts, 'ans': {'A': 'plainerror', 'B': 'plainerror'}}
        yield [bad]
        for y in one:
            yield [bad, y]


class BorrowerLists(object):
    case_timeout = 10
    name = 'borrower-lists'
    describe = ('every borrower list of length <=2 over flavour x per-module answers x failures on A and/or B x noDeps x genTexts x '
                'ignoreErrors x request, module A importing module B')

    def blocks(self, tier):
        kinds = ['missing', 'synerr', 'generr'] if tier == 'thorough' else ['missing', 'synerr']
        pls = [[]] + [[('A', k)] for k in kinds] + [[('B', k)] for k in kinds] + \
              [[('A', k1), ('B', k2)] for k1 in kinds for k2 in kinds]
        return [{'pl': pl, 'fresh': f, 'chunk': c} for pl in pls for f in ((0, 1) if tier == 'thorough' else (0,))
                for c in range(7)]

    def cases(self, block, tier):
        for bl in list(borrower_lists())[block['chunk'] * 55:(block['chunk'] + 1) * 55]:
            for req in (['A'], ['A', 'B'], ['B']):
                for nd, gt, ie in itertools.product([False, True], repeat=3):
                    w = {'n': 2, 'edges': [['A', 'B']], 'req': req, 'used': 0, 'borrowers': bl}
                    for m, k in block['pl']:
                        C09.apply_failure(w, m, k)
                    o = {}
                    if nd:
                        o['noDeps'] = True
                    if gt:
                        o['genTexts'] = True
                    if ie:
                        o['ignoreErrors'] = True
                    if o:
                        w['opts'] = o
                    if block['fresh']:
                        w['searchers'] = [{'ans': {'A': 'fresh'}}]
                    yield w

    def run_case(self, case):
        obs = H.run_world(case)
        vs = H.judge(case, obs, 'C19|borrower-lists')
        # list order: a later borrower is consulted for m only after every earlier matching one was
        for m in ('A', 'B'):
            asked = [e[1] for e in obs['log'] if e[0] == 'borrow' and e[2] == m]
            if asked != sorted(asked):
                vs.append(('C19|borrower-lists|borrowers-out-of-order', '%s: %r' % (m, asked)))
        return H.observation_key(obs), vs, len(obs['log'])


class CopyAges(object):
    case_timeout = 10
    name = 'copy-ages'
    describe = ('two or three requested modules, every one failing (missing or syntax error) and borrowable; each borrowable copy '
                'older or newer (2 ages) than an existing transformed copy the searcher knows, or no such copy (3 states): every '
                'combination x every request order x one / two borrowers: a module is borrowed exactly when no existing copy is '
                'at least as new as ITS OWN borrowable copy')

    def blocks(self, tier):
        return [{'n': n, 'kind': k, 'nb': nb} for n in (2, 3) for k in ('missing', 'synerr') for nb in (1, 2)]

    def cases(self, block, tier):
        n = block['n']
        mods = H.USER[:n]
        for ages in itertools.product((1500, 2500), repeat=n):
            for copies in itertools.product((None, 2000), repeat=n):
                for req in itertools.permutations(mods):
                    if tier != 'thorough' and n == 3 and req[0] != 'A' and block['nb'] == 2:
                        continue
                    bl = [{'texts': False, 'ans': dict((m, 'has') for m in mods), 'mtime': dict(zip(mods, ages))}]
                    if block['nb'] == 2:
                        # the first borrower holds only the last module, with the opposite age
                        bl.insert(0, {'texts': False, 'ans': {mods[-1]: 'has'}, 'mtime': {mods[-1]: 4000 - ages[-1]}})
                    w = {'n': n, 'edges': [], 'req': list(req), 'used': 0, 'borrowers': bl,
                         'searchers': [{'copy': dict((m, c) for m, c in zip(mods, copies) if c is not None)}]}
                    for m in mods:
                        C09.apply_failure(w, m, block['kind'])
                    yield w

    def run_case(self, case):
        obs = H.run_world(case)
        vs = H.judge(case, obs, '%s|copy-ages' % getattr(self, 'prefix', 'C19'))
        return H.observation_key(obs), vs, len(obs['log'])


class RequestedByModuleName(object):
    case_timeout = 10
    name = 'requested-by-module-name'
    describe = ('a file known to the sources under one name holds a module called differently (second module of a two-module file, '
                'or a file named unlike its only module); the call names that MODULE as well as the file, in both orders, with / '
                'without a borrower holding a copy under the module name, ignoreErrors on/off, noDeps on/off: the module is '
                'compiled from the file and never replaced by the borrowed copy, whichever name is looked up first')

    def blocks(self, tier):
        return [{'k': k} for k in ('twomods', 'bundle', 'misnamed')]

    def cases(self, block, tier):
        k = block['k']
        other = 'AREAL' if k == 'misnamed' else 'AX'
        for req in ([other, 'A'], ['A', other], [other], ['A'], [other, 'A', 'B'], ['B', other, 'A']):
            for bor in (None, 'has', 'error'):
                for ie, nd in itertools.product([False, True], repeat=2):
                    w = {'n': 2, 'edges': [], 'req': req, 'used': 0, 'text': {'A': k}}
                    if bor:
                        w['borrowers'] = [{'texts': False, 'ans': {other: bor}}]
                    o = {}
                    if ie:
                        o['ignoreErrors'] = True
                    if nd:
                        o['noDeps'] = True
                    if o:
                        w['opts'] = o
                    yield w

    def run_case(self, case):
        obs = H.run_world(case)
        vs = H.judge(case, obs, 'C19|requested-by-module-name')
        return H.observation_key(obs), vs, len(obs['log'])


def payload(ext):
    """What a pre-transformed copy may look like: CR LF and bare CR line ends, a tab, non-ASCII, no final line end."""
    return 'content of FOO-MIB%s\r\nsecond line\rthird line\n\tcaf\u00e9 \u4e2d' % ext


EXTS = ['', '.py', '.pyc', '.json', '.txt', '.mib', '.my', '.PY', '.JSON']


class FileBorrowers(object):
    name = 'file-borrowers'
    describe = ('PyFileBorrower and AnyFileBorrower(exts=[.json]) around FileReader over a directory holding any one or two of the '
                'files NAME<ext> for 9 extensions: data is returned only from a file with one of the borrower\'s own extensions; '
                'flavour mismatch is refused before the directory is touched')

    def blocks(self, tier):
        return [{'b': b} for b in ('py', 'json')]

    def cases(self, block, tier):
        for present in itertools.chain(itertools.combinations(range(len(EXTS)), 1), itertools.combinations(range(len(EXTS)), 2),
                                       [()]):
            for want_texts, has_texts in itertools.product([False, True], repeat=2):
                yield {'b': block['b'], 'present': list(present), 'want': want_texts, 'has': has_texts}
            if len(present) == 1:
                # flavours are truth values on both sides; a directory that doubles as a MIB source has an .index naming the
                # ASN.1 file, which is no transformed copy
                for want_texts, has_texts in (('yes', True), (True, 'yes'), (1, True), (True, 1), (0, False), (False, None), ('', 0)):
                    yield {'b': block['b'], 'present': list(present), 'want': want_texts, 'has': has_texts}
                # the flavour may be given to the constructor, set afterwards, or changed between two requests
                for want_texts, has_texts in itertools.product([False, True], repeat=2):
                    for via in ('setOptions', 'relabelled'):
                        yield {'b': block['b'], 'present': list(present), 'want': want_texts, 'has': has_texts, 'via': via}
                yield {'b': block['b'], 'present': list(present), 'want': False, 'has': False, 'index': '.txt'}
                yield {'b': block['b'], 'present': list(present), 'want': False, 'has': False, 'index': '.py' if block['b'] == 'py' else '.json'}

    def run_case(self, case):
        from pysmi.borrower.pyfile import PyFileBorrower
        from pysmi.borrower.anyfile import AnyFileBorrower
        from pysmi.reader.localfile import FileReader
        base = os.environ.get('VERIF_TMP') or ('/dev/shm' if os.path.isdir('/dev/shm') else None)
        d = tempfile.mkdtemp(prefix='mcC19', dir=base)
        try:
            for i in case['present']:
                with open(os.path.join(d, 'FOO-MIB' + EXTS[i]), 'wb') as f:
                    f.write(payload(EXTS[i]).encode('utf-8'))
            own_ext = '.py' if case['b'] == 'py' else '.json'
            if case.get('index'):
                # the indexed file always exists; it is a candidate only when it carries one of the borrower's extensions
                with open(os.path.join(d, 'indexed' + case['index']), 'wb') as f:
                    f.write(payload('indexed' + case['index']).encode('utf-8'))
                with open(os.path.join(d, '.index'), 'w') as f:
                    f.write('FOO-MIB indexed%s\n' % case['index'])
            reader = FileReader(d).setOptions(lowcaseMatching=False)
            via = case.get('via', 'constructor')
            first = case['has'] if via == 'constructor' else (not case['has']) if via == 'relabelled' else None
            kw = {} if first is None else {'genTexts': first}
            if case['b'] == 'py':
                b = PyFileBorrower(reader, **kw)
                own = ['.py']
            else:
                b = AnyFileBorrower(reader, **kw).setOptions(exts=['.json'])
                own = ['.json']
            if via == 'relabelled':
                try:
                    b.getData('FOO-MIB', genTexts=case['want'])     # used once under its first label
                except error.PySmiError:
                    pass
            if via != 'constructor':
                b.setOptions(genTexts=case['has'])
            try:
                info, data = b.getData('FOO-MIB', genTexts=case['want'])
                got = data
            except error.PySmiError as exc:
                got = None
            except Exception as exc:
                return 'foreign', [('C19|file-borrowers|%s|foreign-exception|%s' % (case['b'], type(exc).__name__), repr(case))], 1
            allowed = [None]
            if bool(case['want']) == bool(case['has']):
                hits = [payload(EXTS[i]) for i in case['present'] if EXTS[i] in own]
                if case.get('index') == own_ext:
                    hits = [payload('indexed' + own_ext)]     # an index entry takes precedence - among the borrower's own files
                allowed = hits or [None]
            vs = []
            if got not in allowed:
                vs.append(('C19|file-borrowers|%s|served-%s|flavour-%s' % (
                    case['b'], 'nothing' if got is None else 'ext:' + got.split('\r\n')[0].replace('content of FOO-MIB', '')
                    if got.startswith('content of FOO-MIB') and got in [payload(e) for e in EXTS] else 'altered-content',
                    'match' if bool(case['want']) == bool(case['has']) else 'mismatch'), '%r -> %r, allowed %r' % (case, got, allowed)))
            return repr(got), vs, 1
        finally:
            shutil.rmtree(d, ignore_errors=True)


class BorrowedSpellings(object):
    name = 'copies-found-under-another-spelling'
    describe = ('the real compile() with a PyFileBorrower / AnyFileBorrower over a FileReader directory: the module Foo-Mib (source '
                'unparsable) has a copy stored as Foo-Mib / FOO-MIB / foo-mib <ext> (reader matching options on / off): when a copy is '
                'served it is written verbatim under the MODULE name asked for, the status is borrowed; a file that is the copy of '
                'another module (Foo, Foo-Mib-MIB: the fuzzy spellings) is never taken')

    STEMS = ['Foo-Mib', 'FOO-MIB', 'foo-mib', 'Foo', 'Foo-Mib-MIB', 'FOO', 'foo-mib-mib']

    def blocks(self, tier):
        return [{'b': b} for b in ('py', 'json')]

    def cases(self, block, tier):
        for stem in range(len(self.STEMS)):
            for lower in (False, True):
                for upper in (False, True):
                    for fuzzy in (None, True):
                        yield {'b': block['b'], 'stem': stem, 'lower': lower, 'upper': upper, 'fuzzy': fuzzy}

    def run_case(self, case):
        from pysmi.borrower.pyfile import PyFileBorrower
        from pysmi.borrower.anyfile import AnyFileBorrower
        from pysmi.reader.localfile import FileReader
        from mc import env
        base = os.environ.get('VERIF_TMP') or ('/dev/shm' if os.path.isdir('/dev/shm') else None)
        d = tempfile.mkdtemp(prefix='mcC19s', dir=base)
        try:
            ext = '.py' if case['b'] == 'py' else '.json'
            stem = self.STEMS[case['stem']]
            copy = payload(ext) + ' stored as ' + stem
            with open(os.path.join(d, stem + ext), 'wb') as f:
                f.write(copy.encode('utf-8'))
            opts = {'lowcaseMatching': case['lower'], 'uppercaseMatching': case['upper']}
            if case['fuzzy'] is not None:
                opts['fuzzyMatching'] = case['fuzzy']    # the READER may be told to match loosely: that is for MIB file names
            reader = FileReader(d).setOptions(**opts)
            b = PyFileBorrower(reader) if case['b'] == 'py' else AnyFileBorrower(reader).setOptions(exts=['.json'])
            written = []

            class W(object):
                def setOptions(self, **kw):
                    return self

                def putData(self, name, data, comments=(), dryRun=False):
                    written.append((name, data))

                def getData(self, name):
                    return ''
            comp = env.MibCompiler(env.fresh_parser('smiV2'), env.make_codegen('json' if case['b'] == 'json' else 'pysnmp'), W())
            texts = env.base_texts()
            texts['Foo-Mib'] = 'Foo-Mib DEFINITIONS ::= BEGIN this does not parse END\n'
            comp.addSources(env.DictReader(texts))
            comp.addSearchers(env.StubSearcher(*env.BASE_NAMES))
            comp.addBorrowers(b)
            try:
                res = comp.compile('Foo-Mib')
            except Exception as exc:
                return 'escaped', [('C19|spellings|%s|exception-escapes|%s' % (case['b'], type(exc).__name__), repr(case))], 1
            st = str(res.get('Foo-Mib'))
            # which spellings of the NAME may answer for the module Foo-Mib: the name as given, and its upper / lower case form
            # when the reader matches those; never another module's name
            ok_stems = ['Foo-Mib'] + (['FOO-MIB'] if case['upper'] else []) + (['foo-mib'] if case['lower'] else [])
            vs = []
            sig = 'C19|spellings|%s|%s%s' % (case['b'], stem, '|fuzzy-reader' if case['fuzzy'] else '')
            if stem in ok_stems:
                if st != 'borrowed' or written != [('Foo-Mib', copy)]:
                    vs.append(('%s|copy-not-stored-under-the-module-name' % sig, 'status %s, written %r\ncase %r' % (
                        st, [(n, t[:40]) for n, t in written], case)))
            else:
                if st == 'borrowed' or written:
                    vs.append(('%s|copy-of-another-module-taken' % sig, 'status %s, written %r\ncase %r' % (
                        st, [(n, t[:40]) for n, t in written], case)))
            return '%s:%r' % (st, [n for n, t in written]), vs, 1
        finally:
            shutil.rmtree(d, ignore_errors=True)


class ThroughTheRealWriters(object):
    name = 'borrowed-copies-through-the-real-writers'
    describe = ('the real compile() with a PyFileBorrower / AnyFileBorrower and the real PyFileWriter (byte-compilation on / off) / '
                'FileWriter on a scratch destination: the borrowed copy is ordinary Python, Python 2 (print statement, 0777), cut in '
                'the middle of a statement, headed by a coding line naming no codec, text that is no Python at all, non-ASCII; '
                'ignoreErrors on / off: the status is borrowed and the destination holds the copy, octet for octet')

    COPIES = {'ordinary': 'x = 1\n', 'python2': 'print "borrowed"\nmode = 0777\n', 'cut': 'def f(a,\n', 'bad-coding': '# -*- coding: no-such-codec -*-\nx = 1\n',
              'no-python': 'MIB::= {{ this is no Python at all }} $\n', 'non-ascii': '# caf\u00e9 \u4e2d\nx = "\u00e9"\n', 'tabs': 'if 1:\n\tx = 1\n        y = 2\n'}

    def blocks(self, tier):
        return [{'w': w} for w in ('py-compile', 'py-nocompile', 'file-json')]

    def cases(self, block, tier):
        for c in sorted(self.COPIES):
            for ie in (False, True):
                yield {'w': block['w'], 'copy': c, 'ie': ie}
        # a directory sits where the copy is to be stored: the writer fails on that very module
        for ie in (False, True):
            yield {'w': block['w'], 'copy': 'ordinary', 'ie': ie, 'blocked': 1}

    def run_case(self, case):
        from pysmi.borrower.pyfile import PyFileBorrower
        from pysmi.borrower.anyfile import AnyFileBorrower
        from pysmi.reader.localfile import FileReader
        from pysmi.writer.pyfile import PyFileWriter
        from pysmi.writer.localfile import FileWriter
        from mc import env
        base = os.environ.get('VERIF_TMP') or ('/dev/shm' if os.path.isdir('/dev/shm') else None)
        root = tempfile.mkdtemp(prefix='mcC19w', dir=base)
        try:
            bdir, dst = os.path.join(root, 'borrow'), os.path.join(root, 'dst')
            os.mkdir(bdir)
            os.mkdir(dst)
            js = case['w'] == 'file-json'
            ext = '.json' if js else '.py'
            copy = self.COPIES[case['copy']]
            with open(os.path.join(bdir, 'FOO-MIB' + ext), 'wb') as f:
                f.write(copy.encode('utf-8'))
            if case.get('blocked'):
                os.mkdir(os.path.join(dst, 'FOO-MIB' + ext))
                with open(os.path.join(dst, 'FOO-MIB' + ext, 'in-the-way'), 'w') as f:
                    f.write('x')
            reader = FileReader(bdir)
            b = AnyFileBorrower(reader).setOptions(exts=['.json']) if js else PyFileBorrower(reader)
            if js:
                w = FileWriter(dst).setOptions(suffix='.json')
            else:
                w = PyFileWriter(dst).setOptions(pyCompile=case['w'] == 'py-compile', pyOptimizationLevel=0)
            parser = env.shared_parser('smiV2')
            parser.reset()
            comp = env.MibCompiler(parser, env.make_codegen('json' if js else 'pysnmp'), w)
            texts = env.base_texts()
            texts['FOO-MIB'] = 'FOO-MIB DEFINITIONS ::= BEGIN this does not parse END\n'
            comp.addSources(env.DictReader(texts))
            comp.addSearchers(env.StubSearcher(*env.BASE_NAMES))
            comp.addBorrowers(b)
            sig = 'C19|real-writers|%s|%s' % (case['w'], case['copy'])
            try:
                res = comp.compile('FOO-MIB', ignoreErrors=case['ie'])
            except Exception as exc:
                return 'escaped', [('%s|exception-escapes|%s' % (sig, type(exc).__name__), repr(exc)[:300])], 1
            st = res.get('FOO-MIB')
            if case.get('blocked'):
                vs = []
                if str(st) != 'failed' or not isinstance(getattr(st, 'error', None), error.PySmiWriterError):
                    vs.append(('%s|store-failed-but-status-%s' % (sig.replace('|ordinary', '|directory-in-the-way'), st),
                               'error %r' % (getattr(st, 'error', None),)))
                return 'blocked:%s' % st, vs, 1
            stored = None
            if os.path.exists(os.path.join(dst, 'FOO-MIB' + ext)):
                with open(os.path.join(dst, 'FOO-MIB' + ext), 'rb') as f:
                    stored = f.read()
            vs = []
            if str(st) != 'borrowed':
                vs.append(('%s|status-%s-where-borrowed' % (sig, st), '%r' % (getattr(st, 'error', None),)))
            if stored != copy.encode('utf-8'):
                vs.append(('%s|destination-does-not-hold-the-copy' % sig, 'stored %r, copy %r' % (stored, copy.encode('utf-8'))))
            return '%s:%s' % (st, stored is not None), vs, 1
        finally:
            shutil.rmtree(root, ignore_errors=True)


class SeveralPerFile(C07.SeveralPerFile):
    """C07's worlds of multi-module files over two sources, with a borrower that holds one of the modules: a module for which a
    sound copy is found (later in the same file, in its own file, at a later source) is compiled, never borrowed; the broken
    module of an explicitly requested file stays eligible under noDeps."""
    prefix = 'C19'

    def select(self, world):
        return bool(world.get('borrowers'))


FAMILIES = [BorrowerLists(), FileBorrowers(), CopyAges(), RequestedByModuleName(), BorrowedSpellings(), SeveralPerFile(), ThroughTheRealWriters()]
