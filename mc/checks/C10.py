"""C10 - up-to-date modules are not regenerated; rebuild, noDeps and stubs act as documented.

searcher-lists  lists of <=2 searchers x answers {fresh, absent, error, normal return} per module and searcher x
                protocol-following / stub-like (ignores rebuild) x rebuild x noDeps x request, on the compile() harness:
                first 'fresh' in list order => untouched, no genCode, no putData; rebuild silences protocol-following
                searchers only; noDeps restricts generation to requested modules
file-searchers  the real AnyFileSearcher, PyFileSearcher and PyPackageSearcher on a scratch directory: every
                combination of {X.ext absent / regular file / directory, other-extension file, lower-case name,
                longer name, legacy X.pyc absent / valid / bad magic} x (destination mtime - source mtime) in
                {-2,-1,0,1,2} s x rebuild: 'not modified' iff a regular file X.ext with mtime >= source exists
"""
import importlib.util
import itertools
import os
import shutil
import struct
import sys
import tempfile

from mc import compileharness as H
from mc import env
from mc.env import error

BOUNDS = {
    'quick': 'searcher lists: 2 modules, 2 searchers, 4 answers each (256) x 4 stub-likeness x rebuild x noDeps x 2 requests; '
             'file searchers: complete product described above',
    'thorough': 'same, plus 3 graphs and genTexts/ignoreErrors toggles for the searcher lists',
}
ASSUMPTIONS = [               'PyPackageSearcher is exercised for regular (non-egg) packages only']

ANS = ['absent', 'fresh', 'error', 'normal']


class SearcherLists(object):
    case_timeout = 10
    name = 'searcher-lists'
    describe = ('2 searchers x {fresh, absent(stale), error, normal return} for each of 2 modules x each searcher protocol-following or '
                'stub-like x rebuild x noDeps x request [A] / [A, B] with A importing B')

    def blocks(self, tier):
        return [{'a': a} for a in range(16)]

    def cases(self, block, tier):
        a0 = ANS[block['a'] // 4]
        a1 = ANS[block['a'] % 4]
        graphs = [[['A', 'B']]] + ([[], [['A', 'B'], ['B', 'A']]] if tier == 'thorough' else [])
        extra = [{}] + ([{'genTexts': True}, {'ignoreErrors': True}] if tier == 'thorough' else [])
        for b0, b1 in itertools.product(ANS, repeat=2):
            for h0, h1 in itertools.product([True, False], repeat=2):
                for rebuild, nodeps in itertools.product([False, True], repeat=2):
                    for req in (['A'], ['A', 'B'], ['B']):
                        for g in graphs:
                            for ex in extra:
                                o = dict(ex)
                                if rebuild:
                                    o['rebuild'] = True
                                if nodeps:
                                    o['noDeps'] = True
                                w = {'n': 2, 'edges': g, 'req': req, 'used': 0,
                                     'searchers': [{'honours_rebuild': h0, 'ans': {'A': a0, 'B': b0}},
                                                   {'honours_rebuild': h1, 'ans': {'A': a1, 'B': b1}}]}
                                if o:
                                    w['opts'] = o
                                yield w

    def run_case(self, case):
        obs = H.run_world(case)
        vs = H.judge(case, obs, 'C10|searcher-lists')
        # the order in which the searchers were consulted for each module
        for m in ('A', 'B'):
            asked = [e[1] for e in obs['log'] if e[0] == 'search' and e[2] == m]
            if asked != sorted(asked):
                vs.append(('C10|searcher-lists|searchers-out-of-order', '%s: %r' % (m, asked)))
        return H.observation_key(obs), vs, len(obs['log'])


def scratch():
    base = os.environ.get('VERIF_TMP') or ('/dev/shm' if os.path.isdir('/dev/shm') else None)
    return tempfile.mkdtemp(prefix='mcC10', dir=base)


SRC_MTIME = 1600000000


def populate(d, name, ext, main, other_ext, lower, longer, pyc, delta):
    """Create the destination directory content.  main: 0 absent, 1 regular file, 2 directory."""
    def touch(path, mtime, data=b'x'):
        with open(path, 'wb') as f:
            f.write(data)
        os.utime(path, (mtime, mtime))

    if main == 1:
        touch(os.path.join(d, name + ext), SRC_MTIME + delta)
    elif main == 2:
        os.mkdir(os.path.join(d, name + ext))
        os.utime(os.path.join(d, name + ext), (SRC_MTIME + 100, SRC_MTIME + 100))
    if other_ext:
        touch(os.path.join(d, name + other_ext), SRC_MTIME + 100)
    if lower and name.lower() != name:
        touch(os.path.join(d, name.lower() + ext), SRC_MTIME + 100)
    if longer:
        touch(os.path.join(d, name + 'X' + ext), SRC_MTIME + 100)
        touch(os.path.join(d, 'X' + name + ext), SRC_MTIME + 100)
    if pyc == 8:
        # a side-by-side .pyc that exists but cannot be read (root ignores permission bits: a link to a file whose read() fails)
        os.symlink('/proc/self/mem', os.path.join(d, name + '.pyc'))
        return
    if pyc:
        # pyc: 1 time-stamped, same age as the .py; 2 foreign magic; 3 time-stamped, source one second older than ours;
        # 4 time-stamped, source one second newer; 5 hash-based (PEP 552 flags bit 0: the next 8 octets are a hash)
        magic = importlib.util.MAGIC_NUMBER if pyc != 2 else b'\x00\x00\r\n'
        recorded = {1: SRC_MTIME + delta, 2: SRC_MTIME + delta, 3: SRC_MTIME - 1, 4: SRC_MTIME + 1}.get(pyc)
        # a legacy side-by-side byte code file as py_compile writes it: magic, flags, source mtime, source size
        if pyc == 5:
            body = struct.pack('<L', 1) + b'\xec\x9f\x6e\xbe\x01\x02\x03\x04'   # read as a time this would be year 2071
        elif pyc in (6, 7):
            body = b'\x00' * (0 if pyc == 6 else 6)   # an interrupted copy: the header is cut after the magic / inside the time
        else:
            body = struct.pack('<LLL', 0, recorded, 1)
        touch(os.path.join(d, name + '.pyc'), SRC_MTIME + 100, magic + body + (b'\x00' * 8 if pyc < 6 else b''))


def ask(searcher, name, rebuild):
    try:
        r = searcher.fileExists(name, SRC_MTIME, rebuild=rebuild)
        return 'return:%r' % (r,)
    except error.PySmiFileNotModifiedError:
        return 'not-modified'
    except error.PySmiFileNotFoundError:
        return 'not-found'
    except error.PySmiError as exc:
        return 'error:%s' % type(exc).__name__
    except Exception as exc:
        return 'foreign:%s' % type(exc).__name__


class FileSearchers(object):
    name = 'file-searchers'
    describe = ('real AnyFileSearcher (exts .json / .json+.txt), PyFileSearcher and PyPackageSearcher over every combination of '
                'directory entries x mtime difference -2..2 s x rebuild; module names FOO-MIB and Foo')

    def blocks(self, tier):
        return [{'kind': k, 'name': n} for k in ('any1', 'any2', 'py', 'pkg', 'pkgdot', 'pkgdotdecoy', 'pkgns')
                for n in ('FOO-MIB', 'Foo')]

    def cases(self, block, tier):
        pycs = (0, 1, 2, 3, 4, 5, 6, 7, 8) if block['kind'] in ('py', 'pkg') else (0, 1, 2) if block['kind'].startswith('pkg') else (0,)
        for main, other, lower, longer, pyc, delta, rebuild in itertools.product(
                (0, 1, 2), (0, 1), (0, 1), (0, 1), pycs, (-2, -1, 0, 1, 2), (0, 1)):
            yield {'kind': block['kind'], 'name': block['name'], 'main': main, 'other': other, 'lower': lower,
                   'longer': longer, 'pyc': pyc, 'delta': delta, 'rebuild': rebuild}

    def run_case(self, case):
        from pysmi.searcher.anyfile import AnyFileSearcher
        from pysmi.searcher.pyfile import PyFileSearcher
        from pysmi.searcher.pypackage import PyPackageSearcher
        d = scratch()
        pkgname = None
        try:
            kind, name = case['kind'], case['name']
            ext = '.py' if kind.startswith('p') else '.json'
            other_ext = {'any1': '.txt', 'any2': '.bak', 'py': '.pyo'}.get(kind, '.txt')
            target = d
            if kind.startswith('pkg'):
                pkgname = top = os.path.basename(d)
                target = d
                if kind != 'pkgns':   # pkgns: a namespace package (a directory without __init__.py)
                    with open(os.path.join(d, '__init__.py'), 'w') as f:
                        f.write('')
                if kind not in ('pkg', 'pkgns'):
                    # a dotted package name: the modules live in <top>.mibs; with the decoy the directory of <top>
                    # itself holds an up-to-date file of the requested name, which is not part of the package asked
                    target = os.path.join(d, 'mibs')
                    os.mkdir(target)
                    with open(os.path.join(target, '__init__.py'), 'w') as f:
                        f.write('')
                    pkgname = top + '.mibs'
                    if kind == 'pkgdotdecoy':
                        populate(d, name, ext, 1, None, 0, 0, 0, 2)
                sys.path.insert(0, os.path.dirname(d))
            populate(target, name, ext, case['main'], other_ext if case['other'] else None, case['lower'], case['longer'],
                     case['pyc'], case['delta'])
            if kind == 'any1':
                s = AnyFileSearcher(d).setOptions(exts=['.json'])
            elif kind == 'any2':
                s = AnyFileSearcher(d).setOptions(exts=['.txt2', '.json'])
            elif kind == 'py':
                s = PyFileSearcher(d)
            else:
                s = PyPackageSearcher(pkgname)
            got = ask(s, name, bool(case['rebuild']))
            # a transformed copy is X.py or a valid side-by-side X.pyc (which records the mtime of its source)
            fresh = ((case['main'] == 1 or case['pyc'] == 1) and case['delta'] >= 0) or case['pyc'] == 4
            if case['rebuild']:
                want = ('return:None',)
            elif fresh:
                want = ('not-modified',)
            else:
                want = ('not-found',)
            vs = []
            if got not in want:
                feat = []
                if case['pyc']:
                    feat.append('legacy-pyc-%s' % {1: 'valid', 2: 'badmagic', 3: 'stale', 4: 'fresh', 5: 'hash-based', 6: 'cut-after-magic', 7: 'cut-inside-header', 8: 'unreadable'}[case['pyc']])
                if case['main'] == 2:
                    feat.append('directory')
                feat.append('delta%+d' % case['delta'] if case['main'] == 1 else 'no-file')
                vs.append(('C10|file-searchers|%s|answered-%s-where-%s|%s' % (kind, got, want[0], ','.join(feat)),
                           'case %r' % (case,)))
            return got, vs, 1
        finally:
            if pkgname:
                sys.path.remove(os.path.dirname(d))
                top = pkgname.split('.')[0]
                for k in [k for k in sys.modules if k == top or k.startswith(top + '.')]:
                    del sys.modules[k]
                importlib.invalidate_caches()
            shutil.rmtree(d, ignore_errors=True)


class SeveralSearchers(object):
    name = 'several-searchers-in-one-process'
    describe = ('two or three AnyFileSearcher objects configured one after the other for DIFFERENT extensions (.json / .py / .txt, '
                'given as a list or a tuple), over the same or separate directories holding a fresh FOO-MIB file of one extension: '
                'each searcher answers for its own extensions only, whatever the others were told')

    EXTS = ['.json', '.py', '.txt']

    def blocks(self, tier):
        return [{'n': n} for n in (2, 3)]

    def cases(self, block, tier):
        for exts in itertools.permutations(self.EXTS, block['n']):
            for present in self.EXTS:
                for shared in (0, 1):
                    for as_tuple in (0, 1):
                        yield {'exts': list(exts), 'present': present, 'shared': shared, 'tuple': as_tuple}

    def run_case(self, case):
        from pysmi.searcher.anyfile import AnyFileSearcher
        dirs = []
        try:
            n = len(case['exts'])
            base = scratch()
            dirs.append(base)
            ds = [base] * n if case['shared'] else [base] + [scratch() for _ in range(n - 1)]
            dirs += [d for d in ds[1:] if d != base]
            for d in set(ds):
                populate(d, 'FOO-MIB', case['present'], 1, None, 0, 0, 0, 1)
            searchers = []
            for d, e in zip(ds, case['exts']):
                searchers.append(AnyFileSearcher(d).setOptions(exts=(e,) if case['tuple'] else [e]))
            vs, got_all = [], []
            for i, (sr, e) in enumerate(zip(searchers, case['exts'])):
                got = ask(sr, 'FOO-MIB', False)
                got_all.append(got)
                want = 'not-modified' if e == case['present'] else 'not-found'
                if got != want:
                    vs.append(('C10|several-searchers|searcher-%d-of-%d|answered-%s-where-%s' % (i + 1, n, got, want),
                               'searchers for %r (in that order of construction), file FOO-MIB%s present; searcher for %s says %s' % (
                                   case['exts'], case['present'], e, got)))
            return tuple(got_all), vs, n
        finally:
            for d in dirs:
                shutil.rmtree(d, ignore_errors=True)


class LookAlikeSearchers(object):
    name = 'look-alike-searchers-on-one-compiler'
    describe = ('ONE MibCompiler with two searchers of one class that print alike: two StubSearchers with different lists, two '
                'AnyFileSearchers over one directory told different extensions, two PyFileSearchers over one directory - added in '
                'one addSearchers() call or in two; modules A (imports B) and B each covered by the first, the second, both or '
                'none; rebuild on/off: a module is left alone exactly when SOME configured searcher vouches for it (stub lists '
                'also under rebuild)')

    def blocks(self, tier):
        return [{'kind': k} for k in ('stub', 'anyfile', 'pyfile')]

    def cases(self, block, tier):
        for ca in range(4):
            for cb in range(4):
                for calls in (1, 2):
                    for rebuild in (False, True):
                        yield {'kind': block['kind'], 'A': ca, 'B': cb, 'calls': calls, 'rebuild': rebuild}

    def run_case(self, case):
        from pysmi.searcher.anyfile import AnyFileSearcher
        from pysmi.searcher.pyfile import PyFileSearcher
        from pysmi.searcher.stub import StubSearcher
        d = scratch()
        try:
            cover = {'A': case['A'], 'B': case['B']}      # bit 0: the first searcher vouches, bit 1: the second
            if case['kind'] == 'stub':
                ss = [StubSearcher(*[m for m in 'AB' if cover[m] & 1]), StubSearcher(*[m for m in 'AB' if cover[m] & 2])]
            elif case['kind'] == 'anyfile':
                for m in 'AB':
                    for bit, ext in ((1, '.json'), (2, '.txt')):
                        if cover[m] & bit:
                            with open(os.path.join(d, m + ext), 'w') as f:
                                f.write('copy')
                            os.utime(os.path.join(d, m + ext), (SRC_MTIME + 100, SRC_MTIME + 100))
                ss = [AnyFileSearcher(d).setOptions(exts=['.json']), AnyFileSearcher(d).setOptions(exts=['.txt'])]
            else:
                for m in 'AB':
                    if cover[m]:
                        with open(os.path.join(d, m + '.py'), 'w') as f:
                            f.write('# copy')
                        os.utime(os.path.join(d, m + '.py'), (SRC_MTIME + 100, SRC_MTIME + 100))
                ss = [PyFileSearcher(d), PyFileSearcher(d)]
            texts = env.base_texts()
            texts['A'] = 'A DEFINITIONS ::= BEGIN\nIMPORTS b FROM B;\na OBJECT IDENTIFIER ::= { b 1 }\nEND\n'
            texts['B'] = 'B DEFINITIONS ::= BEGIN\nIMPORTS enterprises FROM SNMPv2-SMI;\nb OBJECT IDENTIFIER ::= { enterprises 9 }\nEND\n'
            w = env.CaptureWriter()
            parser = env.shared_parser('smiV2')
            parser.reset()
            comp = env.MibCompiler(parser, env.make_codegen('json'), w)
            comp.addSources(env.DictReader(texts, mtime=SRC_MTIME))
            comp.addSearchers(env.StubSearcher(*env.BASE_NAMES))
            if case['calls'] == 1:
                comp.addSearchers(*ss)
            else:
                comp.addSearchers(ss[0])
                comp.addSearchers(ss[1])
            res = comp.compile('A', rebuild=case['rebuild'])
            vs = []
            for m in 'AB':
                vouched = bool(cover[m]) and (case['kind'] == 'stub' or not case['rebuild'])
                want = 'untouched' if vouched else 'compiled'
                if str(res.get(m)) != want:
                    vs.append(('C10|look-alike-searchers|%s|%s-where-%s|%s' % (
                        case['kind'], res.get(m), want, 'covered-by-the-%s' % {0: 'none', 1: 'first', 2: 'second', 3: 'both'}[cover[m]]),
                        'module %s, case %r, statuses %r' % (m, case, dict((k, str(v)) for k, v in res.items()))))
            return repr(sorted((k, str(v)) for k, v in res.items() if k in 'AB')), vs, 1
        finally:
            shutil.rmtree(d, ignore_errors=True)


class NoSearchers(object):
    name = 'the-empty-searcher-list'
    describe = ('a compiler with NO searcher at all (and with a single empty stub list): A imports B imports the base modules; every '
                'request x noDeps x rebuild x dryRun: without noDeps every module of the closure is generated and handed over, with '
                'noDeps only the requested ones - nobody vouches for anything, and nothing but noDeps holds a module back')

    def blocks(self, tier):
        return [{'searchers': k} for k in ('none', 'empty-stub-list')]

    def cases(self, block, tier):
        for req in (['A'], ['B'], ['A', 'B'], ['B', 'A']):
            for nd in (False, True):
                for rb in (False, True):
                    for dry in (False, True):
                        yield {'searchers': block['searchers'], 'req': req, 'noDeps': nd, 'rebuild': rb, 'dryRun': dry}

    def run_case(self, case):
        from pysmi.searcher.stub import StubSearcher
        texts = env.base_texts()
        texts['A'] = 'A DEFINITIONS ::= BEGIN\nIMPORTS b FROM B;\na OBJECT IDENTIFIER ::= { b 1 }\nEND\n'
        texts['B'] = 'B DEFINITIONS ::= BEGIN\nIMPORTS enterprises FROM SNMPv2-SMI;\nb OBJECT IDENTIFIER ::= { enterprises 9 }\nEND\n'
        w = env.CaptureWriter()
        parser = env.shared_parser('smiV2')
        parser.reset()
        comp = env.MibCompiler(parser, env.make_codegen('json'), w)
        comp.addSources(env.DictReader(texts))
        if case['searchers'] == 'empty-stub-list':
            comp.addSearchers(StubSearcher())
        res = comp.compile(*case['req'], noDeps=case['noDeps'], rebuild=case['rebuild'], dryRun=case['dryRun'])
        closure = set(['A', 'B', 'SNMPv2-SMI']) if 'A' in case['req'] else set(['B', 'SNMPv2-SMI'])
        # (the generators add SNMPv2-TC / SNMPv2-CONF to what every module imports)
        closure |= set(k for k in res if k in env.BASE_NAMES)
        vs = []
        sig = 'C10|no-searchers|%s%s' % (case['searchers'], '|noDeps' if case['noDeps'] else '')
        written = [n for n, d, dry in w.written]
        for m in sorted(closure):
            want = 'compiled' if (not case['noDeps'] or m in case['req']) else 'untouched'
            if str(res.get(m)) != want:
                vs.append(('%s|%s-where-%s' % (sig, res.get(m), want), 'module %s, case %r, statuses %r' % (m, case, dict((k, str(v)) for k, v in res.items()))))
            if (want == 'compiled') != (written.count(m) == 1):
                vs.append(('%s|hand-over-disagrees-with-%s' % (sig, want), 'module %s written %d times' % (m, written.count(m))))
        return repr(sorted((k, str(v)) for k, v in res.items())), vs, 1


class StubNames(object):
    name = 'stub-lists-and-name-fragments'
    describe = ('the real StubSearcher over the stub list of the pysnmp code generator and over short lists: asked for every listed '
                'name, for fragments of listed names (ADDRESS-MIB, SNMPv2, TC, MIB, a name plus a letter), for other case spellings '
                'and for the empty name, with and without rebuild: up to date exactly for the listed names')

    def blocks(self, tier):
        return [{}]

    def cases(self, block, tier):
        for lst in (0, 1, 2):
            yield {'list': lst}

    def run_case(self, case):
        from pysmi.searcher.stub import StubSearcher
        from pysmi.codegen.pysnmp import PySnmpCodeGen
        names = [list(PySnmpCodeGen.baseMibs), ['SNMPv2-SMI', 'INET-ADDRESS-MIB'], ['FOO-MIB']][case['list']]
        s = StubSearcher(*names)
        probes = set(names)
        for n in names:
            for i in range(1, len(n)):
                probes.add(n[i:])
                probes.add(n[:i])
            probes.update([n + 'X', 'X' + n, n.lower(), n.title(), n + ', ', ', ' + n])
        probes.update(['', ',', ', ', 'MIB', 'SNMPv2', 'TC'])
        vs = []
        nasked = 0
        for p_ in sorted(probes):
            for rebuild in (False, True):
                got = ask(s, p_, rebuild)
                nasked += 1
                want = 'not-modified' if p_ in names else 'not-found'
                if got != want:
                    vs.append(('C10|stub-names|answered-%s-where-%s|%s' % (got, want, 'rebuild' if rebuild else 'plain'),
                               'stub list %r asked for %r' % (names[:6], p_)))
                    break
        dedup = {}
        for sig, d in vs:
            dedup.setdefault(sig, d)
        return 'ok' if not vs else 'bad', list(dedup.items()), nasked


class ReaderToSearcher(object):
    name = 'reader-to-searcher'
    describe = ('the modification time the REAL FileReader reports for a source file handed to the real PyFileSearcher / '
                'AnyFileSearcher / PyPackageSearcher over a destination holding a transformed copy; source and copy times with '
                'sub-second parts (x.00, x.25, x.75) one second apart, in the same second, and equal; the source a plain file, a '
                'symbolic link made 100 s before / after the text was last written, a hard link, a file in a linked directory, a member of '
                'an archive, of an archive inside an archive packed 100 s before / after: up '
                'to date exactly when the copy is not older than the TEXT')

    def blocks(self, tier):
        return [{'kind': k} for k in ('any', 'py', 'pkg')]

    def cases(self, block, tier):
        for sfrac in (0.0, 0.25, 0.75):
            for dsec in (-1, 0, 1):
                for dfrac in (0.0, 0.25, 0.75):
                    for layout in ('plain', 'link-made-earlier', 'link-made-later', 'hard-link', 'directory-link'):
                        yield {'kind': block['kind'], 'sfrac': sfrac, 'dsec': dsec, 'dfrac': dfrac, 'layout': layout}
                    if sfrac == 0.0:
                        # the text is a member of an archive, or of an archive inside the archive that was packed 100 s before /
                        # after the text was written (archive stamps have whole, even seconds)
                        for layout in ('zip-member', 'zip-nested-packed-earlier', 'zip-nested-packed-later'):
                            yield {'kind': block['kind'], 'sfrac': sfrac, 'dsec': dsec, 'dfrac': dfrac, 'layout': layout}

    def run_case(self, case):
        from pysmi.reader.localfile import FileReader
        from pysmi.searcher.anyfile import AnyFileSearcher
        from pysmi.searcher.pyfile import PyFileSearcher
        from pysmi.searcher.pypackage import PyPackageSearcher
        src, dst = scratch(), scratch()
        pkgname = None
        try:
            sp = os.path.join(src, 'FOO-MIB.mib')
            layout = case.get('layout', 'plain')
            st = SRC_MTIME + case['sfrac']
            if layout.startswith('zip'):
                import datetime
                import io
                import time
                import zipfile
                from pysmi.reader.zipreader import ZipReader

                def dos(t):
                    return time.localtime(t)[:6]
                inner = io.BytesIO()
                with zipfile.ZipFile(inner, 'w') as z:
                    z.writestr(zipfile.ZipInfo('FOO-MIB.mib', date_time=dos(st)), 'FOO-MIB DEFINITIONS ::= BEGIN END\n')
                blob = inner.getvalue()
                if layout != 'zip-member':
                    outer = io.BytesIO()
                    with zipfile.ZipFile(outer, 'w') as z:
                        z.writestr(zipfile.ZipInfo('vendor.zip', date_time=dos(st + (-100 if layout.endswith('earlier') else 100))), blob)
                    blob = outer.getvalue()
                zp = os.path.join(src, 'mibs.zip')
                with open(zp, 'wb') as f:
                    f.write(blob)
                ext = '.json' if case['kind'] == 'any' else '.py'
                dp = os.path.join(dst, 'FOO-MIB' + ext)
                with open(dp, 'w') as f:
                    f.write('x')
                dt = SRC_MTIME + case['dsec'] + case['dfrac']
                os.utime(dp, (dt, dt))
                info, text = ZipReader(zp).getData('FOO-MIB')
                if case['kind'] == 'any':
                    s = AnyFileSearcher(dst).setOptions(exts=['.json'])
                elif case['kind'] == 'py':
                    s = PyFileSearcher(dst)
                else:
                    with open(os.path.join(dst, '__init__.py'), 'w') as f:
                        f.write('')
                    pkgname = os.path.basename(dst)
                    sys.path.insert(0, os.path.dirname(dst))
                    s = PyPackageSearcher(pkgname)
                try:
                    r = s.fileExists('FOO-MIB', info.mtime)
                    got = 'return:%r' % (r,)
                except error.PySmiFileNotModifiedError:
                    got = 'not-modified'
                except error.PySmiFileNotFoundError:
                    got = 'not-found'
                except Exception as exc:
                    got = 'foreign:%s' % type(exc).__name__
                want = 'not-modified' if os.stat(dp).st_mtime >= st else 'not-found'
                vs = []
                if got != want:
                    vs.append(('C10|reader-to-searcher|%s|answered-%s-where-%s|%s' % (case['kind'], got, want, layout),
                               'member stamp %r (reader reports %r), copy mtime %r' % (st, info.mtime, dt)))
                return got, vs, 1
            if layout == 'plain':
                real = sp
            else:
                # the text lives elsewhere; the source directory reaches it through a link with a time stamp of its own
                os.mkdir(os.path.join(dst, 'vendor'))
                real = os.path.join(dst, 'vendor', 'FOO-MIB.mib')
            with open(real, 'w') as f:
                f.write('FOO-MIB DEFINITIONS ::= BEGIN END\n')
            os.utime(real, (st, st))
            if layout in ('link-made-earlier', 'link-made-later'):
                os.symlink(real, sp)
                lt = st + (-100 if layout == 'link-made-earlier' else 100)
                os.utime(sp, (lt, lt), follow_symlinks=False)
            elif layout == 'hard-link':
                os.link(real, sp)
            elif layout == 'directory-link':
                os.rmdir(src)
                os.symlink(os.path.join(dst, 'vendor'), src)
            ext = '.json' if case['kind'] == 'any' else '.py'
            dp = os.path.join(dst, 'FOO-MIB' + ext)
            with open(dp, 'w') as f:
                f.write('x')
            dt = SRC_MTIME + case['dsec'] + case['dfrac']
            os.utime(dp, (dt, dt))
            info, text = FileReader(src).getData('FOO-MIB')
            if case['kind'] == 'any':
                s = AnyFileSearcher(dst).setOptions(exts=['.json'])
            elif case['kind'] == 'py':
                s = PyFileSearcher(dst)
            else:
                with open(os.path.join(dst, '__init__.py'), 'w') as f:
                    f.write('')
                pkgname = os.path.basename(dst)
                sys.path.insert(0, os.path.dirname(dst))
                s = PyPackageSearcher(pkgname)
            try:
                r = s.fileExists('FOO-MIB', info.mtime)
                got = 'return:%r' % (r,)
            except error.PySmiFileNotModifiedError:
                got = 'not-modified'
            except error.PySmiFileNotFoundError:
                got = 'not-found'
            except Exception as exc:
                got = 'foreign:%s' % type(exc).__name__
            # 'not older than the source's': the times as the file system keeps them, not cut to whole seconds
            want = 'not-modified' if os.stat(dp).st_mtime >= os.stat(sp).st_mtime else 'not-found'
            vs = []
            if got != want:
                vs.append(('C10|reader-to-searcher|%s|answered-%s-where-%s|%s' % (
                    case['kind'], got, want, ('same-second' if int(dt) == int(st) else 'other-second') +
                    ('' if layout == 'plain' else '|' + layout)),
                    'source mtime %r (reader reports %r), copy mtime %r' % (st, info.mtime, dt)))
            return got, vs, 1
        finally:
            if pkgname:
                sys.path.remove(os.path.dirname(dst))
                for k in [k for k in sys.modules if k == pkgname or k.startswith(pkgname + '.')]:
                    del sys.modules[k]
                importlib.invalidate_caches()
            if os.path.islink(src):
                os.unlink(src)
            shutil.rmtree(src, ignore_errors=True)
            shutil.rmtree(dst, ignore_errors=True)


class NoDepsFileNames(object):
    name = 'nodeps-and-file-names'
    describe = ('FOO-MIB imports BAR-MIB; both on disk under every documented file-name variant (as given, lower case, with '
                'extension, -MIB suffix removed) read by the real FileReader with fuzzy matching; request FOO-MIB / BAR-MIB / both, '
                'noDeps on/off: exactly the requested modules are generated under noDeps, all otherwise')
    VARIANTS = {'FOO-MIB': ['FOO-MIB', 'FOO-MIB.mib', 'foo-mib.txt', 'FOO.mib', 'foo.my'],
                'BAR-MIB': ['BAR-MIB', 'bar-mib.mib', 'BAR.txt']}

    def blocks(self, tier):
        return [{'f': f} for f in self.VARIANTS['FOO-MIB']]

    def cases(self, block, tier):
        for b in self.VARIANTS['BAR-MIB']:
            for req in (['FOO-MIB'], ['BAR-MIB'], ['FOO-MIB', 'BAR-MIB'], ['BAR-MIB', 'FOO-MIB']):
                for nd in (False, True):
                    yield {'f': block['f'], 'b': b, 'req': req, 'nd': nd}
                    if 'FOO-MIB' in req and b == 'BAR-MIB':
                        # the request may spell the name as the reader's matching options allow: lower / mixed case, no -MIB
                        for spell in ('foo-mib', 'Foo-Mib', 'FOO', 'foo'):
                            yield {'f': block['f'], 'b': b, 'req': req, 'nd': nd, 'spell': spell}

    def run_case(self, case):
        from mc import env
        from pysmi.reader.localfile import FileReader
        d = scratch()
        try:
            for bname in env.BASE_NAMES:
                with open(os.path.join(d, bname), 'w') as f:
                    f.write(env.base_text(bname))
            with open(os.path.join(d, case['b']), 'w') as f:
                f.write('BAR-MIB DEFINITIONS ::= BEGIN\nIMPORTS enterprises FROM SNMPv2-SMI;\nbar OBJECT IDENTIFIER ::= { enterprises 2 }\nEND\n')
            with open(os.path.join(d, case['f']), 'w') as f:
                f.write('FOO-MIB DEFINITIONS ::= BEGIN\nIMPORTS bar FROM BAR-MIB;\nfoo OBJECT IDENTIFIER ::= { bar 1 }\nEND\n')
            w = env.CaptureWriter()
            comp = env.MibCompiler(env.fresh_parser('smiV2'), env.make_codegen('json'), w)
            comp.addSources(FileReader(d).setOptions(fuzzyMatching=True))
            comp.addSearchers(env.StubSearcher(*env.BASE_NAMES))
            asked = [case.get('spell', m) if m == 'FOO-MIB' else m for m in case['req']]
            res = comp.compile(*asked, noDeps=case['nd'])
            written = sorted(n for n, _, _ in w.written)
            want = {}
            closure = ['FOO-MIB', 'BAR-MIB'] if 'FOO-MIB' in case['req'] else ['BAR-MIB']
            for m in closure:
                want[m] = 'compiled' if (not case['nd'] or m in case['req']) else 'untouched'
            vs = []
            sig = 'C10|nodeps-file-names|%s%s' % ('noDeps' if case['nd'] else 'deps', '|requested-in-another-spelling' if case.get('spell') else '')
            for m, st in sorted(want.items()):
                if str(res.get(m)) != st:
                    how = 'as-given' if (case['f'] if m == 'FOO-MIB' else case['b']).split('.')[0] == m else 'other-spelling'
                    vs.append(('%s|%s-module-%s-where-%s|file-name-%s' % (sig, 'requested' if m in case['req'] else 'imported',
                                                                      res.get(m), st, how),
                               'request %r, files %r %r, statuses %r, written %r' % (
                                   case['req'], case['f'], case['b'], dict((k, str(v)) for k, v in res.items()), written)))
            if written != sorted(m for m, st in want.items() if st == 'compiled'):
                vs.append(('%s|written-set-differs' % sig, 'written %r, expected %r' % (written, want)))
            return repr(sorted((k, str(v)) for k, v in res.items())), vs, 1
        finally:
            shutil.rmtree(d, ignore_errors=True)



class SearcherHistories(object):
    name = 'searcher-histories'
    describe = ('ONE file searcher object (AnyFileSearcher, PyFileSearcher, PyPackageSearcher) lives through every sequence of <=4 '
                'events over {ask, an up-to-date copy appears, a stale copy appears, the copy is removed} on a destination directory '
                'that exists or is created only with the first copy: every answer equals that of a searcher made afresh')
    EVENTS = ['ask', 'fresh-copy', 'stale-copy', 'remove']

    def blocks(self, tier):
        return [{'kind': k, 'dir_exists': d} for k in ('any', 'py', 'pkg') for d in (1, 0) if not (k == 'pkg' and d == 0)]

    def cases(self, block, tier):
        for ln in (1, 2, 3, 4):
            for seq in itertools.product(range(4), repeat=ln):
                if seq[-1] == 0 and any(seq[:-1]):
                    yield {'kind': block['kind'], 'dir_exists': block['dir_exists'], 'seq': list(seq)}

    def run_case(self, case):
        from pysmi.searcher.anyfile import AnyFileSearcher
        from pysmi.searcher.pyfile import PyFileSearcher
        from pysmi.searcher.pypackage import PyPackageSearcher
        root = scratch()
        d = os.path.join(root, 'dst')
        pkgname = None
        try:
            if case['dir_exists']:
                os.mkdir(d)
            ext = '.json' if case['kind'] == 'any' else '.py'

            def make():
                if case['kind'] == 'any':
                    return AnyFileSearcher(d).setOptions(exts=['.json'])
                if case['kind'] == 'py':
                    return PyFileSearcher(d)
                return PyPackageSearcher(pkgname)
            if case['kind'] == 'pkg':
                with open(os.path.join(d, '__init__.py'), 'w') as f:
                    f.write('')
                pkgname = 'dst'
                sys.path.insert(0, root)
            used = make()
            vs = []
            got = None
            for pos, ev in enumerate(case['seq']):
                name = self.EVENTS[ev]
                path = os.path.join(d, 'FOO-MIB' + ext)
                if name == 'ask':
                    got = ask(used, 'FOO-MIB', False)
                    want = ask(make(), 'FOO-MIB', False)
                    if got != want:
                        vs.append(('C10|searcher-history|%s|answered-%s-where-a-fresh-searcher-says-%s|after-%s' % (
                            case['kind'], got, want, self.EVENTS[case['seq'][pos - 1]] if pos else 'nothing'),
                            'events %r position %d' % ([self.EVENTS[e] for e in case['seq']], pos)))
                        break
                elif name == 'remove':
                    if os.path.exists(path):
                        os.unlink(path)
                else:
                    if not os.path.isdir(d):
                        os.mkdir(d)
                    with open(path, 'w') as f:
                        f.write('x')
                    t = SRC_MTIME + (5 if name == 'fresh-copy' else -5)
                    os.utime(path, (t, t))
            return repr(got), vs, len(case['seq'])
        finally:
            if pkgname:
                sys.path.remove(root)
                for k in [k for k in sys.modules if k == pkgname or k.startswith(pkgname + '.')]:
                    del sys.modules[k]
                importlib.invalidate_caches()
            shutil.rmtree(root, ignore_errors=True)

def _borrowed_copy_ages():
    from mc.checks import C19

    class BorrowedCopyAges(C19.CopyAges):
        """The freshness rule for modules that can only be borrowed: each module's existing copy is compared with the age of ITS OWN
        borrowable copy (two or three failing modules with copies of different ages in one call)."""
        prefix = 'C10'
        name = 'ages-of-borrowable-copies'
    return BorrowedCopyAges()


FAMILIES = [SearcherLists(), FileSearchers(), SeveralSearchers(), LookAlikeSearchers(), NoSearchers(), StubNames(), ReaderToSearcher(), NoDepsFileNames(), SearcherHistories(),
            _borrowed_copy_ages()]
