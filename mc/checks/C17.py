"""C17 - grammar relaxations only add accepted inputs and mean what they say.

lattice    for every buildable subset S of the nine relaxation options (thorough: all 384; quick: the three shipped
           dialects, every subset of size <=1, every {supportSmiV1Keywords, o} pair and the supersets needed for their
           covering edges) and every option o not in S: every corpus text is parsed under S and under S+{o}; a text
           accepted under S must give the identical tree under S+{o}, unless it uses a word that o reserves
breakages  each documented malformed construct applied at every applicable position of a carrier text: accepted under
           its option (alone where buildable, and inside the shipped relaxed dialect) with the tree of the corrected
           text (modulo the identifier whose case is the breakage)
options    buildable subsets are exactly those with supportIndex => supportSmiV1Keywords; unknown option names raise
           the package error
"""
import itertools
import os

from mc import catalogue, mibspec
from mc.env import error, parserFactory

BOUNDS = {
    'quick': '24 option subsets with all covering edges among them x 575 catalogue texts + breakage texts',
    'thorough': 'all 384 buildable subsets, all 1536 covering edges x 575 catalogue texts + breakage texts',
}
ASSUMPTIONS = ['words reserved by supportSmiV1Keywords: NetworkAddress, MAX (texts using them as identifiers are exempt on that edge)']

OPTIONS = ['supportSmiV1Keywords', 'supportIndex', 'commaAtTheEndOfImport', 'commaAtTheEndOfSequence',
           'mixOfCommasAndSpaces', 'uppercaseIdentifier', 'lowcaseIdentifier', 'curlyBracesAroundEnterpriseInTrap', 'noCells']
RESERVED_BY = {'supportSmiV1Keywords': ('NetworkAddress', 'MAX')}


def buildable(subset):
    return 'supportIndex' not in subset or 'supportSmiV1Keywords' in subset


def all_subsets():
    for r in range(len(OPTIONS) + 1):
        for c in itertools.combinations(OPTIONS, r):
            yield frozenset(c)


def quick_subsets():
    v1 = frozenset(['supportSmiV1Keywords', 'supportIndex'])
    relaxed = frozenset(OPTIONS)
    out = set([frozenset(), v1, relaxed])
    for o in OPTIONS:
        if buildable(frozenset([o])):
            out.add(frozenset([o]))
        out.add(frozenset(['supportSmiV1Keywords', o]))
        out.add(relaxed - frozenset([o]) if buildable(relaxed - frozenset([o])) else relaxed)
    return out


def build(subset):
    return parserFactory(**dict((o, True) for o in subset))()


def parse(parser, text):
    parser.reset()
    try:
        return ('ok', parser.parse(text))
    except error.PySmiLexerError as exc:
        return ('err', type(exc).__name__)
    except Exception as exc:
        return ('bad', type(exc).__name__ + ':' + str(exc)[:60])
    finally:
        parser.reset()


_corpus = []


def corpus():
    if not _corpus:
        for e in catalogue.entries('quick'):
            if e.get('only'):
                continue
            _corpus.append((e['id'], mibspec.render(e['mods']), mibspec.file_tree(e['mods']), e['v1']))
        m = repeated_imports()
        _corpus.append(('imports-repeated-0', mibspec.render([m]), mibspec.file_tree([m]), False))
        for b in breakages():
            _corpus.append(('breakage-%s-%d' % (b['opt'], b['n']), b['text'], None, False))
    return _corpus


# --------------------------------------------------------------------------- breakages

def _find(tokens, tok, start=0):
    return [i for i in range(start, len(tokens)) if tokens[i] == tok]


def repeated_imports():
    v = {'k': 'value', 'name': 'a', 'oid': ['x', 1]}
    return catalogue.mod([v], imports=[('A-MIB', ['a1', 'a2', 'a1']), ('B-MIB', ['b1', 'b1']), ('C-MIB', ['c1', 'C2', 'C2', 'c1'])])


def breakages():
    """-> list of {'opt', 'n', 'text', 'tree', 'needs'}: malformed text, tree of the corrected text"""
    out = []
    M = catalogue.mod

    def add(opt, toks, tree, needs=()):
        out.append({'opt': opt, 'n': len([b for b in out if b['opt'] == opt]), 'text': mibspec.join(toks), 'tree': tree,
                    'needs': list(needs)})

    v = {'k': 'value', 'name': 'a', 'oid': ['x', 1]}
    # comma at the end of each import group
    m = M([v], imports=[('A-MIB', ['a1', 'a2']), ('B-MIB', ['b1']), ('C-MIB', ['c1', 'C2', 'c3'])])
    toks = mibspec.module_tokens(m)
    for i in _find(toks, 'FROM'):
        add('commaAtTheEndOfImport', toks[:i] + [','] + toks[i:], mibspec.file_tree([m]))
    # ... of groups that list a symbol twice (unusual, legal)
    m = repeated_imports()
    toks = mibspec.module_tokens(m)
    for i in _find(toks, 'FROM'):
        add('commaAtTheEndOfImport', toks[:i] + [','] + toks[i:], mibspec.file_tree([m]))
    # comma at the end of a SEQUENCE
    for members in ([('c1', 'INTEGER')], [('c1', 'INTEGER'), ('c2', 'OCTET STRING')], [('c1', 'Integer32'), ('c2', 'MyT'), ('c3', 'BITS')]):
        m = M([{'k': 'type', 'name': 'Row', 'syntax': ('seq', members)}, v])
        toks = mibspec.module_tokens(m)
        i = _find(toks, '}')[0]
        add('commaAtTheEndOfSequence', toks[:i] + [','] + toks[i:], mibspec.file_tree([m]))
    # enumerations: missing comma at each gap, trailing comma, both
    enum = [('one', 1), ('two', 2), ('three', 3), ('neg', -1)]
    for carrier in ('ot', 'type', 'tc'):
        syn = ('simple', 'INTEGER', ('enum', enum))
        if carrier == 'ot':
            m = M([catalogue.ot(syntax=syn)])
        elif carrier == 'type':
            m = M([{'k': 'type', 'name': 'MyEnum', 'syntax': syn}])
        else:
            m = M([{'k': 'tc', 'name': 'MyEnum', 'display': None, 'status': 'current', 'descr': 'd', 'syntax': syn}])
        toks = mibspec.module_tokens(m)
        lo = _find(toks, '{')[0]
        hi = _find(toks, '}', lo)[0]
        commas = [i for i in _find(toks, ',') if lo < i < hi]
        tree = mibspec.file_tree([m])
        for i in commas:
            add('mixOfCommasAndSpaces', toks[:i] + toks[i + 1:], tree)
        add('mixOfCommasAndSpaces', toks[:hi] + [','] + toks[hi:], tree)
        add('mixOfCommasAndSpaces', [t for j, t in enumerate(toks) if j not in commas], tree)
        # upper-case label at each item
        for k, (label, num) in enumerate(enum):
            e2 = list(enum)
            e2[k] = (label.capitalize(), num)
            m2 = dict(m)
            d2 = dict(m['decls'][0])
            d2['syntax'] = ('simple', 'INTEGER', ('enum', e2))
            m2['decls'] = [d2]
            add('uppercaseIdentifier', mibspec.module_tokens(m2), mibspec.file_tree([m2]))
    # capitalised notification name
    for objs in (None, ['a', 'b']):
        m = M([{'k': 'nt', 'name': 'TestNotification', 'objects': objs, 'status': 'current', 'descr': 'd', 'oid': ['x', 0, 1]}])
        add('lowcaseIdentifier', mibspec.module_tokens(m), mibspec.file_tree([m]))
    # braces around ENTERPRISE
    for ent in (['snmp'], ['enterprises', 99], [1, 3, 6]):
        for vars_ in (None, ['a']):
            good = {'k': 'trap', 'name': 'testTrap', 'enterprise': ent, 'vars': vars_, 'descr': 'd', 'num': 3}
            bad = dict(good, braces=1)
            add('curlyBracesAroundEnterpriseInTrap', mibspec.module_tokens(M([bad])), mibspec.file_tree([M([good])]))
    # empty CREATION-REQUIRES
    for nvar in (1, 2):
        var = [{'name': 'obj%d' % i, 'creation': [], 'descr': 'V.'} for i in range(nvar)]
        m = M([{'k': 'ac', 'name': 'testAgent', 'release': 'r', 'status': 'current', 'descr': 'd',
                'supports': [{'module': 'A-MIB', 'groups': ['g'], 'variations': var}], 'oid': ['x', 5]}])
        add('noCells', mibspec.module_tokens(m), mibspec.file_tree([m]))
    # type valued INDEX (needs the SMIv1 keywords as well)
    for idx in ([(0, 'INTEGER')], [(0, 'OCTET STRING'), (0, 'ifIndex')], [(0, 'ifIndex'), (0, 'IpAddress')], [(0, 'NetworkAddress')]):
        m = M([catalogue.ot(index=idx, access=('ACCESS', 'read-only'), status='mandatory')])
        add('supportIndex', mibspec.module_tokens(m), mibspec.file_tree([m]), needs=['supportSmiV1Keywords'])
    # NetworkAddress in its four positions
    for m in (M([catalogue.ot(syntax=('app', 'NetworkAddress'))]),
              M([v], imports=[('RFC1155-SMI', ['NetworkAddress', 'Counter'])]),
              M([{'k': 'type', 'name': 'Row', 'syntax': ('seq', [('addr', 'NetworkAddress')])}]),
              M([{'k': 'type', 'name': 'NetworkAddress', 'syntax': ('simple', 'OCTET STRING', ('size', [(4,)]))}])):
        add('supportSmiV1Keywords', mibspec.module_tokens(m), mibspec.file_tree([m]))
    return out


# --------------------------------------------------------------------------- families

class Lattice(object):
    case_timeout = 900
    name = 'lattice'
    describe = ('for each option subset S (one case) the whole corpus is parsed under S and under every buildable S+{o}; '
                'accepted under S => identical tree under S+{o}; catalogue texts must also yield their reference tree')

    def subsets(self, tier):
        return sorted(s for s in (all_subsets() if tier == 'thorough' else quick_subsets()) if buildable(s))

    def blocks(self, tier):
        subs = [sorted(s) for s in self.subsets(tier)]
        subs.sort()
        return [{'S': s} for s in subs]

    def cases(self, block, tier):
        yield {'S': block['S'], 'tier': tier}

    def run_case(self, case):
        S = frozenset(case['S'])
        universe = set(self.subsets(case['tier']))
        base = build(S)
        texts = corpus()
        base_res = [parse(base, t[1]) for t in texts]
        vs = []
        sigs = set()
        steps = len(texts)
        nedges = 0

        def report(sig, detail):
            if sig not in sigs:
                sigs.add(sig)
                vs.append((sig, detail))

        v1 = 'supportSmiV1Keywords' in S
        for (tid, text, tree, needs_v1), r in zip(texts, base_res):
            if r[0] == 'bad':
                report('C17|lattice|foreign-exception|%s' % r[1].split(':')[0], 'options %r text %r -> %r' % (sorted(S), text, r))
            if needs_v1 and tid.startswith('ot-index-v1') and 'supportIndex' not in S:
                continue
            if tree is not None and (v1 or not needs_v1):
                if r != ('ok', tree):
                    report('C17|lattice|catalogue-text-not-parsed-to-reference|%s' % tid.rsplit('-', 1)[0],
                           'options %r text %r -> %r' % (sorted(S), text, r))
        for o in OPTIONS:
            if o in S:
                continue
            T = S | frozenset([o])
            if not buildable(T) or (case['tier'] != 'thorough' and T not in universe):
                continue
            nedges += 1
            sup = build(T)
            for (tid, text, tree, needs_v1), r in zip(texts, base_res):
                if r[0] != 'ok':
                    continue
                if any(w in text for w in RESERVED_BY.get(o, ())):
                    continue
                r2 = parse(sup, text)
                steps += 1
                if r2 != r:
                    report('C17|lattice|adding-%s-changes-an-accepted-text|%s' % (o, tid.rsplit('-', 1)[0]),
                           'text %r\nunder %r -> %r\nunder %r -> %r' % (text, sorted(S), r, sorted(T), r2))
            del sup
        return ('S=%s' % ','.join(sorted(S)), sum(1 for r in base_res if r[0] == 'ok')), vs, (steps, nedges)


class Breakages(object):
    name = 'breakages'
    describe = ('every documented breakage at every applicable position: parsed under {its option (+ SMIv1 keywords where the '
                'option needs them)}, under the SMIv1 dialect plus that option, and under the shipped relaxed dialect; also with the debug '
                'categories parser / all switched on')

    def blocks(self, tier):
        return [{'opt': o} for o in OPTIONS]

    def cases(self, block, tier):
        for b in breakages():
            if b['opt'] == block['opt']:
                for ctx in ('alone', 'smiV1+', 'relaxed'):
                    yield {'opt': b['opt'], 'n': b['n'], 'ctx': ctx}
                # ... and with the debug categories of the package switched on (messages go to a printer that drops them)
                yield {'opt': b['opt'], 'n': b['n'], 'ctx': 'alone', 'debug': 'parser'}
                yield {'opt': b['opt'], 'n': b['n'], 'ctx': 'relaxed', 'debug': 'all'}

    def run_case(self, case):
        b = [x for x in breakages() if x['opt'] == case['opt'] and x['n'] == case['n']][0]
        if case['ctx'] == 'alone':
            S = set([b['opt']] + b['needs'])
        elif case['ctx'] == 'smiV1+':
            S = set(['supportSmiV1Keywords', 'supportIndex', b['opt']])
        else:
            S = set(OPTIONS)
        if case.get('debug'):
            from pysmi import debug
            debug.setLogger(debug.Debug(case['debug'], loggerName='mc-C17-dropped'))
        try:
            r = parse(build(frozenset(S)), b['text'])
        finally:
            if case.get('debug'):
                debug.setLogger(0)
        vs = []
        if r != ('ok', b['tree']):
            vs.append(('C17|breakage|%s|%s%s|%s' % (b['opt'], case['ctx'], '+debug' if case.get('debug') else '',
                                                   'rejected' if r[0] != 'ok' else 'different-tree'),
                       'text %r\nunder %r -> %r\nexpected %r' % (b['text'], sorted(S), r, b['tree'])))
        return r[0], vs, 1


def tier_of(case):
    return case.get('tier', 'quick')


class Options(object):
    name = 'options'
    describe = ('all 512 option subsets: a parser can be built iff supportIndex implies supportSmiV1Keywords, and naming the other '
                'relaxations with a false value (False; thorough: also 0, None) gives the same parser; unknown option names with '
                'true and false values')

    def blocks(self, tier):
        return [{'lo': i, 'hi': i + 32} for i in range(0, 512, 32)] + [{'unknown': 1}]

    def cases(self, block, tier):
        if 'unknown' in block:
            names = ('supportSmiV3', 'commaAtTheEndOfImports', 'SUPPORTINDEX', 'x', '')
            for name in names:
                for val in (True, 1, 'yes', False, 0, None):
                    yield {'unknown': name, 'val': val}
            # several unknown names in one call, alone and next to known ones
            import itertools as it
            for k in (2, 3):
                for combo in it.combinations(names[:4], k):
                    for known in ([], ['supportSmiV1Keywords'], ['noCells', 'lowcaseIdentifier']):
                        yield {'unknown': list(combo), 'val': True, 'known': known}
            return
        subs = sorted(sorted(s) for s in all_subsets())
        for s in subs[block['lo']:block['hi']]:
            yield {'S': s, 'tier': tier}

    def run_case(self, case):
        if 'unknown' in case:
            try:
                names = case['unknown'] if isinstance(case['unknown'], list) else [case['unknown']]
                opts = dict((n, case['val']) for n in names)
                opts.update((k, True) for k in case.get('known', []))
                parserFactory(**opts)
                got = 'accepted'
            except error.PySmiError:
                got = 'PySmiError'
            except Exception as exc:
                got = type(exc).__name__
            vs = []
            if got != 'PySmiError':
                vs.append(('C17|options|unknown-option-%s%s' % (got, '|several' if isinstance(case['unknown'], list) else ''), repr(case)))
            return got, vs, 1
        S = frozenset(case['S'])
        p = None
        try:
            p = build(S)
            r = parse(p, 'T DEFINITIONS ::= BEGIN a OBJECT IDENTIFIER ::= { b 1 } END')
            got = 'built' if r[0] == 'ok' else 'built-but-unusable'
        except Exception as exc:
            got = 'not-buildable:' + type(exc).__name__
        want = 'built' if buildable(S) else 'not-buildable'
        vs = []
        if not got.startswith(want) or got == 'built-but-unusable':
            vs.append(('C17|options|%s-where-%s' % (got.split(':')[0], want), repr(sorted(S))))
        if p is not None and got == 'built':
            # the same dialect asked for the long way: every relaxation named, the unwanted ones with a false value
            for falsy in (False, 0, None):
                try:
                    q = parserFactory(**dict((o, True if o in S else falsy) for o in OPTIONS))()
                except Exception as exc:
                    vs.append(('C17|options|explicit-false-values|not-buildable', '%r with %r for the others: %r' % (sorted(S), falsy, exc)))
                    break
                for label, text in ORDER_TEXTS:
                    a, b = parse(p, text), parse(q, text)
                    if a != b:
                        vs.append(('C17|options|explicit-false-values|parses-differently|%s' % label,
                                   'options %r; others given as %r: %r, others left out: %r' % (sorted(S), falsy, b, a)))
                        break
                if falsy is False and tier_of(case) != 'thorough':
                    break
        return got, vs, 1



class SharedCacheDirectory(object):
    name = 'shared-cache-directory'
    describe = ('parsers of two different dialects built one after the other over the SAME tempdir (the parser-table cache '
                'directory): every ordered pair of 6 dialects; the second parser - and the first one, used again afterwards - '
                'gives for the order texts and for every documented breakage what a parser of its dialect built without a cache '
                'directory gives; also with a third parser of the first dialect built last')

    DIALECTS = [[], ['supportSmiV1Keywords', 'supportIndex'], sorted(OPTIONS), ['commaAtTheEndOfImport'], ['mixOfCommasAndSpaces'],
                ['commaAtTheEndOfSequence', 'uppercaseIdentifier']]

    def blocks(self, tier):
        return [{'first': i} for i in range(len(self.DIALECTS))]

    def cases(self, block, tier):
        for j in range(len(self.DIALECTS)):
            if j != block['first']:
                yield {'first': block['first'], 'second': j}

    _plain = {}

    def plain(self, i, texts):
        key = (i, os.getpid())
        if key not in self._plain:
            p = parserFactory(**dict((o, True) for o in self.DIALECTS[i]))()
            self._plain[key] = [parse(p, t) for t in texts]
        return self._plain[key]

    def run_case(self, case):
        import shutil
        import tempfile
        texts = [t for _, t in ORDER_TEXTS] + [b['text'] for b in breakages()]
        base = os.environ.get('VERIF_TMP') or ('/dev/shm' if os.path.isdir('/dev/shm') else None)
        d = tempfile.mkdtemp(prefix='mcC17', dir=base)
        try:
            vs = []
            made = []
            for step, i in enumerate((case['first'], case['second'], case['first'])):
                try:
                    p = parserFactory(**dict((o, True) for o in self.DIALECTS[i]))(tempdir=d)
                except Exception as exc:
                    vs.append(('%s|shared-cache|parser-%d-cannot-be-built|%s' % (getattr(self, 'prefix', 'C17'), step + 1, type(exc).__name__), repr(exc)[:200]))
                    break
                made.append((i, p))
                for j, q in made:
                    got = [parse(q, t) for t in texts]
                    want = self.plain(j, texts)
                    bad = [k for k in range(len(texts)) if got[k] != want[k]]
                    if bad:
                        vs.append(('%s|shared-cache|dialect-behaves-differently-over-a-used-cache-directory|after-%d-parsers' % (getattr(self, 'prefix', 'C17'), step + 1),
                                   'dialect %r (cache directory used by %r): text %r gives %r, without a cache directory %r' % (
                                       self.DIALECTS[j], [self.DIALECTS[x] for x, _ in made], texts[bad[0]][:200],
                                       got[bad[0]], want[bad[0]])))
                        break
                if vs:
                    break
            return 'ok' if not vs else 'bad', vs, 3
        finally:
            shutil.rmtree(d, ignore_errors=True)


ORDER_JOB = r"""
import sys, json, hashlib
sys.path.insert(0, %(verif)r); sys.path.insert(0, %(repo)r)
from mc.checks import C17
first, second = %(first)r, %(second)r
out = {}
p1 = C17.build(frozenset(first)) if first is not None else None
p2 = C17.build(frozenset(second))
for label, text in C17.ORDER_TEXTS:
    if p1 is not None:
        C17.parse(p1, text)
    r = C17.parse(p2, text)
    out[label] = [r[0], hashlib.sha1(repr(r[1]).encode()).hexdigest()]
print(json.dumps(out, sort_keys=True))
"""

ORDER_TEXTS = [
    ('v1-types', 'A-MIB DEFINITIONS ::= BEGIN\nIMPORTS OBJECT-TYPE FROM RFC-1212 NetworkAddress, Counter, Gauge FROM RFC1155-SMI;\n'
                 'a OBJECT-TYPE SYNTAX NetworkAddress ACCESS read-only STATUS mandatory DESCRIPTION "d" ::= { x 1 }\n'
                 'b OBJECT-TYPE SYNTAX Counter ACCESS read-only STATUS mandatory DESCRIPTION "d" ::= { x 2 }\n'
                 'c OBJECT-TYPE SYNTAX Gauge ACCESS read-only STATUS mandatory DESCRIPTION "d" ::= { x 3 }\nEND\n'),
    ('v2-plain', 'B-MIB DEFINITIONS ::= BEGIN\nIMPORTS OBJECT-TYPE, Integer32 FROM SNMPv2-SMI;\n'
                 'a OBJECT-TYPE SYNTAX Integer32 (0..5) MAX-ACCESS read-only STATUS current DESCRIPTION "d" ::= { x 1 }\n'
                 'NetworkAddress ::= OCTET STRING (SIZE (4))\nEND\n'),
    ('forbidden', 'C-MIB DEFINITIONS ::= BEGIN\nMAX ::= INTEGER\nEND\n'),
    ('relaxed', 'D-MIB DEFINITIONS ::= BEGIN\nIMPORTS a, b, FROM X-MIB;\nc OBJECT IDENTIFIER ::= { a 1 }\nEND\n'),
]


class ConstructionOrders(object):
    case_timeout = 300
    name = 'construction-orders'
    describe = ('in a fresh interpreter per case: a parser of dialect D1 is built (and used) first, then a parser of dialect D2 '
                'parses four texts (SMIv1 type words, the same words as SMIv2 identifiers, a forbidden word, relaxed constructs); '
                'every ordered pair over {strict, v1 keywords, smiV1, smiV1Relaxed, lowcase identifiers}: the result of D2 equals the '
                'result of D2 built alone')
    DIALECTS = [[], ['supportSmiV1Keywords'], ['supportSmiV1Keywords', 'supportIndex'], OPTIONS, ['lowcaseIdentifier']]

    def blocks(self, tier):
        return [{'second': i} for i in range(len(self.DIALECTS))]

    def cases(self, block, tier):
        for i in range(len(self.DIALECTS)):
            if i != block['second']:
                yield {'first': i, 'second': block['second']}

    def run_case(self, case):
        import json
        import os
        import subprocess
        import sys
        from mc import core

        def job(first, second):
            r = subprocess.run([sys.executable, '-c', ORDER_JOB % {'verif': core.VERIF, 'repo': core.REPO, 'first': first,
                                                                    'second': second}],
                               capture_output=True, text=True, cwd=core.VERIF, env=dict(os.environ, MC_KEEP_HASHSEED='1'))
            if r.returncode != 0:
                raise core.InternalError('construction-order job failed: %s' % r.stderr[-800:])
            return json.loads(r.stdout.strip().splitlines()[-1])
        d1, d2 = self.DIALECTS[case['first']], self.DIALECTS[case['second']]
        alone = job(None, d2)
        after = job(d1, d2)
        vs = []
        for label in sorted(alone):
            if alone[label] != after[label]:
                vs.append(('C17|construction-order|%s|result-depends-on-parser-built-before' % label,
                           'dialect %r parses %s as %r alone and as %r after a parser of %r was built and used' % (
                               d2, label, alone[label], after[label], d1)))
        return json.dumps(after, sort_keys=True), vs, 8

FAMILIES = [Lattice(), Breakages(), Options(), ConstructionOrders(), SharedCacheDirectory()]
