"""C04 - pysnmp output is valid Python that loads and agrees with the JSON back end.

sequences    every sequence of <=2 (<=3) declarations over the 13 kinds of C03: the pysnmp module must be valid Python,
             execute against a MIB builder, bind and export every exportable JSON entry under its MIB name with the same
             OID, kind, base type and access; the real pysnmp MibBuilder must load it
cross-module module B uses one symbol of every exportable kind defined in module A (node, scalar, table, row, column,
             notification, group, TC, plain type), plain / mixedCase / hyphenated: every (module, symbol) B's code imports
             from A must be exported by A's code; the real MibBuilder must load the pair
identifiers  one adversarial identifier per case (Python keywords, builtins, names the generated code uses itself)
"""
import itertools
import json

from mc import env, mibspec, pysnmp_rec, refir
from mc.checks import C03

BOUNDS = {
    'quick': 'sequences <=2 over 13 kinds; cross-module: 10 symbol kinds x 3 name styles; 14 adversarial identifiers x 5 kinds; '
             '27 text slots x 17 adversarial texts x genTexts on/off',
    'thorough': 'sequences <=3 over 13 kinds (real MibBuilder load for all); cross-module pairs of uses',
}
ASSUMPTIONS = ['real pysnmp 7.1 MibBuilder with its own base modules is the "MIB builder" the generated code targets',
               'exportable classes: everything but SEQUENCE/CHOICE helper types']

NODE_CLASS = {'objectidentity': 'ObjectIdentity', 'notificationtype': 'NotificationType', 'moduleidentity': 'ModuleIdentity',
              'objectgroup': 'ObjectGroup', 'notificationgroup': 'NotificationGroup', 'modulecompliance': 'ModuleCompliance',
              'agentcapabilities': 'AgentCapabilities'}


def compile_pair(mods, requested, **opts):
    texts = dict((m['name'], mibspec.pretty([m])) for m in mods)
    out = {}
    for backend in ('json', 'pysnmp'):
        parser = env.shared_parser('smiV2')
        parser.reset()
        out[backend] = env.compile_set(texts, requested, codegen=backend, dialect=parser, **opts)
    return texts, out


def agree(modname, mibnames, doc, builder, ns, sig, src):
    """Compare the executed pysnmp module with the JSON document of the same module."""
    vs = []
    exports = builder.exports.get(modname, {})
    for key, ent in sorted(doc.items()):
        if key in ('imports', 'meta') or not isinstance(ent, dict) or 'class' not in ent:
            continue
        mibname = mibnames.get(key, key)
        cls = ent['class']
        style = 'hyphen' if '-' in mibname else 'plain'
        if mibname not in exports:
            vs.append(('%s|not-exported-under-mib-name|%s|%s' % (sig, cls, style),
                       'symbol %s (key %s): exports %r\n%s' % (mibname, key, sorted(exports), src)))
            obj = exports.get(key)
            if obj is None:
                continue
        else:
            obj = exports[mibname]
        if cls in ('type', 'textualconvention'):
            if not (isinstance(obj, type) and issubclass(obj, pysnmp_rec.Asn1Type)):
                vs.append(('%s|type-not-a-class|%s' % (sig, cls), '%s -> %r' % (mibname, obj)))
                continue
            word = ent.get('type', {}).get('type')
            want = refir.PYSNMP_CLASS.get(word, word)
            if want not in obj.chain():
                vs.append(('%s|base-type-differs|%s' % (sig, cls), '%s: JSON type %r, class chain %r' % (mibname, word, obj.chain())))
            if (cls == 'textualconvention') != ('TextualConvention' in [c.__name__ for c in obj.__mro__]):
                vs.append(('%s|tc-flag-differs' % sig, '%s: %r' % (mibname, obj.__mro__)))
            continue
        if not isinstance(obj, pysnmp_rec.Node):
            vs.append(('%s|not-an-object|%s' % (sig, cls), '%s -> %r' % (mibname, obj)))
            continue
        if 'oid' in ent and obj.oid != tuple(int(x) for x in ent['oid'].split('.')):
            vs.append(('%s|oid-differs|%s' % (sig, cls), '%s: JSON %s pysnmp %r' % (mibname, ent['oid'], obj.oid)))
        if cls == 'objecttype':
            want = refir.PYSNMP_OT.get(ent.get('nodetype'))
            if obj.kind != want:
                vs.append(('%s|kind-differs|%s-as-%s' % (sig, ent.get('nodetype'), obj.kind), mibname))
            if ent.get('nodetype') in ('scalar', 'column'):
                scls = pysnmp_rec.syntax_of(obj)
                word = ent.get('syntax', {}).get('type')
                wantc = refir.PYSNMP_CLASS.get(word, word)
                if not (isinstance(scls, type) and issubclass(scls, pysnmp_rec.Asn1Type) and wantc in scls.chain()):
                    vs.append(('%s|base-type-differs|objecttype' % sig, '%s: JSON type %r, syntax class %r' % (
                        mibname, word, scls.chain() if isinstance(scls, type) and hasattr(scls, 'chain') else scls)))
                acc = obj.called('setMaxAccess')
                got = acc[-1][0] if acc and acc[-1] else None
                if got != ent.get('maxaccess'):
                    vs.append(('%s|access-differs' % sig, '%s: JSON %r pysnmp %r' % (mibname, ent.get('maxaccess'), got)))
        else:
            if obj.kind != NODE_CLASS.get(cls):
                vs.append(('%s|kind-differs|%s-as-%s' % (sig, cls, obj.kind), mibname))
    return vs


def check_set(mods, requested, sig, real=True):
    texts, out = compile_pair(mods, requested)
    src = '\n'.join(texts[n] for n in sorted(texts))
    vs = []
    for backend in ('json', 'pysnmp'):
        for n in texts:
            st = out[backend][0].get(n)
            if st != 'compiled':
                vs.append(('%s|%s|not-compiled' % (sig, backend), '%s: %r %r\n%s' % (n, st, getattr(st, 'error', None), src)))
    if vs:
        return 'notcompiled', vs, 2
    written = out['pysnmp'][1]
    for n in sorted(written):
        try:
            compile(written[n], n, 'exec')
        except SyntaxError as exc:
            vs.append(('%s|not-valid-python' % sig, '%s line %s: %s\n%s' % (n, exc.lineno, exc.msg, src)))
    if vs:
        return 'invalid-python', vs, 2
    # execute in dependency order on one recording builder
    order = [m['name'] for m in mods]
    builder = pysnmp_rec.RecBuilder()
    nss = {}
    for n in order:
        before = len(builder.imports)
        ns, err = pysnmp_rec.run_module(written[n], builder, n)
        if err:
            vs.append(('%s|does-not-execute|%s' % (sig, err.split(':')[0]), '%s: %s\n%s' % (n, err, src)))
            continue
        nss[n] = ns
        # every symbol the MIB text imports from another generated module is imported by the generated code as well
        done = set((frm, sym) for frm, sym, ok in builder.imports[before:])
        spec = [m for m in mods if m['name'] == n][0]
        for frm, syms in spec.get('imports') or []:
            if frm in texts:
                for sym in syms:
                    if (frm, sym) not in done and (frm, refir.under(sym)) not in done:
                        vs.append(('%s|mib-import-not-imported-by-generated-code' % sig,
                                   '%s: IMPORTS %s FROM %s, generated code imports %r\n%s' % (
                                       n, sym, frm, sorted(s_ for f_, s_ in done if f_ == frm), src)))
        for frm, sym, ok in builder.imports[before:]:
            if frm in texts and not ok:
                vs.append(('%s|imports-unexported-symbol|%s' % (sig, 'hyphen' if '-' in sym else 'plain'),
                           '%s imports %s from %s whose code exports %r\n%s' % (
                               n, sym, frm, sorted(builder.exports.get(frm, {})), src)))
    for m in mods:
        n = m['name']
        if n not in nss:
            continue
        doc = json.loads(out['json'][1][n])
        mibnames = dict((refir.under(d['name']), d['name']) for d in m['decls'] if d['k'] != 'macro')
        vs += agree(n, mibnames, doc, builder, nss[n], sig, src)
    if real and not vs:
        err, syms = pysnmp_rec.real_load(written, order=order)
        if err:
            vs.append(('%s|real-builder-load-fails|%s' % (sig, err.split(':')[0]), '%s\n%s' % (err, src)))
    return repr(sorted((n, sorted(builder.exports.get(n, {}))) for n in texts)), vs, 3


class Sequences(object):
    name = 'kind-sequences'
    describe = 'C03\'s declaration sequences through both back ends, recording builder and the real pysnmp MibBuilder'

    def blocks(self, tier):
        return C03.Sequences().blocks(tier)

    def cases(self, block, tier):
        for c in C03.Sequences().cases(block, tier):
            if c['gt']:
                yield {'seq': c['seq']}

    def run_case(self, case):
        decls = C03.context()
        for i, k in enumerate(case['seq']):
            decls += C03.make(k, i)
        mod = refir.finish_module({'name': 'TEST-MIB', 'decls': decls})
        return check_set([mod], ['TEST-MIB'], 'C04|seq|%s' % '+'.join(sorted(set(case['seq']))))


def name_style(base, style, upper=False):
    if style == 'hyphen':
        return ('Hy-' if upper else 'hy-') + base
    if style == 'mixed':
        return ('MiXed' if upper else 'miXed') + base[0].upper() + base[1:]
    return (base[0].upper() + base[1:]) if upper else base


USES = ['case-twins', 'case-twins-rev', 'node-parent', 'scalar-object', 'column-index', 'row-augments', 'table-parent', 'notif-member', 'group-member',
        'tc-syntax', 'type-syntax', 'type-refined', 'scalar-defval-oid']


def cross_modules(use, style):
    """Module A defines symbols, module B uses exactly one of them in the way `use` names."""
    n = lambda b, up=False: name_style(b, style, up)
    a = [{'k': 'value', 'name': n('aRoot'), 'oid': ['enterprises', 5151]},
         C03ot(n('aScalar'), ('simple', 'Integer32'), [n('aRoot'), 1]),
         C03ot(n('aTable'), ('seqof', n('AEntry', True)), [n('aRoot'), 2], 'not-accessible'),
         C03ot(n('aEntry'), ('ref', n('AEntry', True)), [n('aTable'), 1], 'not-accessible', index=[(0, n('aIndex'))]),
         {'k': 'type', 'name': n('AEntry', True), 'syntax': ('seq', [(n('aIndex'), 'Integer32'), (n('aColumn'), 'Integer32')])},
         C03ot(n('aIndex'), ('simple', 'Integer32'), [n('aEntry'), 1], 'not-accessible'),
         C03ot(n('aColumn'), ('simple', 'Integer32'), [n('aEntry'), 2]),
         {'k': 'nt', 'name': n('aNotif'), 'objects': [n('aScalar')], 'status': 'current', 'descr': 'd', 'oid': [n('aRoot'), 3]},
         {'k': 'tc', 'name': n('ATc', True), 'display': None, 'status': 'current', 'descr': 'd',
          'syntax': ('simple', 'OCTET STRING', ('size', [(0, 8)]))},
         {'k': 'type', 'name': n('AType', True), 'syntax': ('simple', 'INTEGER', ('range', [(0, 9)]))}]
    b = [{'k': 'value', 'name': 'bRoot', 'oid': ['enterprises', 6161]}]
    if use in ('case-twins', 'case-twins-rev'):
        # two symbols of A that differ only in letter case, both used by B
        a.append({'k': 'tc', 'name': n('AScalar', True), 'display': None, 'status': 'current', 'descr': 'd',
                  'syntax': ('simple', 'INTEGER', ('range', [(0, 7)]))})
        b.append(C03ot('bObj', ('ref', n('AScalar', True)), ['bRoot', 5]))
        b.append({'k': 'og', 'name': 'bGroup', 'objects': [n('aScalar'), 'bObj'], 'status': 'current', 'descr': 'd', 'oid': ['bRoot', 1]})
        if use.endswith('rev'):
            b[-1], b[-2] = b[-2], b[-1]
    elif use == 'node-parent':
        b.append({'k': 'value', 'name': 'bNode', 'oid': [n('aRoot'), 77]})
    elif use == 'table-parent':
        b.append({'k': 'value', 'name': 'bNode', 'oid': [n('aTable'), 77]})
    elif use == 'scalar-object':
        b.append({'k': 'og', 'name': 'bGroup', 'objects': [n('aScalar')], 'status': 'current', 'descr': 'd', 'oid': ['bRoot', 1]})
    elif use in ('column-index', 'row-augments'):
        b += [C03ot('bTable', ('seqof', 'BEntry'), ['bRoot', 2], 'not-accessible'),
              C03ot('bEntry', ('ref', 'BEntry'), ['bTable', 1], 'not-accessible',
                    **({'index': [(0, n('aIndex'))]} if use == 'column-index' else {'augments': n('aEntry')})),
              {'k': 'type', 'name': 'BEntry', 'syntax': ('seq', [('bColumn', 'Integer32')])},
              C03ot('bColumn', ('simple', 'Integer32'), ['bEntry', 1])]
    elif use == 'notif-member':
        b.append({'k': 'ng', 'name': 'bNGroup', 'objects': [n('aNotif')], 'status': 'current', 'descr': 'd', 'oid': ['bRoot', 3]})
    elif use == 'group-member':
        b.append({'k': 'nt', 'name': 'bNotif', 'objects': [n('aColumn')], 'status': 'current', 'descr': 'd', 'oid': ['bRoot', 4]})
    elif use == 'tc-syntax':
        b.append(C03ot('bObj', ('ref', n('ATc', True)), ['bRoot', 5]))
    elif use == 'type-syntax':
        b.append(C03ot('bObj', ('ref', n('AType', True)), ['bRoot', 5]))
    elif use == 'type-refined':
        b.append(C03ot('bObj', ('ref', n('AType', True), ('range', [(1, 2)])), ['bRoot', 5]))
    elif use == 'scalar-defval-oid':
        b.append(C03ot('bObj', ('simple', 'OBJECT IDENTIFIER'), ['bRoot', 5], defval=('id', n('aRoot'), 'oid')))
    ma = {'name': 'A-MIB', 'decls': a}
    mb = {'name': 'B-MIB', 'decls': b}
    return [refir.finish_module(ma, [ma, mb]), refir.finish_module(mb, [ma, mb])]


def C03ot(name, syn, oid, access='read-only', **kw):
    d = {'k': 'ot', 'name': name, 'syntax': syn, 'access': ('MAX-ACCESS', access), 'status': 'current', 'descr': 'd',
         'oid': oid}
    d.update(kw)
    return d


class CrossModule(object):
    name = 'cross-module'
    describe = ('B-MIB uses one symbol of A-MIB as OID parent (node / table), group member, INDEX, AUGMENTS target, notification '
                'member, object SYNTAX (TC, plain type, refined plain type) or OID DEFVAL; names plain / mixedCase / hyphenated')

    def blocks(self, tier):
        return [{'use': u} for u in USES]

    def cases(self, block, tier):
        for st in ('plain', 'mixed', 'hyphen'):
            yield {'use': block['use'], 'style': st}

    def run_case(self, case):
        mods = cross_modules(case['use'], case['style'])
        return check_set(mods, ['B-MIB'], 'C04|cross|%s|%s' % (case['use'], case['style']))


ADVERSARIAL = ['global', 'class', 'None', 'True', 'import', 'tuple', 'type', 'object', 'mibBuilder', 'sys', 'self', 'modName',
               'Integer32', 'OctetString', 'MibScalar', 'NamedValues']


class Identifiers(object):
    name = 'identifiers'
    describe = ('one adversarial identifier per case: Python keywords (global, class, None, True, import), builtins (tuple, '
                'type, object), names the generated module uses itself (mibBuilder, sys, Integer32, OctetString, MibScalar, '
                'NamedValues), as the name of a value, scalar, notification, type or TC')

    def blocks(self, tier):
        return [{'w': w} for w in ADVERSARIAL]

    def cases(self, block, tier):
        w = block['w']
        kinds = ['type', 'tc'] if w[0].isupper() else ['value', 'ot', 'nt']
        for k in kinds:
            yield {'w': w, 'kind': k}

    def run_case(self, case):
        d = C03.make(case['kind'], 0)
        d[0]['name'] = case['w']
        decls = C03.context() + d + C03.make('ot', 1)
        if case['kind'] in ('type', 'tc'):
            decls.append(C03ot('userOfType', ('ref', case['w']), ['ctxRoot', 50]))
        mod = refir.finish_module({'name': 'TEST-MIB', 'decls': decls})
        return check_set([mod], ['TEST-MIB'], 'C04|identifier|%s|%s' % (case['w'], case['kind']))


class TypeChains(object):
    name = 'type-chains'
    describe = ('three named types forming a dependency chain (base <- middle <- derived; plain assignments and at most one TC), every '
                'assignment of the names Alpha / Mid / Zulu to the three positions x every declaration order, used by an object')

    def blocks(self, tier):
        return [{'tc': t} for t in (None, 0, 1, 2)]

    def cases(self, block, tier):
        for names in itertools.permutations(['AlphaType', 'MidType', 'ZuluType']):
            for order in itertools.permutations(range(3)):
                yield {'tc': block['tc'], 'names': list(names), 'order': list(order)}

    def run_case(self, case):
        names = case['names']
        syns = [('simple', 'INTEGER', ('range', [(0, 1000)])), ('ref', names[0], ('range', [(0, 100)])), ('ref', names[1])]
        decls = []
        for i in range(3):
            if case['tc'] == i:
                decls.append({'k': 'tc', 'name': names[i], 'display': None, 'status': 'current', 'descr': 'd', 'syntax': syns[i]})
            else:
                decls.append({'k': 'type', 'name': names[i], 'syntax': syns[i]})
        decls = [decls[i] for i in case['order']]
        alld = C03.context() + decls + [C03ot('userObj', ('ref', names[2]), ['ctxRoot', 60])]
        mod = refir.finish_module({'name': 'TEST-MIB', 'decls': alld})
        alpha = names.index('AlphaType')
        return check_set([mod], ['TEST-MIB'], 'C04|type-chain|tc=%s|alpha-at=%d' % (case['tc'], alpha))


class Texts(object):
    name = 'texts-in-literals'
    describe = ('every text-bearing clause slot of C15 (DESCRIPTION / REFERENCE of each clause kind, ORGANIZATION, CONTACT-INFO, '
                'UNITS, DISPLAY-HINT, PRODUCT-RELEASE, revision descriptions) x adversarial texts (backslash sequences, trailing '
                'backslash, line breaks, apostrophes, template syntax, non-ASCII, empty) x genTexts on/off, the texts with line breaks / tabs also '
                'under a text filter that keeps the layout: the module is valid '
                'Python, executes with loadTexts on and off, and the real MibBuilder loads it')

    def blocks(self, tier):
        from mc.checks import C15
        return [{'slot': i} for i in range(len(C15.SLOTS))]

    def cases(self, block, tier):
        from mc.checks import C15
        for t, (tname, text) in enumerate(C15.TEXTS):
            if tier != 'thorough' and tname in ('word', 'double-space', 'long-word', 'long-sentence', 'long-hyphenated', 'tab'):
                continue
            for gt in (0, 1):
                yield {'slot': block['slot'], 't': t, 'gt': gt}
            if tname in C15.LAYOUT_NAMES:
                # ... and with a text filter that keeps the layout (line breaks stay in the texts)
                yield {'slot': block['slot'], 't': t, 'gt': 1, 'keep': 1}
                yield {'slot': block['slot'], 't': t, 'gt': 0, 'keep': 1}

    def run_case(self, case):
        from mc.checks import C15
        sid, kind, field, jkey, pacc, gated = C15.SLOTS[case['slot']]
        tname, text = C15.TEXTS[case['t']]
        mod = refir.finish_module({'name': 'TEST-MIB', 'decls': C15.build(kind, field, text)})
        src = mibspec.pretty([mod])
        sig = 'C04|texts|%s|%s|genTexts=%d%s' % (sid, tname, case['gt'], '|layout-kept' if case.get('keep') else '')
        parser = env.shared_parser('smiV1Relaxed' if kind == 'trap' else 'smiV2')
        parser.reset()
        more = {'textFilter': lambda symbol, t: t} if case.get('keep') else {}
        res, written = env.compile_set({'TEST-MIB': src}, ['TEST-MIB'], codegen='pysnmp', dialect=parser,
                                       genTexts=bool(case['gt']), **more)
        st = res.get('TEST-MIB')
        if st != 'compiled':
            return 'notcompiled', [('%s|not-compiled' % sig, '%r %r\n%s' % (st, getattr(st, 'error', None), src))], 1
        code = written['TEST-MIB']
        try:
            compile(code, 'TEST-MIB', 'exec')
        except SyntaxError as exc:
            return 'invalid', [('%s|not-valid-python' % sig, 'line %s: %s\nsource text %r' % (exc.lineno, exc.msg, text))], 1
        vs = []
        for lt in (True, False):
            ns, err = pysnmp_rec.run_module(code, pysnmp_rec.RecBuilder(loadTexts=lt), 'TEST-MIB')
            if err:
                vs.append(('%s|does-not-execute|loadTexts=%s|%s' % (sig, lt, err.split(':')[0]), '%s\nsource text %r' % (err, text)))
        if not vs:
            err, syms = pysnmp_rec.real_load({'TEST-MIB': code})
            if err:
                vs.append(('%s|real-builder-load-fails|%s' % (sig, err.split(':')[0]), '%s\nsource text %r' % (err, text)))
        return 'ok', vs, 1



class LongWords(Texts):
    name = 'long-words-with-backslashes'
    describe = ('every text-bearing clause slot x a word far longer than any line width that is made of backslash sequences (\\u \\x \\N '
                '\\n, 60 of them) after 0..5 plain characters, alone / after a short word, genTexts on: wherever the template breaks '
                'lines, every alignment of a (doubled) backslash against the break is met; same oracle as texts-in-literals')

    def cases(self, block, tier):
        for esc in 'uxNn':
            for k in range(6):
                for lead in (0, 1):
                    yield {'slot': block['slot'], 'esc': esc, 'k': k, 'lead': lead, 'gt': 1}

    def text_of(self, case):
        return ('see ' if case['lead'] else '') + 'a' * case['k'] + ('\\' + case['esc']) * 60

    def run_case(self, case):
        from mc.checks import C15
        text = self.text_of(case)
        C15.TEXTS.append(('long-bs-%s' % case['esc'], text))
        try:
            return Texts.run_case(self, dict(case, t=len(C15.TEXTS) - 1))
        finally:
            C15.TEXTS.pop()


class LabelsLikeKeys(object):
    name = 'labels-spelled-like-document-keys'
    describe = ('enumeration labels and BITS names spelled like the keys of the intermediate document (description, reference, units, '
                'oid, value, format, type, class, default, enumeration, bits, range ... 33 words), in an object\'s in-line syntax, in '
                'a type assignment and in a TEXTUAL-CONVENTION, alone and next to an ordinary label, with and without a DEFVAL '
                'naming the label: compiles with both back ends, valid Python, loads, agrees with the JSON document')

    WORDS = ['description', 'reference', 'units', 'organization', 'contactinfo', 'displayhint', 'productrelease', 'lastupdated',
             'oid', 'value', 'format', 'type', 'class', 'name', 'status', 'default', 'enumeration', 'bits', 'constraints', 'range',
             'size', 'min', 'max', 'module', 'object', 'implied', 'syntax', 'maxaccess', 'nodetype', 'revisions', 'revision',
             'objects', 'indices']

    def blocks(self, tier):
        return [{'w': w} for w in self.WORDS]

    def cases(self, block, tier):
        for carrier in ('ot', 'type', 'tc'):
            for base in ('enum', 'bits'):
                for alone in (0, 1):
                    for dv in ((0, 1) if carrier == 'ot' and base == 'enum' else (0,)):
                        yield {'w': block['w'], 'carrier': carrier, 'base': base, 'alone': alone, 'dv': dv}

    def run_case(self, case):
        w = case['w']
        members = [(w, 1)] if case['alone'] else [('first', 0), (w, 1), ('last', 2)]
        syn = ('simple', 'INTEGER', ('enum', members)) if case['base'] == 'enum' else ('bits', members)
        decls = C03.context()
        if case['carrier'] == 'ot':
            d = C03ot('subject', syn, ['ctxRoot', 40])
            if case['dv']:
                d['defval'] = ('id', w)
            decls.append(d)
        elif case['carrier'] == 'type':
            decls += [{'k': 'type', 'name': 'Subject', 'syntax': syn}, C03ot('user', ('ref', 'Subject'), ['ctxRoot', 41])]
        else:
            decls += [{'k': 'tc', 'name': 'Subject', 'display': None, 'status': 'current', 'descr': 'd', 'syntax': syn},
                      C03ot('user', ('ref', 'Subject'), ['ctxRoot', 41])]
        mod = refir.finish_module({'name': 'TEST-MIB', 'decls': decls})
        return check_set([mod], ['TEST-MIB'], 'C04|label-like-a-key|%s|%s|%s' % (w, case['carrier'], case['base']))


class AccessWords(object):
    name = 'access-words'
    describe = ('a scalar and a table column declared with every access word of SMIv1 and SMIv2 (read-only, read-write, write-only, '
                'not-accessible, accessible-for-notify, read-create) under the ACCESS and the MAX-ACCESS keyword: the access the '
                'loaded pysnmp object reports is the one the JSON document reports')
    WORDS = ['read-only', 'read-write', 'write-only', 'not-accessible', 'accessible-for-notify', 'read-create']

    def blocks(self, tier):
        return [{'kw': k} for k in ('MAX-ACCESS', 'ACCESS')]

    def cases(self, block, tier):
        for w in self.WORDS:
            yield {'kw': block['kw'], 'w': w}

    def run_case(self, case):
        acc = (case['kw'], case['w'])
        decls = C03.context() + [
            dict(C03ot('subjectScalar', ('simple', 'Integer32'), ['ctxRoot', 40]), access=acc),
            dict(C03ot('aTable', ('seqof', 'AEntry'), ['ctxRoot', 41]), access=(case['kw'], 'not-accessible')),
            dict(C03ot('aEntry', ('ref', 'AEntry'), ['aTable', 1], index=[(0, 'aIdx')]), access=(case['kw'], 'not-accessible')),
            {'k': 'type', 'name': 'AEntry', 'syntax': ('seq', [('aIdx', 'Integer32'), ('subjectColumn', 'Integer32')])},
            dict(C03ot('aIdx', ('simple', 'Integer32'), ['aEntry', 1]), access=(case['kw'], 'not-accessible')),
            dict(C03ot('subjectColumn', ('simple', 'Integer32'), ['aEntry', 2]), access=acc)]
        mod = refir.finish_module({'name': 'TEST-MIB', 'decls': decls})
        return check_set([mod], ['TEST-MIB'], 'C04|access|%s|%s' % (case['kw'], case['w']), real=False)


class NoImportsClause(object):
    name = 'no-imports-clause'
    describe = ('a module WITHOUT an IMPORTS clause (types over INTEGER / OCTET STRING / OBJECT IDENTIFIER / BITS with refinements, '
                'OID value declarations with fully numeric or iso-rooted parents): every subset of 5 such declarations; valid '
                'Python, executes, the real MibBuilder loads it')
    DECLS = [
        {'k': 'type', 'name': 'SmallInt', 'syntax': ('simple', 'INTEGER', ('range', [(0, 5)]))},
        {'k': 'type', 'name': 'ShortText', 'syntax': ('simple', 'OCTET STRING', ('size', [(0, 8)]))},
        {'k': 'type', 'name': 'Switch', 'syntax': ('simple', 'INTEGER', ('enum', [('off', 0), ('on', 1)]))},
        {'k': 'type', 'name': 'Flags', 'syntax': ('bits', [('a', 0), ('b', 1)])},
        {'k': 'type', 'name': 'Pointer', 'syntax': ('simple', 'OBJECT IDENTIFIER')},
    ]

    def blocks(self, tier):
        return [{}]

    def cases(self, block, tier):
        for r in range(0, 6):
            for combo in itertools.combinations(range(5), r):
                yield {'decls': list(combo)}

    def run_case(self, case):
        decls = [{'k': 'value', 'name': 'rootNode', 'oid': [1, 3, 6, 1, 4, 1, 4242]},
                 {'k': 'value', 'name': 'leafNode', 'oid': ['rootNode', 1]}] + [self.DECLS[i] for i in case['decls']]
        mod = {'name': 'TEST-MIB', 'imports': None, 'decls': decls}
        names = '+'.join(self.DECLS[i]['name'] for i in case['decls']) or 'values-only'
        return check_set([mod], ['TEST-MIB'], 'C04|no-imports|%s' % names)

class EnumLengths(object):
    name = 'enumerations-of-every-length'
    describe = ('enumerations and BITS with 1, 2, 3 and 12 named numbers as the in-line SYNTAX of an object, of a type assignment and '
                'of a TEXTUAL-CONVENTION, and as the refinement of a named enumerated type: the generated module executes and '
                'agrees with JSON')

    def blocks(self, tier):
        return [{'n': n} for n in (1, 2, 3, 12)]

    def cases(self, block, tier):
        for where in ('object', 'type', 'tc', 'refined-object'):
            for kind in ('enum', 'bits'):
                if kind == 'bits' and where == 'refined-object':
                    continue
                yield {'n': block['n'], 'where': where, 'kind': kind}

    def run_case(self, case):
        n = case['n']
        labels = [('label%d' % i, i + (1 if case['kind'] == 'enum' else 0)) for i in range(n)]
        syn = ('simple', 'INTEGER', ('enum', labels)) if case['kind'] == 'enum' else ('bits', labels)
        decls = C03.context()
        if case['where'] == 'object':
            decls.append(C03ot('theObj', syn, ['ctxRoot', 50]))
        elif case['where'] == 'type':
            decls += [{'k': 'type', 'name': 'TheType', 'syntax': syn}, C03ot('theObj', ('ref', 'TheType'), ['ctxRoot', 50])]
        elif case['where'] == 'tc':
            decls += [{'k': 'tc', 'name': 'TheType', 'display': None, 'status': 'current', 'descr': 'd', 'syntax': syn},
                      C03ot('theObj', ('ref', 'TheType'), ['ctxRoot', 50])]
        else:
            full = [('label%d' % i, i + 1) for i in range(max(n, 2) + 1)]
            decls += [{'k': 'type', 'name': 'TheType', 'syntax': ('simple', 'INTEGER', ('enum', full))},
                      C03ot('theObj', ('ref', 'TheType', ('enum', labels)), ['ctxRoot', 50])]
        mod = refir.finish_module({'name': 'TEST-MIB', 'decls': decls})
        return check_set([mod], ['TEST-MIB'], 'C04|enum-length|%s|%s|n=%d' % (case['kind'], case['where'], n))


class SingleValueConstraints(object):
    name = 'single-value-range-and-size-alternatives'
    describe = ('ranges and SIZEs whose alternatives are single values - decimal, hex literal, binary literal, alone or next to a '
                'two-ended alternative - on an object, a type assignment and a TEXTUAL-CONVENTION: valid Python that executes and '
                'agrees with JSON')

    VALUES = [5, "'10'H", "'1010'B", "'0a'h", "'0'h"]

    def blocks(self, tier):
        return [{'where': w} for w in ('object', 'type', 'tc')]

    def cases(self, block, tier):
        for i in range(len(self.VALUES)):
            for kind in ('range', 'size'):
                for mixed in (0, 1):
                    yield {'where': block['where'], 'v': i, 'kind': kind, 'mixed': mixed}

    def run_case(self, case):
        v = self.VALUES[case['v']]
        alts = [(v,)] if not case['mixed'] else [(0, 3), (v,), ("'20'H", "'ff'H")]
        syn = ('simple', 'Integer32', ('range', alts)) if case['kind'] == 'range' else ('simple', 'OCTET STRING', ('size', alts))
        decls = C03.context()
        if case['where'] == 'object':
            decls.append(C03ot('theObj', syn, ['ctxRoot', 50]))
        elif case['where'] == 'type':
            decls += [{'k': 'type', 'name': 'TheType', 'syntax': syn}, C03ot('theObj', ('ref', 'TheType'), ['ctxRoot', 50])]
        else:
            decls += [{'k': 'tc', 'name': 'TheType', 'display': None, 'status': 'current', 'descr': 'd', 'syntax': syn},
                      C03ot('theObj', ('ref', 'TheType'), ['ctxRoot', 50])]
        mod = refir.finish_module({'name': 'TEST-MIB', 'decls': decls})
        return check_set([mod], ['TEST-MIB'], 'C04|single-value|%s|%s|%s%s' % (
            case['kind'], case['where'], 'decimal' if isinstance(v, int) else 'literal', '|mixed' if case['mixed'] else ''))


class LoadTogether(object):
    name = 'sets-that-must-load-together'
    describe = ('module sets whose imports are legal but awkward for a loader, loaded with the REAL pysnmp MibBuilder after compiling: '
                'two modules that import OID parents from each other; a table whose SEQUENCE type lives in another module; '
                'identifiers beginning with a digit (the lexer admits them)')

    SETS = {
        'mutual-imports': {
            'A-MIB': 'A-MIB DEFINITIONS ::= BEGIN\nIMPORTS enterprises FROM SNMPv2-SMI bTop FROM B-MIB;\n'
                     'aTop OBJECT IDENTIFIER ::= { enterprises 1 }\naUnderB OBJECT IDENTIFIER ::= { bTop 1 }\nEND\n',
            'B-MIB': 'B-MIB DEFINITIONS ::= BEGIN\nIMPORTS aTop FROM A-MIB;\nbTop OBJECT IDENTIFIER ::= { aTop 2 }\nEND\n'},
        'row-type-from-another-module': {
            'A-MIB': 'A-MIB DEFINITIONS ::= BEGIN\nIMPORTS enterprises, Integer32 FROM SNMPv2-SMI;\n'
                     'aRoot OBJECT IDENTIFIER ::= { enterprises 1 }\nAEntry ::= SEQUENCE { bIdx Integer32, bVal Integer32 }\nEND\n',
            'B-MIB': 'B-MIB DEFINITIONS ::= BEGIN\nIMPORTS OBJECT-TYPE, Integer32, enterprises FROM SNMPv2-SMI AEntry FROM A-MIB;\n'
                     'bTable OBJECT-TYPE SYNTAX SEQUENCE OF AEntry MAX-ACCESS not-accessible STATUS current DESCRIPTION "t" ::= { enterprises 2 }\n'
                     'bEntry OBJECT-TYPE SYNTAX AEntry MAX-ACCESS not-accessible STATUS current DESCRIPTION "r" INDEX { bIdx } ::= { bTable 1 }\n'
                     'bIdx OBJECT-TYPE SYNTAX Integer32 MAX-ACCESS not-accessible STATUS current DESCRIPTION "c" ::= { bEntry 1 }\n'
                     'bVal OBJECT-TYPE SYNTAX Integer32 MAX-ACCESS read-only STATUS current DESCRIPTION "c" ::= { bEntry 2 }\nEND\n'},
        # not an identifier at all: either the module is refused, or what is generated for it is Python
        'MAYFAIL-identifier-with-a-circumflex': {
            'A-MIB': 'A-MIB DEFINITIONS ::= BEGIN\nIMPORTS enterprises FROM SNMPv2-SMI;\n'
                     'te^st OBJECT IDENTIFIER ::= { enterprises 43 }\nEND\n'},
        'MAYFAIL-identifier-with-a-backquote-and-brackets': {
            'A-MIB': 'A-MIB DEFINITIONS ::= BEGIN\nIMPORTS enterprises FROM SNMPv2-SMI;\n'
                     'te`st[] OBJECT IDENTIFIER ::= { enterprises 43 }\nEND\n'},
        'identifier-beginning-with-a-digit': {
            'A-MIB': 'A-MIB DEFINITIONS ::= BEGIN\nIMPORTS enterprises FROM SNMPv2-SMI;\n'
                     '3com OBJECT IDENTIFIER ::= { enterprises 43 }\na3 OBJECT IDENTIFIER ::= { 3com 1 }\nEND\n'},
    }

    def blocks(self, tier):
        return [{}]

    def cases(self, block, tier):
        for k in sorted(self.SETS):
            yield {'set': k}

    def run_case(self, case):
        texts = self.SETS[case['set']]
        sig = 'C04|load-together|%s' % case['set']
        parser = env.shared_parser('smiV2')
        parser.reset()
        res, written = env.compile_set(texts, sorted(texts), codegen='pysnmp', dialect=parser)
        bad = [n for n in texts if res.get(n) != 'compiled']
        if bad and case['set'].startswith('MAYFAIL'):
            return 'refused', [], 1
        if bad:
            return 'notcompiled', [('%s|not-compiled' % sig, repr(dict((k, (str(v), str(getattr(v, 'error', '')))) for k, v in res.items())))], 1
        vs = []
        for n in sorted(texts):
            try:
                compile(written[n], n, 'exec')
            except SyntaxError as exc:
                vs.append(('%s|not-valid-python' % sig, '%s line %s: %s' % (n, exc.lineno, exc.msg)))
        if vs:
            return 'invalid-python', vs, 1
        err, syms = pysnmp_rec.real_load(dict((n, written[n]) for n in texts))
        if err:
            vs.append(('%s|set-does-not-load|%s' % (sig, err.split(':')[0]), err[:400]))
        return 'ok' if not vs else 'bad', vs, 1


def _option_histories():
    from mc.checks import C12

    class OptionHistories(C12.OptionHistories):
        """One PySnmpCodeGen serving several compile() calls: the module written by a call is the one a fresh generator writes
        for the same options - in particular the stock module after a call that used a template of the caller's."""
        prefix = 'C04'

        def blocks(self, tier):
            return [b for b in C12.OptionHistories.blocks(self, tier) if b['backend'] == 'pysnmp']
    return OptionHistories()


FAMILIES = [Sequences(), CrossModule(), Identifiers(), TypeChains(), Texts(), LongWords(), LabelsLikeKeys(), AccessWords(), NoImportsClause(), EnumLengths(), SingleValueConstraints(), LoadTogether(), _option_histories()]
