"""C01 - valid module sets compile, and every symbol gets the OID the text defines.

Ground truth first: a labelled rooted tree is built with numeric OIDs known by construction; then module
placement, declaration order, sub-identifier spelling and node kind are enumerated and the module set is
compiled through MibCompiler.compile() with both code generators.
"""
import itertools
import json

from mc import env, mibspec, pysnmp_rec

BOUNDS = {
    'quick': 'A: all labelled trees with <=3 nodes x all module partitions (<=2 modules) x all declaration orders; '
             'B: trees <=2 nodes x 7 spellings x 2 name styles per node x 2 orders x 1-2 modules; '
             'C: chains <=2 nodes x 10 node kinds per node; F: 2 x 1440 declaration orders of two tables (one augmenting the other); '
             'both back ends everywhere',
    'thorough': 'A: all labelled trees with <=4 nodes x all partitions into <=3 modules x all declaration orders; '
                'B: trees <=3 nodes, every node independently in 7 spellings x 2 name styles; C: chains <=3 nodes x 10 kinds; '
                'F: all 5040 declaration orders x 3 placements of the SEQUENCE types',
}
ASSUMPTIONS = ['base modules SNMPv2-SMI/-TC/-CONF are the hand-written stand-ins in /verif/basemibs',
               'module sets are well formed by construction (unique names, every reference resolves)']

ENTERPRISES = (1, 3, 6, 1, 4, 1)
PRIVATE = (1, 3, 6, 1, 4)
ISO_PATH = [('iso', 1), ('org', 3), ('dod', 6), ('internet', 1), ('private', 4), ('enterprises', 1)]
ARCS = [7, 70, 4, 48]          # arcs of nodes 0..3 (digit-sharing siblings on purpose)
MODNAMES = ['ALPHA-MIB', 'BETA-MIB', 'GAMMA-MIB', 'DELTA-MIB']
PLAIN = ['nodeA', 'nodeB', 'nodeC', 'nodeD']
HYPH = ['node-a', 'node-b', 'node-c', 'node-d']


def trees(k):
    """All parent vectors: parent[i] in {-1 (root)} + other nodes, acyclic."""
    for parents in itertools.product(range(-1, k), repeat=k):
        ok = True
        for i in range(k):
            seen, j = set(), i
            while j != -1:
                if j in seen or parents[j] == j:
                    ok = False
                    break
                seen.add(j)
                j = parents[j]
            if not ok:
                break
        if ok:
            yield list(parents)


def partitions(k, maxmods):
    """Restricted growth strings: canonical assignments of k nodes to <= maxmods modules."""
    def rec(prefix, used):
        if len(prefix) == k:
            yield list(prefix)
            return
        for m in range(min(used + 1, maxmods)):
            for r in rec(prefix + [m], max(used, m + 1)):
                yield r
    return rec([], 0)


def oid_of(parents, i):
    path = []
    while i != -1:
        path.append(ARCS[i])
        i = parents[i]
    return ENTERPRISES + tuple(reversed(path))


def spell(parents, names, i, form):
    """Sub-identifier list for node i.  Forms: 0 {parent n}; 1 {grandparent parent(a) n}; 2 {grandparent a n};
    3 fully numeric; 4 {iso 3 6 ...}; 5 {iso(1) org(3) ...} names all the way; 6 {1 3 6 1 4 1 name(a).. n}"""
    p = parents[i]
    full = oid_of(parents, i)
    if form == 0:
        return [names[p] if p != -1 else 'enterprises', ARCS[i]]
    if form in (1, 2):
        if p == -1:
            gp, pname, parc = 'private', 'enterprises', 1
        else:
            gp = names[parents[p]] if parents[p] != -1 else 'enterprises'
            pname, parc = names[p], ARCS[p]
        return [gp, [pname, parc] if form == 1 else parc, ARCS[i]]
    if form == 3:
        return list(full)
    if form == 4:
        return ['iso'] + list(full[1:])
    if form == 5:
        out = [[n, a] for n, a in ISO_PATH]
        chain, j = [], p
        while j != -1:
            chain.append([names[j], ARCS[j]])
            j = parents[j]
        return out + list(reversed(chain)) + [ARCS[i]]
    if form == 6:
        chain, j = [], p
        while j != -1:
            chain.append([names[j], ARCS[j]])
            j = parents[j]
        return list(ENTERPRISES) + list(reversed(chain)) + [ARCS[i]]
    raise ValueError(form)


KINDS = ['value', 'oi', 'ot', 'nt', 'mi', 'og', 'ng', 'mc', 'ac', 'trap']
NEEDS = {'oi': 'OBJECT-IDENTITY', 'ot': 'OBJECT-TYPE', 'nt': 'NOTIFICATION-TYPE', 'mi': 'MODULE-IDENTITY',
         'og': 'OBJECT-GROUP', 'ng': 'NOTIFICATION-GROUP', 'mc': 'MODULE-COMPLIANCE', 'ac': 'AGENT-CAPABILITIES',
         'trap': 'TRAP-TYPE'}
NEEDS_FROM = {'og': 'SNMPv2-CONF', 'ng': 'SNMPv2-CONF', 'mc': 'SNMPv2-CONF', 'ac': 'SNMPv2-CONF'}


def make_decl(kind, name, oid, trapnum=None):
    if kind == 'value':
        return {'k': 'value', 'name': name, 'oid': oid}
    if kind == 'oi':
        return {'k': 'oi', 'name': name, 'status': 'current', 'descr': 'd', 'oid': oid}
    if kind == 'ot':
        return {'k': 'ot', 'name': name, 'syntax': ('simple', 'Integer32'), 'access': ('MAX-ACCESS', 'read-only'),
                'status': 'current', 'descr': 'd', 'oid': oid}
    if kind == 'nt':
        return {'k': 'nt', 'name': name, 'objects': None, 'status': 'current', 'descr': 'd', 'oid': oid}
    if kind == 'mi':
        return {'k': 'mi', 'name': name, 'last': '202001010000Z', 'org': 'o', 'contact': 'c', 'descr': 'd',
                'revs': [], 'oid': oid}
    if kind == 'og':
        return {'k': 'og', 'name': name, 'objects': ['helperObj'], 'status': 'current', 'descr': 'd', 'oid': oid}
    if kind == 'ng':
        return {'k': 'ng', 'name': name, 'objects': ['helperNotif'], 'status': 'current', 'descr': 'd', 'oid': oid}
    if kind == 'mc':
        return {'k': 'mc', 'name': name, 'status': 'current', 'descr': 'd',
                'modules': [{'name': None, 'mandatory': ['helperGroup'], 'items': []}], 'oid': oid}
    if kind == 'ac':
        return {'k': 'ac', 'name': name, 'release': 'r', 'status': 'current', 'descr': 'd', 'oid': oid}
    if kind == 'trap':
        # oid = enterprise part (without the trap number); trap number = last arc
        return {'k': 'trap', 'name': name, 'enterprise': oid[:-1], 'vars': None, 'descr': 'd', 'num': oid[-1]}
    raise ValueError(kind)


def build_modules(parents, names, part, orders, forms, kinds, helpers=False):
    """-> (module specs, truth {module: {name: oid tuple}}, kinds by name)."""
    k = len(parents)
    nmods = max(part) + 1
    truth = dict((MODNAMES[m], {}) for m in range(nmods))
    mods = []
    for m in range(nmods):
        members = [i for i in range(k) if part[i] == m]
        order = [members[j] for j in orders[m]]
        decls, imports = [], {}

        def need(sym, frm):
            if sym not in imports.setdefault(frm, []):
                imports[frm].append(sym)

        if helpers:
            need('OBJECT-TYPE', 'SNMPv2-SMI')
            need('Integer32', 'SNMPv2-SMI')
            need('NOTIFICATION-TYPE', 'SNMPv2-SMI')
            need('OBJECT-GROUP', 'SNMPv2-CONF')
            need('enterprises', 'SNMPv2-SMI')
            base = ['enterprises', 9000 + m]
            decls.append(make_decl('ot', 'helperObj', base + [1]))
            decls.append(make_decl('nt', 'helperNotif', base + [2]))
            decls.append(make_decl('og', 'helperGroup', base + [3]))
        for i in order:
            oid = spell(parents, names, i, forms[i])
            for s in oid:
                ref = s[0] if isinstance(s, list) else s
                if isinstance(s, list) or not isinstance(ref, str):
                    continue  # name(number) intermediates are not references; numbers neither
                if ref == 'iso':
                    continue
                if ref in ('enterprises', 'private'):
                    need(ref, 'SNMPv2-SMI')
                else:
                    j = names.index(ref)
                    if part[j] != m:
                        need(ref, MODNAMES[part[j]])
            kind = kinds[i]
            if kind in NEEDS:
                need(NEEDS[kind], NEEDS_FROM.get(kind, 'SNMPv2-SMI'))
            if kind == 'ot':
                need('Integer32', 'SNMPv2-SMI')
            decls.append(make_decl(kind, names[i], oid))
            full = oid_of(parents, i)
            truth[MODNAMES[m]][names[i]] = full if kind != 'trap' else full[:-1] + (0, full[-1])
        mods.append({'name': MODNAMES[m], 'imports': sorted(imports.items()) or None, 'decls': decls})
    return mods, truth


def dotted(t):
    return '.'.join(str(x) for x in t)


def observe(mods, truth, kinds_by_name, sigbase, request=None, options=None):
    """Compile the set with both back ends; compare every OID view with the ground truth.
    request / options: ask for these modules only, with these compile() options (then only they are judged)."""
    alltexts = dict((m['name'], mibspec.pretty([m])) for m in mods)
    texts = alltexts if request is None else dict((n, alltexts[n]) for n in request)
    vs = []
    steps = 0
    outcome = []
    for backend in ('json', 'pysnmp'):
        parser = env.shared_parser('smiV1Relaxed' if any(k == 'trap' for k in kinds_by_name.values()) else 'smiV2')
        parser.reset()
        res, written = env.compile_set(alltexts, sorted(texts, reverse=(backend == 'json')), codegen=backend,
                                       dialect=parser, **(options or {}))
        steps += 1
        bad = [(n, str(res.get(n)), str(getattr(res.get(n), 'error', ''))) for n in texts if res.get(n) != 'compiled']
        if bad:
            vs.append(('%s|%s|not-compiled|%s' % (sigbase, backend, bad[0][1]),
                       'modules %r\nstatus %r' % (texts, bad)))
            outcome.append('notcompiled')
            continue
        for modname in sorted(texts):
            st = res[modname]
            want = truth[modname]
            # (1) per-module OID summary handed back to the caller
            oids = set(getattr(st, 'oids', ()) or ())
            for name, oid in sorted(want.items()):
                if dotted(oid) not in oids:
                    vs.append(('%s|%s|status.oids-lacks-symbol|%s' % (sigbase, backend, kinds_by_name[name]),
                               'module %s symbol %s expected %s in status.oids %r\n%s' % (
                                   modname, name, dotted(oid), sorted(oids), texts[modname])))
            idents = [n for n in want if kinds_by_name[n] == 'mi']
            if idents and getattr(st, 'identity', None) != dotted(want[idents[0]]):
                vs.append(('%s|%s|status.identity' % (sigbase, backend), 'module %s identity %r expected %s' % (
                    modname, getattr(st, 'identity', None), dotted(want[idents[0]]))))
            comps = sorted(dotted(want[n]) for n in want if kinds_by_name[n] == 'mc')
            if sorted(getattr(st, 'compliance', ()) or ()) != comps:
                vs.append(('%s|%s|status.compliance' % (sigbase, backend), 'module %s compliance %r expected %r' % (
                    modname, getattr(st, 'compliance', None), comps)))
            ent = getattr(st, 'enterprise', None)
            cands = set(dotted(o[:7]) for o in oids_under_enterprises(st, want))
            if ent and ent not in cands:
                vs.append(('%s|%s|status.enterprise' % (sigbase, backend), 'module %s enterprise %r not among %r' % (
                    modname, ent, sorted(cands))))
            # (2) the generated document
            if backend == 'json':
                try:
                    doc = json.loads(written[modname])
                except Exception as exc:
                    vs.append(('%s|json|invalid-json' % sigbase, '%r\n%s' % (exc, written.get(modname))))
                    continue
                for name, oid in sorted(want.items()):
                    got = doc.get(name.replace('-', '_'), {}).get('oid')
                    if got != dotted(oid):
                        vs.append(('%s|json|oid-differs|%s' % (sigbase, kinds_by_name[name]),
                                   'module %s symbol %s: JSON oid %r, defined %s\n%s' % (
                                       modname, name, got, dotted(oid), texts[modname])))
                outcome.append(sorted((n, doc.get(n.replace('-', '_'), {}).get('oid')) for n in want))
        if backend == 'pysnmp':
            # each module is executed on its own recording builder: symbols imported from other generated
            # modules become placeholders, the OIDs are literal constructor arguments (C04 checks joint loading)
            builder = pysnmp_rec.RecBuilder()
            nss = {}
            for modname in sorted(texts):
                trial = pysnmp_rec.RecBuilder()
                ns, err = pysnmp_rec.run_module(written[modname], trial, modname)
                if err is not None:
                    vs.append(('%s|pysnmp|does-not-execute|%s' % (sigbase, err.split(':')[0]),
                               'module %s: %s\n%s' % (modname, err, texts[modname])))
                else:
                    builder.exports[modname] = trial.exports.get(modname, {})
                    nss[modname] = ns
            for modname in sorted(nss):
                exp = builder.exports.get(modname, {})
                for name, oid in sorted(truth[modname].items()):
                    obj = exp.get(name, exp.get(name.replace('-', '_')))  # export naming is C04's subject
                    got = getattr(obj, 'oid', None) if isinstance(obj, pysnmp_rec.Node) else None
                    if got != oid:
                        vs.append(('%s|pysnmp|oid-differs|%s' % (sigbase, kinds_by_name[name]),
                                   'module %s symbol %s: pysnmp object %r has name %r, defined %r\n%s' % (
                                       modname, name, obj, got, oid, texts[modname])))
    return repr(outcome), vs, steps


def oids_under_enterprises(st, want):
    out = []
    for o in list(getattr(st, 'oids', ()) or ()):
        t = tuple(int(x) for x in o.split('.'))
        if t[:6] == ENTERPRISES and len(t) > 6:
            out.append(t)
    return out


class Shapes(object):
    name = 'A-shape-order-placement'
    describe = ('all labelled rooted trees x all canonical assignments of nodes to modules (imports derived; chains and '
                'mutual imports arise) x all declaration orders inside each module; kind = value declaration')

    def params(self, tier):
        return (4, 3) if tier == 'thorough' else (3, 2)

    def blocks(self, tier):
        kmax, mmax = self.params(tier)
        out = []
        for k in range(1, kmax + 1):
            for parents in trees(k):
                out.append({'parents': parents, 'mmax': mmax})
        return out

    def cases(self, block, tier):
        parents = block['parents']
        k = len(parents)
        for part in partitions(k, block['mmax']):
            nm = max(part) + 1
            sizes = [part.count(m) for m in range(nm)]
            for orders in itertools.product(*[itertools.permutations(range(s)) for s in sizes]):
                yield {'parents': parents, 'part': part, 'orders': [list(o) for o in orders]}

    def run_case(self, case):
        parents = case['parents']
        k = len(parents)
        names = PLAIN[:k]
        mods, truth = build_modules(parents, names, case['part'], case['orders'], [0] * k, ['value'] * k)
        kinds = dict((n, 'value') for n in names)
        fwd = any(case['orders'][m] != sorted(case['orders'][m]) for m in range(len(case['orders'])))
        sig = 'C01|A|nodes=%d|mods=%d%s' % (k, max(case['part']) + 1, '|reordered' if fwd else '')
        return observe(mods, truth, kinds, sig)


class Spellings(object):
    name = 'B-spelling'
    describe = ('every node independently in each of 7 sub-identifier spellings ({parent n}, {grandparent parent(a) n}, '
                '{grandparent a n}, fully numeric, iso-rooted, name(number) all the way, numeric prefix then name(number)) '
                'x plain/hyphenated names, both declaration orders, 1 and 2 modules')

    def blocks(self, tier):
        kmax = 3 if tier == 'thorough' else 2
        out = []
        for k in range(1, kmax + 1):
            for parents in trees(k):
                for hy in itertools.product([0, 1], repeat=k):
                    out.append({'parents': parents, 'hy': list(hy)})
        return out

    def cases(self, block, tier):
        k = len(block['parents'])
        for forms in itertools.product(range(7), repeat=k):
            for rev in (0, 1):
                for two in ((0, 1) if k > 1 else (0,)):
                    yield {'parents': block['parents'], 'hy': block['hy'], 'forms': list(forms), 'rev': rev, 'two': two}

    def run_case(self, case):
        parents = case['parents']
        k = len(parents)
        names = [HYPH[i] if case['hy'][i] else PLAIN[i] for i in range(k)]
        part = [0] * k if not case['two'] else [i % 2 for i in range(k)]
        nm = max(part) + 1
        orders = []
        for m in range(nm):
            n = part.count(m)
            orders.append(list(range(n))[::-1] if case['rev'] else list(range(n)))
        mods, truth = build_modules(parents, names, part, orders, case['forms'], ['value'] * k)
        kinds = dict((n, 'value') for n in names)
        sig = 'C01|B|forms=%s|hyphen=%d' % (''.join(str(f) for f in sorted(set(case['forms']))), int(any(case['hy'])))
        return observe(mods, truth, kinds, sig)


class Kinds(object):
    name = 'C-kinds'
    describe = ('chains of nodes, every node independently one of the ten OID-bearing kinds (value declaration, '
                'OBJECT-IDENTITY, OBJECT-TYPE, NOTIFICATION-TYPE, MODULE-IDENTITY (<=1), OBJECT-GROUP, NOTIFICATION-GROUP, '
                'MODULE-COMPLIANCE, AGENT-CAPABILITIES, TRAP-TYPE as leaf with <enterprise>.0.<n>), 1 and 2 modules')

    def blocks(self, tier):
        kmax = 3 if tier == 'thorough' else 2
        return [{'k': k, 'first': f} for k in range(1, kmax + 1) for f in range(len(KINDS))]

    def cases(self, block, tier):
        k = block['k']
        for rest in itertools.product(range(len(KINDS)), repeat=k - 1):
            ks = [block['first']] + list(rest)
            kinds = [KINDS[i] for i in ks]
            if kinds.count('mi') > 1:
                continue
            if any(kd == 'trap' for kd in kinds[:-1]):
                continue  # a trap is only used as a leaf
            for two in ((0, 1) if k > 1 else (0,)):
                yield {'kinds': kinds, 'two': two}

    def run_case(self, case):
        kinds = case['kinds']
        k = len(kinds)
        parents = [i - 1 for i in range(k)]
        names = PLAIN[:k]
        part = [0] * k if not case['two'] else [i % 2 for i in range(k)]
        if case['two'] and kinds.count('mi') and part[kinds.index('mi')] != 0:
            pass
        orders = [list(range(part.count(m))) for m in range(max(part) + 1)]
        mods, truth = build_modules(parents, names, part, orders, [0] * k, kinds, helpers=True)
        kb = dict(zip(names, kinds))
        sig = 'C01|C|%s' % '>'.join(kinds)
        return observe(mods, truth, kb, sig)


class SameNames(object):
    name = 'D-same-name-in-two-modules'
    describe = ('module A and module B each define a node with the SAME name (names are per module); B also hangs nodes below a '
                'node imported from A whose parent chain passes through A\'s node of that name; every declaration order of B, '
                'both request orders, 1-3 levels below the imported node, spelled by name / name(number)')

    def blocks(self, tier):
        return [{'depth': d} for d in (1, 2, 3)]

    def cases(self, block, tier):
        n = 3 + block['depth']
        for perm in itertools.permutations(range(n)):
            if tier != 'thorough' and n > 4 and perm[0] not in (0, n - 1):
                continue
            for ro in (0, 1):
                yield {'depth': block['depth'], 'perm': list(perm), 'ro': ro}

    def run_case(self, case):
        a = [{'k': 'value', 'name': 'shared', 'oid': ['enterprises', 7]},
             {'k': 'value', 'name': 'leafA', 'oid': ['shared', 70]},
             {'k': 'value', 'name': 'otherA', 'oid': ['leafA', 4]}]
        b = [{'k': 'value', 'name': 'shared', 'oid': ['enterprises', 48]},
             {'k': 'value', 'name': 'underOwn', 'oid': ['shared', 1]},
             {'k': 'value', 'name': 'underImported', 'oid': ['leafA', 2]}]
        truth = {'ALPHA-MIB': {'shared': ENTERPRISES + (7,), 'leafA': ENTERPRISES + (7, 70), 'otherA': ENTERPRISES + (7, 70, 4)},
                 'BETA-MIB': {'shared': ENTERPRISES + (48,), 'underOwn': ENTERPRISES + (48, 1),
                              'underImported': ENTERPRISES + (7, 70, 2)}}
        prev = 'underImported'
        for d in range(1, case['depth']):
            nm = 'deeper%d' % d
            b.append({'k': 'value', 'name': nm, 'oid': [prev, 5] if d % 2 else ['leafA', ['underImported', 2]] + [5] * d})
            truth['BETA-MIB'][nm] = truth['BETA-MIB']['underImported'] + (5,) * d
            prev = nm
        b.append({'k': 'value', 'name': 'lastOwn', 'oid': ['underOwn', 9]})
        truth['BETA-MIB']['lastOwn'] = ENTERPRISES + (48, 1, 9)
        b = [b[i] for i in case['perm']]
        mods = [{'name': 'ALPHA-MIB', 'imports': [('SNMPv2-SMI', ['enterprises'])], 'decls': a},
                {'name': 'BETA-MIB', 'imports': [('ALPHA-MIB', ['leafA']), ('SNMPv2-SMI', ['enterprises'])], 'decls': b}]
        if case['ro']:
            mods.reverse()
        kinds = dict((d['name'], 'value') for d in a + b)
        return observe(mods, truth, kinds, 'C01|D|same-name')


class ArcZero(object):
    name = 'E-arc-zero'
    describe = 'a node whose last arc is 0 as the parent of each OID-bearing kind (a TRAP-TYPE then gets <...>.0.0.<n>), forward and backward order'

    def blocks(self, tier):
        return [{}]

    def cases(self, block, tier):
        for k in KINDS:
            for rev in (0, 1):
                yield {'kind': k, 'rev': rev}
                # ... with the arcs of the zero node written as name(number) pairs - the last one, or both
                yield {'kind': k, 'rev': rev, 'named': 1}
                yield {'kind': k, 'rev': rev, 'named': 2}

    def run_case(self, case):
        zero = ENTERPRISES + (4242, 0)
        decls = [make_decl('ot', 'helperObj', ['enterprises', 9000, 1]), make_decl('nt', 'helperNotif', ['enterprises', 9000, 2]),
                 make_decl('og', 'helperGroup', ['enterprises', 9000, 3]),
                 {'k': 'value', 'name': 'zeroNode', 'oid': {0: ['enterprises', 4242, 0], 1: ['enterprises', 4242, ['nil', 0]],
                                                            2: ['enterprises', ['vendor', 4242], ['nil', 0]]}[case.get('named', 0)]}]
        sub = make_decl(case['kind'], 'subject', ['zeroNode', 5])
        decls = decls + [sub] if not case['rev'] else [sub] + decls
        imports = {'SNMPv2-SMI': ['enterprises', 'OBJECT-TYPE', 'Integer32', 'NOTIFICATION-TYPE', 'OBJECT-IDENTITY',
                                  'MODULE-IDENTITY', 'TRAP-TYPE'],
                   'SNMPv2-CONF': ['OBJECT-GROUP', 'NOTIFICATION-GROUP', 'MODULE-COMPLIANCE', 'AGENT-CAPABILITIES']}
        mods = [{'name': 'ALPHA-MIB', 'imports': sorted(imports.items()), 'decls': decls}]
        truth = {'ALPHA-MIB': {'zeroNode': zero, 'subject': zero + ((0, 5) if case['kind'] == 'trap' else (5,))}}
        return observe(mods, truth, {'zeroNode': 'value', 'subject': case['kind']}, 'C01|E|arc-zero|%s%s' % (case['kind'], '|named-arcs' if case.get('named') else ''))


class TableOrders(object):
    name = 'F-table-and-augmentation-orders'
    describe = ('a table, its row, a column, a row of a second table that AUGMENTS the first row and its column, with the two SEQUENCE '
                'types first / last / in between: every declaration order of the OID-bearing declarations (a row before its table, '
                'an augmenting row before the augmented one ...)')

    def blocks(self, tier):
        return [{'types': t, 'head': h} for t in (('first', 'last', 'mid') if tier == 'thorough' else ('first', 'last'))
                for h in range(7)]

    def cases(self, block, tier):
        for perm in itertools.permutations(range(7)):
            if perm[0] != block['head']:
                continue
            if tier != 'thorough' and perm[6] != 6 and perm[0] != 6:
                continue   # quick: the second table itself first or last, all orders of the other six
            yield {'types': block['types'], 'perm': list(perm)}

    def run_case(self, case):
        def ot(name, syntax, oid, access='not-accessible', **kw):
            return dict({'k': 'ot', 'name': name, 'syntax': syntax, 'access': ('MAX-ACCESS', access), 'status': 'current',
                         'descr': 'd', 'oid': oid}, **kw)
        items = [ot('aTable', ('seqof', 'AEntry'), ['enterprises', 4242, 1]),
                 ot('aEntry', ('ref', 'AEntry'), ['aTable', 1], index=[(0, 'aIdx')]),
                 ot('aIdx', ('simple', 'Integer32'), ['aEntry', 1]),
                 ot('aVal', ('simple', 'Integer32'), ['aEntry', 2], 'read-only'),
                 ot('bEntry', ('ref', 'BEntry'), ['bTable', 1], augments='aEntry'),
                 ot('bVal', ('simple', 'Integer32'), ['bEntry', 1], 'read-only'),
                 ot('bTable', ('seqof', 'BEntry'), ['enterprises', 4242, 2])]
        types = [{'k': 'type', 'name': 'AEntry', 'syntax': ('seq', [('aIdx', 'Integer32'), ('aVal', 'Integer32')])},
                 {'k': 'type', 'name': 'BEntry', 'syntax': ('seq', [('bVal', 'Integer32')])}]
        decls = [items[i] for i in case['perm']]
        if case['types'] == 'first':
            decls = types + decls
        elif case['types'] == 'last':
            decls = decls + types
        else:
            decls = decls[:3] + types + decls[3:]
        e = ENTERPRISES + (4242,)
        truth = {'ALPHA-MIB': {'aTable': e + (1,), 'aEntry': e + (1, 1), 'aIdx': e + (1, 1, 1), 'aVal': e + (1, 1, 2),
                               'bTable': e + (2,), 'bEntry': e + (2, 1), 'bVal': e + (2, 1, 1)}}
        mods = [{'name': 'ALPHA-MIB', 'imports': [('SNMPv2-SMI', ['enterprises', 'OBJECT-TYPE', 'Integer32'])], 'decls': decls}]
        pos = dict((items[i]['name'], n) for n, i in enumerate(case['perm']))
        feats = []
        if pos['aEntry'] < pos['aTable'] or pos['bEntry'] < pos['bTable']:
            feats.append('row-before-table')
        if pos['bEntry'] < pos['aEntry']:
            feats.append('augmenting-row-before-augmented')
        sig = 'C01|F|types-%s|%s' % (case['types'], '+'.join(feats) or 'usual')
        return observe(mods, truth, dict((n, 'ot') for n in truth['ALPHA-MIB']), sig)


ARC_VALUES = [0, 1, 127, 128, 16383, 16384, 2 ** 31 - 1, 2 ** 31, 2 ** 32 - 2, 2 ** 32 - 1]


class ArcValues(object):
    name = 'G-arc-values'
    describe = ('boundary values of a sub-identifier (0, 1, 127/128, 16383/16384, 2^31-1, 2^31, 2^32-2, 2^32-1 - the largest RFC 2578 '
                'allows) as the last arc { parent v }, as a named intermediate arc { parent mid(v) 5 } and as a bare intermediate '
                'arc { parent v 5 }, for every OID-bearing kind')

    def blocks(self, tier):
        return [{'kind': k} for k in KINDS]

    def cases(self, block, tier):
        for v in ARC_VALUES:
            for form in (0, 1, 2):
                yield {'kind': block['kind'], 'v': v, 'form': form}

    def run_case(self, case):
        v, kind = case['v'], case['kind']
        root = ENTERPRISES + (4242,)
        decls = [make_decl('ot', 'helperObj', ['enterprises', 9000, 1]), make_decl('nt', 'helperNotif', ['enterprises', 9000, 2]),
                 make_decl('og', 'helperGroup', ['enterprises', 9000, 3]),
                 {'k': 'value', 'name': 'rootNode', 'oid': ['enterprises', 4242]}]
        if case['form'] == 0:
            oid, full = ['rootNode', v], root + (v,)
        elif case['form'] == 1:
            oid, full = ['rootNode', ['mid', v], 5], root + (v, 5)
        else:
            oid, full = ['rootNode', v, 5], root + (v, 5)
        decls.append(make_decl(kind, 'subject', oid))
        imports = {'SNMPv2-SMI': ['enterprises', 'OBJECT-TYPE', 'Integer32', 'NOTIFICATION-TYPE', 'OBJECT-IDENTITY',
                                  'MODULE-IDENTITY', 'TRAP-TYPE'],
                   'SNMPv2-CONF': ['OBJECT-GROUP', 'NOTIFICATION-GROUP', 'MODULE-COMPLIANCE', 'AGENT-CAPABILITIES']}
        mods = [{'name': 'ALPHA-MIB', 'imports': sorted(imports.items()), 'decls': decls}]
        if kind == 'trap':
            full = full[:-1] + (0, full[-1])
        truth = {'ALPHA-MIB': {'rootNode': root, 'subject': full}}
        where = ('last', 'named-intermediate', 'intermediate')[case['form']]
        return observe(mods, truth, {'rootNode': 'value', 'subject': kind}, 'C01|G|arc=%d|%s|%s' % (v, where, kind))



class NoDepsChains(object):
    name = 'H-noDeps-chains'
    describe = ('a chain of 3 / 4 nodes, every node in a module of its own (each module imports only its parent\'s module); the '
                'LAST module alone is requested with noDeps on and off, in 3 spellings: its node gets the OID the chain defines')

    def blocks(self, tier):
        return [{'k': k} for k in (2, 3, 4)]

    def cases(self, block, tier):
        for form in (0, 1, 2):
            for nd in (False, True):
                yield {'k': block['k'], 'form': form, 'nd': nd}

    def run_case(self, case):
        k = case['k']
        parents = [i - 1 for i in range(k)]
        names = PLAIN[:k]
        part = list(range(k))
        forms = [0] * (k - 1) + [case['form']]
        mods, truth = build_modules(parents, names, part, [[0]] * k, forms, ['value'] * k)
        last = MODNAMES[k - 1]
        sig = 'C01|H|chain=%d|%s' % (k, 'noDeps' if case['nd'] else 'deps')
        return observe(mods, {last: truth[last]}, dict((n, 'value') for n in names), sig, request=[last],
                       options={'noDeps': True} if case['nd'] else None)

class AfterFailures(object):
    name = 'I-valid-set-after-a-failing-module'
    describe = ('ONE compiler: a module that fails - leaving symbols postponed (object of a type nobody defines, row before a table '
                'that never comes), with an unknown OID parent, with a duplicate symbol, in the code generator - is compiled first '
                '(an earlier call), or stands as a broken copy in the first of two sources, or is requested in the same call with '
                'errors ignored; then a valid two-module set with forward references: it compiles and every OID is the declared one')

    BAD = {
        'postponed-type': 'badObj OBJECT-TYPE SYNTAX NowhereDefinedType MAX-ACCESS read-only STATUS current DESCRIPTION "d" ::= { enterprises 66 }\n',
        'postponed-row': ('badEntry OBJECT-TYPE SYNTAX BadEntry MAX-ACCESS not-accessible STATUS current DESCRIPTION "d" INDEX { badIdx } '
                          '::= { badTable 1 }\n'),
        'unknown-parent': 'badNode OBJECT IDENTIFIER ::= { nowhereDefined 1 }\n',
        'duplicate': 'badNode OBJECT IDENTIFIER ::= { enterprises 66 }\nbadNode OBJECT IDENTIFIER ::= { enterprises 67 }\n',
        'codegen': "BadRange ::= INTEGER (''H..'ff'H)\n",
    }

    def blocks(self, tier):
        return [{'bad': b} for b in sorted(self.BAD)]

    def cases(self, block, tier):
        for how in ('earlier-call', 'same-call-bad-first', 'same-call-bad-last', 'broken-copy-in-first-source'):
            if how == 'broken-copy-in-first-source' and block['bad'] == 'codegen':
                continue   # a copy that has a symbol table IS the first source's text (C08); that it fails later is its failure
            for backend in ('json', 'pysnmp'):
                yield {'bad': block['bad'], 'how': how, 'backend': backend}

    def run_case(self, case):
        hdr = 'IMPORTS OBJECT-TYPE, enterprises FROM SNMPv2-SMI'
        lib_good = ('LIB-MIB DEFINITIONS ::= BEGIN\n%s;\nlibLeaf OBJECT IDENTIFIER ::= { libRoot 1 }\n'
                    'libRoot OBJECT IDENTIFIER ::= { enterprises 55 }\nEND\n' % hdr)
        lib_bad = ('LIB-MIB DEFINITIONS ::= BEGIN\n%s;\nlibRoot OBJECT IDENTIFIER ::= { enterprises 55 }\n%sEND\n' % (hdr, self.BAD[case['bad']]))
        bad = 'BAD-MIB DEFINITIONS ::= BEGIN\n%s;\n%sEND\n' % (hdr, self.BAD[case['bad']])
        top = ('TOP-MIB DEFINITIONS ::= BEGIN\n%s libLeaf FROM LIB-MIB;\ntopObj OBJECT-TYPE SYNTAX INTEGER MAX-ACCESS read-only STATUS current '
               'DESCRIPTION "d" ::= { topNode 2 }\ntopNode OBJECT IDENTIFIER ::= { libLeaf 7 }\nEND\n' % hdr)
        w = env.CaptureWriter()
        comp = env.MibCompiler(env.fresh_parser('smiV2'), env.make_codegen(case['backend']), w)
        first = env.base_texts()
        second = {}
        if case['how'] == 'broken-copy-in-first-source':
            first.update({'LIB-MIB': lib_bad, 'TOP-MIB': top})
            second['LIB-MIB'] = lib_good
        else:
            first.update({'LIB-MIB': lib_good, 'TOP-MIB': top, 'BAD-MIB': bad})
        comp.addSources(env.DictReader(first, tag='first'), env.DictReader(second, tag='second'))
        comp.addSearchers(env.StubSearcher(*env.BASE_NAMES))
        sig = 'C01|I|%s|%s|%s' % (case['bad'], case['how'], case['backend'])
        try:
            if case['how'] == 'earlier-call':
                comp.compile('BAD-MIB', ignoreErrors=True)
                del w.written[:]
                res = comp.compile('TOP-MIB')
            elif case['how'] == 'same-call-bad-first':
                res = comp.compile('BAD-MIB', 'TOP-MIB', ignoreErrors=True)
            elif case['how'] == 'same-call-bad-last':
                res = comp.compile('TOP-MIB', 'BAD-MIB', ignoreErrors=True)
            else:
                res = comp.compile('TOP-MIB')
        except Exception as exc:
            return 'escaped', [('%s|exception-escapes-compile|%s' % (sig, type(exc).__name__), repr(exc)[:300])], 1
        vs = []
        for n in ('TOP-MIB', 'LIB-MIB'):
            if res.get(n) != 'compiled':
                vs.append(('%s|valid-module-%s' % (sig, res.get(n)), '%s: %r %r' % (n, res.get(n), getattr(res.get(n), 'error', None))))
        if not vs:
            want = {'LIB-MIB': {'1.3.6.1.4.1.55', '1.3.6.1.4.1.55.1'}, 'TOP-MIB': {'1.3.6.1.4.1.55.1.7', '1.3.6.1.4.1.55.1.7.2'}}
            for n, oids in want.items():
                got = set(getattr(res[n], 'oids', ()) or ())
                if got != oids:
                    vs.append(('%s|status.oids-differ' % sig, '%s: %r, declared %r' % (n, sorted(got), sorted(oids))))
        return repr(sorted((k, str(v)) for k, v in res.items())), vs, 2


class ParentEditions(object):
    name = 'N-parent-module-edited-between-calls'
    describe = ('ONE compiler (one parser, one code generator, one symbol-table generator), rebuild on: LIB-MIB is compiled with '
                'TOP-MIB, whose nodes hang below a node imported from LIB-MIB; then the text of LIB-MIB changes (another arc for the '
                'imported node, another parent for it) and both are compiled again: every ordered sequence of two or three of '
                'four editions; after every call every OID is the one the texts of THAT call declare')

    ED = {'a': ('enterprises 55', 1), 'b': ('enterprises 56', 1), 'c': ('enterprises 55', 2), 'd': ('enterprises 55 9', 1)}

    def blocks(self, tier):
        return [{'backend': b} for b in ('json', 'pysnmp')]

    def cases(self, block, tier):
        for n in (2, 3):
            for seq in itertools.product(sorted(self.ED), repeat=n):
                if all(seq[i] != seq[i + 1] for i in range(n - 1)):
                    yield {'backend': block['backend'], 'seq': ''.join(seq)}

    def run_case(self, case):
        hdr = 'IMPORTS OBJECT-TYPE, enterprises FROM SNMPv2-SMI'
        top = ('TOP-MIB DEFINITIONS ::= BEGIN\n%s libLeaf FROM LIB-MIB;\ntopObj OBJECT-TYPE SYNTAX INTEGER MAX-ACCESS read-only STATUS current '
               'DESCRIPTION "d" ::= { topNode 2 }\ntopNode OBJECT IDENTIFIER ::= { libLeaf 7 }\nEND\n' % hdr)
        texts = env.base_texts()
        texts['TOP-MIB'] = top
        w = env.CaptureWriter()
        comp = env.MibCompiler(env.fresh_parser('smiV2'), env.make_codegen(case['backend']), w)
        comp.addSources(env.DictReader(texts, tag='first'))
        comp.addSearchers(env.StubSearcher(*env.BASE_NAMES))
        sig = 'C01|N|%s' % case['backend']
        vs = []
        steps = 0
        for k, e in enumerate(case['seq']):
            root, arc = self.ED[e]
            texts['LIB-MIB'] = ('LIB-MIB DEFINITIONS ::= BEGIN\n%s;\nlibLeaf OBJECT IDENTIFIER ::= { libRoot %d }\n'
                                'libRoot OBJECT IDENTIFIER ::= { %s }\nEND\n' % (hdr, arc, root))
            steps += 1
            try:
                res = comp.compile('TOP-MIB', rebuild=True)
            except Exception as exc:
                return 'escaped', [('%s|exception-escapes-compile|%s' % (sig, type(exc).__name__), repr(exc)[:300])], steps
            base = '1.3.6.1.4.1.' + '.'.join(root.split()[1:])
            want = {'LIB-MIB': {base, '%s.%d' % (base, arc)},
                    'TOP-MIB': {'%s.%d.7' % (base, arc), '%s.%d.7.2' % (base, arc)}}
            for n, oids in sorted(want.items()):
                if res.get(n) != 'compiled':
                    vs.append(('%s|call-%d|valid-module-%s' % (sig, k + 1, res.get(n)), '%s %s: %r' % (case['seq'], n, res.get(n))))
                    continue
                got = set(getattr(res[n], 'oids', ()) or ())
                if got != oids:
                    vs.append(('%s|call-%d|status.oids-are-those-of-an-earlier-edition' % (sig, k + 1),
                               'editions %s, %s: %r, declared now %r' % (case['seq'], n, sorted(got), sorted(oids))))
            if vs:
                break
        return case['seq'], vs, steps


class FileEdges(object):
    name = 'J-file-edges'
    describe = ('ONE parser object reads a chain of two (quick) or three (thorough) modules importing each other\'s nodes; every text '
                'independently begins with nothing / a blank line / a comment line / spaces and ends in a line end / nothing / a comment '
                'without line end / an unclosed "--" / a comment line without line end / a form feed; both request orders, both back '
                'ends: what one file ends in has no say in how the next one is read')

    BEGIN = ['', '\n', '-- header\n', '  ', '--\n']
    END = ['\n', '', ' -- of the module', ' --', '\n-- the end', '\n\n  ', ' -- a -- b']

    def blocks(self, tier):
        n = 3 if tier == 'thorough' else 2
        return [{'n': n, 'first': [b, e]} for b in range(len(self.BEGIN)) for e in range(len(self.END))]

    def cases(self, block, tier):
        n = block['n']
        alphabet = list(itertools.product(range(len(self.BEGIN)), range(len(self.END))))
        for rest in itertools.product(alphabet, repeat=n - 1):
            for order in ((0, 1) if n == 2 else (0, 1, 2, 3)):
                for backend in ('json', 'pysnmp'):
                    yield {'edges': [block['first']] + [list(x) for x in rest], 'order': order, 'backend': backend}

    def run_case(self, case):
        names = ['EA-MIB', 'EB-MIB', 'EC-MIB'][:len(case['edges'])]
        texts, want = env.base_texts(), {}
        for i, name in enumerate(names):
            if i + 1 < len(names):
                imp = 'IMPORTS e%dBranch FROM %s;' % (i + 1, names[i + 1])
                parent = 'e%dBranch' % (i + 1)
            else:
                imp = 'IMPORTS enterprises FROM SNMPv2-SMI;'
                parent = 'enterprises'
            body = ('%s DEFINITIONS ::= BEGIN\n%s\ne%dLeaf OBJECT IDENTIFIER ::= { e%dBranch 1 }\n'
                    'e%dBranch OBJECT IDENTIFIER ::= { %s %d }\nEND' % (name, imp, i, i, i, parent, 70 + i))
            b, e = case['edges'][i]
            texts[name] = self.BEGIN[b] + body + self.END[e]
        oid = (1, 3, 6, 1, 4, 1)
        for i in reversed(range(len(names))):
            oid = oid + (70 + i,)
            want[names[i]] = set([dotted(oid), dotted(oid + (1,))])
        orders = [names, names[::-1], names[:1], [names[-1], names[0]]]
        request = orders[case['order']]
        w = env.CaptureWriter()
        parser = env.shared_parser('smiV2')
        parser.reset()
        comp = env.MibCompiler(parser, env.make_codegen(case['backend']), w)
        comp.addSources(env.DictReader(texts, tag='only'))
        comp.addSearchers(env.StubSearcher(*env.BASE_NAMES))
        sig = '%s|J|begin=%s|end=%s' % (getattr(self, 'prefix', 'C01'), ','.join(sorted(set(repr(self.BEGIN[b]) for b, e in case['edges']))),
                                       ','.join(sorted(set(repr(self.END[e]) for b, e in case['edges']))))
        try:
            res = comp.compile(*request)
        except Exception as exc:
            return 'escaped', [('%s|exception-escapes-compile|%s' % (sig, type(exc).__name__), repr(exc)[:300])], 1
        vs = []
        for n in names:
            if res.get(n) != 'compiled':
                vs.append(('%s|valid-module-%s' % (sig, res.get(n)), '%s: %r %r\nrequest %r\ntexts %r' % (
                    n, res.get(n), getattr(res.get(n), 'error', None), request, dict((k, texts[k]) for k in names))))
            elif set(getattr(res[n], 'oids', ()) or ()) != want[n]:
                vs.append(('%s|status.oids-differ' % sig, '%s: %r, declared %r' % (n, sorted(res[n].oids), sorted(want[n]))))
        return repr(sorted((k, str(v)) for k, v in res.items())), vs, 1


class ImportGroups(object):
    name = 'L-imports-in-several-groups'
    describe = ('module A hangs a node below each of three nodes of module B and imports them in every division into one to three '
                'FROM B groups (every ordered set partition), the groups placed before, after and around the FROM SNMPv2-SMI group; '
                'both back ends: every OID is the declared one however the IMPORTS section is cut up')

    @staticmethod
    def ordered_partitions(items):
        if not items:
            yield []
            return
        first, rest = items[0], items[1:]
        for part in ImportGroups.ordered_partitions(rest):
            for i in range(len(part)):
                yield part[:i] + [[first] + part[i]] + part[i + 1:]
            for i in range(len(part) + 1):
                yield part[:i] + [[first]] + part[i:]

    def blocks(self, tier):
        return [{'backend': b} for b in ('json', 'pysnmp')]

    def cases(self, block, tier):
        for groups in self.ordered_partitions(['bOne', 'bTwo', 'bThree']):
            for smi_at in range(len(groups) + 1):
                yield {'backend': block['backend'], 'groups': groups, 'smi_at': smi_at}

    def run_case(self, case):
        clauses = ['%s FROM B-MIB' % ', '.join(g) for g in case['groups']]
        clauses.insert(case['smi_at'], 'enterprises FROM SNMPv2-SMI')
        a = ('A-MIB DEFINITIONS ::= BEGIN\nIMPORTS %s;\naRoot OBJECT IDENTIFIER ::= { enterprises 11 }\n'
             'aOne OBJECT IDENTIFIER ::= { bOne 1 }\naTwo OBJECT IDENTIFIER ::= { bTwo 2 }\naThree OBJECT IDENTIFIER ::= { bThree 3 }\nEND\n'
             % '\n    '.join(clauses))
        b = ('B-MIB DEFINITIONS ::= BEGIN\nIMPORTS enterprises FROM SNMPv2-SMI;\nbOne OBJECT IDENTIFIER ::= { enterprises 21 }\n'
             'bTwo OBJECT IDENTIFIER ::= { bOne 2 }\nbThree OBJECT IDENTIFIER ::= { bTwo 3 }\nEND\n')
        want = {'A-MIB': set(['1.3.6.1.4.1.11', '1.3.6.1.4.1.21.1', '1.3.6.1.4.1.21.2.2', '1.3.6.1.4.1.21.2.3.3']),
                'B-MIB': set(['1.3.6.1.4.1.21', '1.3.6.1.4.1.21.2', '1.3.6.1.4.1.21.2.3'])}
        parser = env.shared_parser('smiV2')
        parser.reset()
        res, written = env.compile_set({'A-MIB': a, 'B-MIB': b}, ['A-MIB'], codegen=case['backend'], dialect=parser)
        sig = 'C01|L|groups=%d|%s' % (len(case['groups']), case['backend'])
        vs = []
        for n in ('A-MIB', 'B-MIB'):
            if res.get(n) != 'compiled':
                vs.append(('%s|valid-module-%s' % (sig, res.get(n)), '%s: %r\n%s' % (n, getattr(res.get(n), 'error', None), a)))
            elif set(getattr(res[n], 'oids', ()) or ()) != want[n]:
                vs.append(('%s|status.oids-differ' % sig, '%s: %r, declared %r\n%s' % (n, sorted(res[n].oids), sorted(want[n]), a)))
        return repr(sorted((k, str(v)) for k, v in res.items())), vs, 1


class LineEnds(object):
    name = 'M-line-ends-and-comments'
    describe = ('two modules whose OID values are spread over several lines, every line with or without a trailing comment, the line '
                'ends LF, CR LF, lone CR and mixtures of them (as files that went through several editors have): both back ends, every '
                'OID is the declared one whatever ends the lines and the comments')

    B = ('B-MIB DEFINITIONS ::= BEGIN\nIMPORTS enterprises\n FROM SNMPv2-SMI;\nbRoot OBJECT IDENTIFIER\n ::= { enterprises\n 21 }\n'
         'bLeaf OBJECT IDENTIFIER ::= {\n bRoot\n 7\n 2 }\nEND')
    A = ('A-MIB DEFINITIONS ::= BEGIN\nIMPORTS bLeaf\n FROM B-MIB;\naNode OBJECT IDENTIFIER ::= { bLeaf\n 1 }\nEND')

    def blocks(self, tier):
        return [{'backend': b} for b in ('json', 'pysnmp')]

    def cases(self, block, tier):
        from mc.checks import C03
        for comments in (0, 1):
            for ta in range(len(C03.LineEnds.TERMS)):
                for tb in range(len(C03.LineEnds.TERMS)):
                    yield {'backend': block['backend'], 'comments': comments, 'ta': ta, 'tb': tb}

    def run_case(self, case):
        from mc.checks import C03
        T = C03.LineEnds.TERMS
        a = C03.relayout(self.A, case['comments'], T[case['ta']])
        b = C03.relayout(self.B, case['comments'], T[case['tb']])
        want = {'A-MIB': set(['1.3.6.1.4.1.21.7.2.1']), 'B-MIB': set(['1.3.6.1.4.1.21', '1.3.6.1.4.1.21.7.2'])}
        parser = env.shared_parser('smiV2')
        parser.reset()
        res, written = env.compile_set({'A-MIB': a, 'B-MIB': b}, ['A-MIB'], codegen=case['backend'], dialect=parser)
        sig = 'C01|M|%s|%s' % ('comments' if case['comments'] else 'plain', case['backend'])
        vs = []
        for n in ('A-MIB', 'B-MIB'):
            if res.get(n) != 'compiled':
                vs.append(('%s|valid-module-%s' % (sig, res.get(n)), '%s: %r\n%r' % (n, getattr(res.get(n), 'error', None), b if n == 'B-MIB' else a)))
            elif set(getattr(res[n], 'oids', ()) or ()) != want[n]:
                vs.append(('%s|status.oids-differ' % sig, '%s: %r, declared %r\n%r' % (n, sorted(res[n].oids), sorted(want[n]), b if n == 'B-MIB' else a)))
        return repr(sorted((k, str(v)) for k, v in res.items())), vs, 1


def _parents_from_the_old_base_modules():
    from mc.checks import C16

    class OldBaseParents(C16.MixedImports):
        """An OID parent imported from RFC1213-MIB / RFC1158-MIB next to a symbol that moved to an SMIv2 module: the set compiles
        and the node below the parent gets the OID the texts define (that of the transliteration, each symbol from its home)."""
        prefix = 'C01'
        name = 'K-parents-from-the-old-base-modules'
    return OldBaseParents()


FAMILIES = [_parents_from_the_old_base_modules(), Shapes(), Spellings(), Kinds(), SameNames(), ArcZero(), TableOrders(), ArcValues(), NoDepsChains(), AfterFailures(), ParentEditions(), FileEdges(), ImportGroups(), LineEnds()]
