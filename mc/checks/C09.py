"""C09 - nothing is written when any module fails, unless errors are ignored.

Every placement of one or two failures (missing source, reader error, lexical / syntax / truncation error, symbol
table error, code generation error injected or real) in every import graph x every request x ignoreErrors on/off x
borrowers absent / present-but-empty / able to repair one of the failures x writeMibs, noDeps.
Graphs with the imported node *used* as an OID parent are included, so that the failure of a module makes the code
generation of its importers fail too (also when the failed module itself is repaired by a borrower).
Oracle (mc.compileharness.judge): with an unrepaired failure and ignoreErrors off: zero putData calls, every built
or borrowed module 'unprocessed'; with ignoreErrors on: every built module handed to the writer once and reported
compiled, bad ones keep failed / missing.
"""
import itertools

from mc import compileharness as H
from mc.checks import C07

BOUNDS = {
    'quick': '2 modules: all 16 graphs x 4 requests x all 1- and 2-failure placements over 7 failure kinds x ignoreErrors x noDeps x 4 '
             'borrower settings',
    'thorough': '3 modules: 22 graphs x 15 requests x all 1- and 2-failure placements x ignoreErrors x borrowers x noDeps x writeMibs',
}
ASSUMPTIONS = C07.ASSUMPTIONS

FAILURES = ['missing', 'reader-error', 'lexerr', 'synerr', 'truncated', 'dupsym', 'unktype', 'generr', 'badrange', 'badimport']


def apply_failure(w, m, kind):
    if kind == 'missing':
        w.setdefault('src', {})[m + '0'] = 'notfound'
    elif kind == 'reader-error':
        w.setdefault('src', {})[m + '0'] = 'error'
    elif kind == 'generr':
        w.setdefault('generr', []).append(m)
    else:
        w.setdefault('text', {})[m] = kind


def placements(n):
    mods = H.USER[:n]
    for m in mods:
        for k in FAILURES:
            yield [(m, k)]
    for m1, m2 in itertools.combinations(mods, 2):
        for k1 in FAILURES:
            for k2 in FAILURES:
                yield [(m1, k1), (m2, k2)]


class Failures(object):
    case_timeout = 10
    name = 'failure-placements'
    describe = ('one or two failures of 8 kinds placed on the modules of every import graph, every request, ignoreErrors on/off, '
                'borrowers absent / empty / holding the first failed module (matching and non-matching flavour)')

    def blocks(self, tier):
        # used=1: the import is used as an OID parent (acyclic graphs without self loops only), so that failures cascade
        dags2 = [i for i, g in enumerate(C07.graphs(2)) if g and len(g) == 1 and g[0][0] != g[0][1]]
        out = [{'n': 2, 'g': g} for g in range(16)] + [{'n': 2, 'g': g, 'used': 1} for g in dags2]
        if tier == 'thorough':
            out += [{'n': 3, 'g': g} for g in range(len(C07.graphs3_subset()))]
            out += [{'n': 3, 'g': g, 'used': 1} for g in (1, 2, 3, 4, 5, 12, 13, 18, 20)]
        return out

    def cases(self, block, tier):
        n = block['n']
        g = (list(C07.graphs(2)) if n == 2 else C07.graphs3_subset())[block['g']]
        optsets = [{}, {'ignoreErrors': True}, {'noDeps': True}, {'noDeps': True, 'ignoreErrors': True}]
        if tier == 'thorough':
            optsets += [{'writeMibs': False},
                        {'writeMibs': False, 'ignoreErrors': True}, {'dryRun': True, 'ignoreErrors': True}]
        for pl in placements(n):
            for req in C07.requests(n):
                for bi in range(4):
                    for o in optsets:
                        w = {'n': n, 'edges': g, 'req': req, 'used': block.get('used', 0)}
                        for m, k in pl:
                            apply_failure(w, m, k)
                        if bi == 1:
                            w['borrowers'] = [{'texts': False, 'ans': {}}]
                        elif bi == 2:
                            w['borrowers'] = [{'texts': False, 'ans': {pl[0][0]: 'has'}}]
                        elif bi == 3:
                            w['borrowers'] = [{'texts': True, 'ans': {pl[0][0]: 'has'}}, {'texts': False, 'ans': {pl[-1][0]: 'error'}}]
                        if o:
                            w['opts'] = dict(o)
                        yield w

    def run_case(self, case):
        obs = H.run_world(case)
        vs = H.judge(case, obs, 'C09|failures')
        return H.observation_key(obs), vs, len(obs['log'])


class SeveralPerFile(C07.SeveralPerFile):
    """C07's worlds of multi-module files over two sources (a broken module next to a sound file mate, a broken and a sound copy of
    one module in a file, copies travelling in another module's file): a module is either failed - then it is not written, and
    without ignoreErrors nothing is - or built, written and reported compiled; never both."""
    prefix = 'C09'

    def select(self, world):
        return not world.get('opts', {}).get('noDeps')


def _one_file_two_names():
    from mc.checks import C08

    class OneFileTwoNames(C08.OneFileTwoNames):
        """C08's real-directory worlds where an imported name resolves (fuzzy -MIB matching) to a file read before that holds
        another module: the name is missing, so without ignoreErrors nothing is written."""
        prefix = 'C09'
        ignore = False
    return OneFileTwoNames()


def _option_histories():
    from mc.checks import C12

    class OptionHistories(C12.OptionHistories):
        """One compiler, calls with changing options - among them a template that cannot be rendered (a code generation failure
        of every module): what is written and reported by a call is what a fresh compiler writes and reports for its options."""
        prefix = 'C09'
    return OptionHistories()


class OptionsLeftOut(object):
    case_timeout = 10
    name = 'options-left-out-of-the-call'
    describe = ('A imports B, B absent or unparsable; no borrower, or one built for modules without / with texts that holds B (or A); '
                'every subset of the six options switched away from its default and the other options NOT named in the call at all '
                '(an option left out means its default): same statuses, same writes as the reference model gives for the explicit call')

    def blocks(self, tier):
        return [{'fail': f, 'bor': b} for f in ('notfound', 'synerr') for b in (None, 'plain-B', 'texts-B', 'texts-A', 'both-B')]

    def cases(self, block, tier):
        keys = ['noDeps', 'rebuild', 'dryRun', 'writeMibs', 'ignoreErrors', 'genTexts']
        for bits in itertools.product([0, 1], repeat=6):
            o = dict((k, (not b) if k == 'writeMibs' else bool(b)) for k, b in zip(keys, bits) if b)
            for req in (['A'], ['A', 'B'], ['B']):
                w = {'n': 2, 'edges': [['A', 'B']], 'used': 0, 'req': req, 'implicit': 1}
                if block['fail'] == 'notfound':
                    w['src'] = {'B0': 'notfound'}
                else:
                    w['text'] = {'B': 'synerr'}
                if block['bor'] == 'plain-B':
                    w['borrowers'] = [{'texts': False, 'ans': {'B': 'has'}}]
                elif block['bor'] == 'texts-B':
                    w['borrowers'] = [{'texts': True, 'ans': {'B': 'has'}}]
                elif block['bor'] == 'texts-A':
                    w['borrowers'] = [{'texts': True, 'ans': {'A': 'has'}}]
                elif block['bor'] == 'both-B':
                    w['borrowers'] = [{'texts': True, 'ans': {'B': 'has'}}, {'texts': False, 'ans': {'B': 'has'}}]
                if o:
                    w['opts'] = o
                yield w

    def run_case(self, case):
        obs = H.run_world(case)
        vs = H.judge(case, obs, 'C09|options-left-out')
        return H.observation_key(obs), vs, len(obs['log'])


class BorrowedAndRebuild(object):
    case_timeout = 10
    name = 'borrowable-failures-under-rebuild'
    describe = ('A imports B, B (or A, or both) absent or unparsable and held by a borrower; one or two searchers that call the copy in the '
                'destination fresh / answer normally / know nothing, honouring rebuild or not, in either order; rebuild x ignoreErrors x '
                'noDeps x requests: a module that is borrowed is handed over and reported borrowed, and nothing is written while a '
                'failure remains')

    def blocks(self, tier):
        return [{'fail': f, 'who': w} for f in ('notfound', 'synerr') for w in ('B', 'A', 'AB')]

    def cases(self, block, tier):
        answers = ('fresh', 'normal', None)
        for a1 in answers:
            for h1 in (True, False):
                for a2 in answers:
                    for rb in (False, True):
                        for ie in (False, True):
                            for req in (['A'], ['A', 'B']):
                                w = {'n': 2, 'edges': [['A', 'B']], 'used': 0, 'req': req}
                                for m in block['who']:
                                    if block['fail'] == 'notfound':
                                        w.setdefault('src', {})[m + '0'] = 'notfound'
                                    else:
                                        w.setdefault('text', {})[m] = 'synerr'
                                w['borrowers'] = [{'texts': False, 'ans': dict((m, 'has') for m in block['who'])}]
                                ss = []
                                for ans, hon in ((a1, h1), (a2, True)):
                                    ss.append({'honours_rebuild': hon, 'ans': dict((m, ans) for m in block['who']) if ans else {}})
                                w['searchers'] = ss
                                o = {}
                                if rb:
                                    o['rebuild'] = True
                                if ie:
                                    o['ignoreErrors'] = True
                                if o:
                                    w['opts'] = o
                                yield w

    def run_case(self, case):
        obs = H.run_world(case)
        vs = H.judge(case, obs, 'C09|borrowed-and-rebuild')
        return H.observation_key(obs), vs, len(obs['log'])


FAMILIES = [Failures(), SeveralPerFile(), _one_file_two_names(), _option_histories(), OptionsLeftOut(), BorrowedAndRebuild()]
