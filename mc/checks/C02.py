"""C02 - the syntax tree is a faithful, layout-independent image of the MIB text.

Oracle: parse(text) == reference tree derived from the spec (mc.mibspec, written from the grammar actions),
for the canonical layout, for uniform layouts and for every placement of <=1 (quick) / <=2 (thorough)
non-default separators over all token gaps x the separator alphabet.
"""
import itertools

from mc import catalogue, env, mibspec

BOUNDS = {
    'quick': 'catalogue(quick) x 3 dialects; uniform layouts; every single-gap separator placement',
    'thorough': 'catalogue(thorough) x 3 dialects; uniform layouts; every single-gap placement on the quick '
                'catalogue; every two-gap placement on one representative text per clause kind',
}
ASSUMPTIONS = [
    'reference tree shapes are the contract between parser/smi.py and the code generators (DESIGN.md A.1)',
    'identifiers are separated from a following comment by white space (foo--x is one identifier for this lexer)',
]

SEPS = [' ', '\n', '\t', '\r\n', '\r', '\n\n  ', ' -- c\n', ' --\n', ' -- "q" END ::= { x\n', ' -- café\r\n',
        ' -- x\r', '--c\n', '']
RAW_SAFE = [s for s in SEPS if 'END' not in s and s != '']
TRAIL = SEPS + [' -- no line end', '\n\n\n']

_cache = {}


def cat(tier):
    if tier not in _cache:
        ents = catalogue.entries(tier)
        _cache[tier] = (ents, dict((e['id'], e) for e in ents))
    return _cache[tier]


def dialects(entry):
    if entry.get('only'):
        return list(entry['only'])
    return ['smiV1', 'smiV1Relaxed'] if entry['v1'] else ['smiV2', 'smiV1', 'smiV1Relaxed']


def gap_alphabet(tokens, i):
    """Separators admissible in the gap before tokens[i] (1 <= i < len)."""
    left, right = tokens[i - 1], tokens[i]
    if left.startswith(mibspec.RAW) or right.startswith(mibspec.RAW) or left in ('MACRO', 'EXPORTS', 'CHOICE'):
        return RAW_SAFE
    return [s for s in SEPS if s != '' or mibspec.can_fuse(left, right)]


_canon_ok = {}


def canonical_ok(entry, dialect):
    """Layout families only judge texts whose canonical layout already parses to the reference tree;
    a text that does not is reported once, by the canonical family."""
    key = (entry['id'], dialect)
    if key not in _canon_ok:
        out, _ = check_parse(mibspec.render(entry['mods']), dialect, mibspec.file_tree(entry['mods']), '')
        _canon_ok[key] = out[0] == 'ok'
    return _canon_ok[key]


def check_parse(text, dialect, expected, sigbase):
    try:
        got = env.parse(text, dialect)
    except Exception as exc:
        return 'exc', [('%s|exception|%s' % (sigbase, type(exc).__name__), 'text %r raised %r' % (text, exc))]
    if got != expected:
        return ('diff', repr(got)), [('%s|tree-differs' % sigbase, 'text %r\nexpected %r\ngot      %r' % (text, expected, got))]
    return ('ok', repr(got)), []


class Canonical(object):
    name = 'canonical'
    describe = ('every catalogue spec (every clause kind x every subset of optional parts, every SYNTAX alternative, '
                'numeric token classes at their boundaries, lists of length 1..3, 1..3 modules per file) in its '
                'canonical one-space layout and 5 uniform layouts, under every shipped dialect')
    UNIFORM = [' ', '\n', '\r\n', '\r', '\t', ' -- c\n']

    def blocks(self, tier):
        ids = [e['id'] for e in cat(tier)[0]]
        return [{'tier': tier, 'ids': ids[i:i + 40]} for i in range(0, len(ids), 40)]

    def cases(self, block, tier):
        byid = cat(block['tier'])[1]
        for eid in block['ids']:
            for d in dialects(byid[eid]):
                for u in range(len(self.UNIFORM)):
                    yield {'tier': block['tier'], 'e': eid, 'd': d, 'u': u}

    def run_case(self, case):
        e = cat(case['tier'])[1][case['e']]
        toks = mibspec.file_tokens(e['mods'])
        sep = self.UNIFORM[case['u']]
        seps = None
        if sep != ' ':
            seps = dict((i, sep if gap_alphabet(toks, i) is not RAW_SAFE or sep in RAW_SAFE else ' ')
                        for i in range(1, len(toks)))
        text = mibspec.join(toks, seps=seps, trail=sep if sep != ' ' else '\n')
        kind = case['e'].rsplit('-', 1)[0]
        out, vs = check_parse(text, case['d'], mibspec.file_tree(e['mods']),
                              'C02|canonical|%s|%s|u%d' % (kind, case['d'], case['u']))
        return out, vs, 1


class OneGap(object):
    name = 'one-gap'
    describe = ('for every quick-catalogue text and dialect: every gap between two tokens (and the gaps before the '
                'first / after the last token) x every separator of the alphabet (space, LF, TAB, CRLF, CR, blank '
                'line, comments with quotes/keywords/non-ASCII, CR-terminated comment, nothing where tokens cannot fuse)')

    def blocks(self, tier):
        ids = [e['id'] for e in cat('quick')[0]]
        return [{'ids': ids[i:i + 8]} for i in range(0, len(ids), 8)]

    def cases(self, block, tier):
        byid = cat('quick')[1]
        for eid in block['ids']:
            e = byid[eid]
            toks = mibspec.file_tokens(e['mods'])
            ds = dialects(e)
            for gi in range(0, len(toks) + 1):
                if gi == 0:
                    alpha = [s for s in SEPS if s != ' ']
                elif gi == len(toks):
                    alpha = TRAIL
                else:
                    alpha = [s for s in gap_alphabet(toks, gi) if s != ' ']
                for s in alpha:
                    # dialect rotates with the gap so that every (gap, separator) is seen under every dialect
                    # over the catalogue while the cost stays linear
                    for d in (ds if tier == 'thorough' else [ds[(gi + len(s)) % len(ds)]]):
                        yield {'e': eid, 'd': d, 'g': gi, 's': s}

    def run_case(self, case):
        e = cat('quick')[1][case['e']]
        toks = mibspec.file_tokens(e['mods'])
        gi, s = case['g'], case['s']
        if gi == 0:
            text = mibspec.join(toks, lead=s)
        elif gi == len(toks):
            text = mibspec.join(toks, trail=s)
        else:
            text = mibspec.join(toks, seps={gi: s})
        kind = case['e'].rsplit('-', 1)[0]
        if not canonical_ok(e, case['d']):
            return (case['e'], 'canonical-broken'), [], 1
        out, vs = check_parse(text, case['d'], mibspec.file_tree(e['mods']),
                              'C02|one-gap|%s|sep=%r|before=%s' % (kind, s, _tokclass(toks, gi)))
        return out, vs, 1


def _tokclass(toks, gi):
    if gi >= len(toks):
        return '<eof>'
    t = toks[gi]
    if t.startswith(mibspec.RAW):
        return '<raw>'
    if t[0] == '"':
        return '<string>'
    if t[0] == "'":
        return '<literal>'
    if t.lstrip('-').isdigit():
        return '<number>'
    if t[0].isalpha() and t.upper() != t:
        return '<ident>'
    return t


class TwoGaps(object):
    name = 'two-gaps'
    describe = ('thorough only: for one representative text per clause kind, every unordered pair of gaps x every '
                'ordered pair of separators from a reduced alphabet (LF, CRLF, CR, comment, CR-terminated comment, nothing)')
    REPR = ['ot-parts-0', 'ot-syntax-5', 'type-40', 'tc-255a-RFC 1-1', 'choice-1', 'macro-1-0', 'exports-imp-1', 'imports-3',
            'oi-RFC 2', 'nt-RFC 2-2', 'og-None-2', 'trap-2-True-True', 'mi-2-2', 'mc-multi-0', 'ac-3-True',
            'two-modules', 'table']
    ALPHA = ['\n', '\r\n', '\r', ' -- c\n', ' -- x\r', '']

    def blocks(self, tier):
        if tier != 'thorough':
            return []
        byid = cat('quick')[1]
        out = []
        for eid in self.REPR:
            n = len(mibspec.file_tokens(byid[eid]['mods']))
            for g1 in range(1, n):
                out.append({'e': eid, 'g1': g1})
        return out

    def cases(self, block, tier):
        e = cat('quick')[1][block['e']]
        toks = mibspec.file_tokens(e['mods'])
        g1 = block['g1']
        a1 = [s for s in self.ALPHA if s in gap_alphabet(toks, g1)]
        for g2 in range(g1 + 1, len(toks)):
            a2 = [s for s in self.ALPHA if s in gap_alphabet(toks, g2)]
            for s1, s2 in itertools.product(a1, a2):
                yield {'e': block['e'], 'g1': g1, 'g2': g2, 's1': s1, 's2': s2}

    def run_case(self, case):
        e = cat('quick')[1][case['e']]
        toks = mibspec.file_tokens(e['mods'])
        text = mibspec.join(toks, seps={case['g1']: case['s1'], case['g2']: case['s2']})
        d = dialects(e)[(case['g1'] + case['g2']) % len(dialects(e))]
        kind = case['e'].rsplit('-', 1)[0]
        if not canonical_ok(e, d):
            return (case['e'], 'canonical-broken'), [], 1
        out, vs = check_parse(text, d, mibspec.file_tree(e['mods']),
                              'C02|two-gaps|%s|seps=%r,%r' % (kind, case['s1'], case['s2']))
        return out, vs, 1



class BackToBack(object):
    name = 'back-to-back'
    describe = ('ONE parser object parses text A - ending in every trailing separator of the alphabet (comment without line end, bare '
                'CR, nothing ...) or broken off inside a MACRO / EXPORTS / CHOICE section or a comment - and then text B: the tree of '
                'B is its reference tree whatever A ended with; 6 x 4 catalogue texts, every dialect')
    A_IDS = ['value-name-0', 'ot-parts-0', 'macro-0-0', 'exports-0', 'choice-0', 'mi-0']
    B_IDS = ['value-name-0', 'ot-parts-1', 'type-0', 'two-modules-0']
    BROKEN = ['X-MIB DEFINITIONS ::= BEGIN\nOBJECT-TYPE MACRO ::= BEGIN never closed', 'X-MIB DEFINITIONS ::= BEGIN\nEXPORTS a, b',
              'X-MIB DEFINITIONS ::= BEGIN\nT ::= CHOICE { a INTEGER', 'X-MIB DEFINITIONS ::= BEGIN -- cut inside a comment',
              'X-MIB DEFINITIONS ::= BEGIN "cut inside a string']

    def ids(self, wanted):
        byid = cat('quick')[1]
        out = []
        for w in wanted:
            if w in byid:
                out.append(w)
            else:
                alt = sorted(k for k in byid if k.startswith(w.rsplit('-', 1)[0]))
                if alt:
                    out.append(alt[0])
        return out

    def blocks(self, tier):
        return [{'a': a} for a in self.ids(self.A_IDS)] + [{'broken': i} for i in range(len(self.BROKEN))]

    def cases(self, block, tier):
        for b in self.ids(self.B_IDS):
            for d in ('smiV2', 'smiV1', 'smiV1Relaxed'):
                if 'broken' in block:
                    yield {'broken': block['broken'], 'b': b, 'd': d}
                else:
                    for t in range(len(TRAIL)):
                        yield {'a': block['a'], 't': t, 'b': b, 'd': d}

    def run_case(self, case):
        byid = cat('quick')[1]
        eb = byid[case['b']]
        if case['d'] not in dialects(eb):
            return 'skip', [], 0
        if 'broken' in case:
            text_a = self.BROKEN[case['broken']]
            label = 'broken-%d' % case['broken']
        else:
            ea = byid[case['a']]
            if case['d'] not in dialects(ea):
                return 'skip', [], 0
            text_a = mibspec.join(mibspec.file_tokens(ea['mods']), trail=TRAIL[case['t']])
            label = 'trail=%r' % TRAIL[case['t']]
        text_b = mibspec.join(mibspec.file_tokens(eb['mods']))
        parser = env.fresh_parser(case['d'])
        try:
            parser.parse(text_a)
        except Exception:
            pass
        sig = 'C02|back-to-back|first-text-%s' % label
        try:
            got = parser.parse(text_b)
        except Exception as exc:
            return 'exc', [('%s|exception|%s' % (sig, type(exc).__name__), 'after %r\ntext %r raised %r' % (text_a[-60:], text_b, exc))], 2
        want = mibspec.file_tree(eb['mods'])
        if got != want:
            return 'diff', [('%s|tree-differs' % sig, 'after %r\ntext %r\nexpected %r\ngot      %r' % (text_a[-60:], text_b, want, got))], 2
        return 'ok', [], 2

class AfterACutText(object):
    name = 'after-a-text-cut-anywhere'
    describe = ('ONE parser object is given a catalogue text with an IMPORTS section cut after every one of its tokens (also with the '
                'semicolon of the IMPORTS section left out) and then a well-formed text with IMPORTS of its own: the tree of the '
                'second text is its reference tree wherever the first one broke off; every dialect')
    B_IDS = ['imports-2', 'two-modules-0', 'ot-parts-1']

    def a_ids(self):
        byid = cat('quick')[1]
        return sorted(k for k in byid if k.startswith('imports-'))[:6] + BackToBack().ids(['ot-parts-0', 'mi-0', 'two-modules-0'])

    def blocks(self, tier):
        return [{'a': a, 'd': d} for a in self.a_ids() for d in ('smiV2', 'smiV1', 'smiV1Relaxed')]

    def cases(self, block, tier):
        byid = cat('quick')[1]
        toks = mibspec.file_tokens(byid[block['a']]['mods'])
        for b in BackToBack().ids(self.B_IDS):
            for k in range(1, len(toks)):
                yield {'a': block['a'], 'd': block['d'], 'b': b, 'k': k}
            for i, t in enumerate(toks):
                if t == ';':
                    yield {'a': block['a'], 'd': block['d'], 'b': b, 'drop': i}

    def run_case(self, case):
        byid = cat('quick')[1]
        ea, eb = byid[case['a']], byid[case['b']]
        if case['d'] not in dialects(eb):
            return 'skip', [], 0
        toks = mibspec.file_tokens(ea['mods'])
        if 'drop' in case:
            text_a = mibspec.join(toks[:case['drop']] + toks[case['drop'] + 1:])
            label = 'semicolon-left-out'
        else:
            text_a = mibspec.join(toks[:case['k']])
            label = 'cut-inside-IMPORTS' if 'IMPORTS' in toks[:case['k']] and ';' not in toks[:case['k']] else 'cut-elsewhere'
        parser = env.shared_parser(case['d'])
        parser.reset()
        try:
            parser.parse(text_a)
        except Exception:
            pass
        text_b = mibspec.join(mibspec.file_tokens(eb['mods']))
        sig = 'C02|after-a-cut-text|%s' % label
        try:
            got = parser.parse(text_b)
        except Exception as exc:
            return 'exc', [('%s|exception|%s' % (sig, type(exc).__name__), 'after %r\ntext %r raised %r' % (text_a[-80:], text_b, exc))], 2
        want = mibspec.file_tree(eb['mods'])
        if got != want:
            return 'diff', [('%s|tree-differs' % sig, 'after %r\ntext %r\nexpected %r\ngot      %r' % (text_a[-80:], text_b, want, got))], 2
        return 'ok', [], 2


def _shared_cache_directory():
    from mc.checks import C17

    class SharedCacheDirectory(C17.SharedCacheDirectory):
        """The tree of a text is that of its dialect, whatever other dialect used the parser cache directory before."""
        prefix = 'C02'
        name = 'dialects-over-one-cache-directory'
    return SharedCacheDirectory()


FAMILIES = [Canonical(), OneGap(), TwoGaps(), BackToBack(), AfterACutText(), _shared_cache_directory()]
