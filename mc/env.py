"""Access to the implementation under test (always imported from $VERIF_REPO) and small doubles."""
import os
import sys

from mc import core

if core.REPO not in sys.path:
    sys.path.insert(0, core.REPO)

from pysmi import error  # noqa: E402
from pysmi.mibinfo import MibInfo  # noqa: E402
from pysmi.parser import dialect as _dialect  # noqa: E402
from pysmi.parser.smi import parserFactory  # noqa: E402
from pysmi.compiler import MibCompiler  # noqa: E402
from pysmi.codegen.symtable import SymtableCodeGen  # noqa: E402
from pysmi.codegen.jsondoc import JsonCodeGen  # noqa: E402
from pysmi.codegen.pysnmp import PySnmpCodeGen  # noqa: E402
from pysmi.searcher.stub import StubSearcher  # noqa: E402

DIALECTS = {'smiV2': _dialect.smiV2, 'smiV1': _dialect.smiV1, 'smiV1Relaxed': _dialect.smiV1Relaxed}

_parser_classes = {}
_parsers = {}


def dialect_key(opts):
    if isinstance(opts, str):
        return opts
    return ','.join(sorted(k for k in opts if opts[k]))


def parser_class(opts):
    key = dialect_key(opts)
    if key not in _parser_classes:
        o = DIALECTS[opts] if isinstance(opts, str) else dict(opts)
        _parser_classes[key] = parserFactory(**o)
    return _parser_classes[key]


def fresh_parser(opts='smiV2'):
    return parser_class(opts)()


def shared_parser(opts='smiV2'):
    """One parser per dialect per process.  Only used through parse_fresh_state()."""
    key = dialect_key(opts)
    if key not in _parsers:
        _parsers[key] = fresh_parser(opts)
    return _parsers[key]


def parse(text, opts='smiV2'):
    """Parse on a process-wide parser whose lexer is reset first, so that the result is that of a
    fresh parser (building one costs 30 ms, resetting the lexer 1 ms).  Checks that examine
    state carry-over (C12) build their own objects instead."""
    p = shared_parser(opts)
    p.reset()
    try:
        return p.parse(text)
    finally:
        p.reset()


BASE_DIR = os.path.join(core.VERIF, 'basemibs')
BASE_NAMES = ('SNMPv2-SMI', 'SNMPv2-TC', 'SNMPv2-CONF')
_base_texts = {}


def base_text(name):
    if name not in _base_texts:
        with open(os.path.join(BASE_DIR, name)) as f:
            _base_texts[name] = f.read()
    return _base_texts[name]


def base_texts(extra=()):
    return dict((n, base_text(n)) for n in BASE_NAMES + tuple(extra))


class DictReader(object):
    """In-memory source: module name -> text.  Logs every lookup."""

    def __init__(self, texts, tag='mem', mtime=1000):
        self.texts = texts
        self.tag = tag
        self.mtime = mtime
        self.log = []

    def __str__(self):
        return 'DictReader{%s}' % self.tag

    def getData(self, mibname, **options):
        self.log.append(mibname)
        if mibname not in self.texts:
            raise error.PySmiReaderFileNotFoundError('source MIB %s not found' % mibname, reader=self)
        return MibInfo(path='%s://%s' % (self.tag, mibname), file=mibname, name=mibname, mtime=self.mtime), \
            self.texts[mibname]


class CaptureWriter(object):
    def __init__(self):
        self.written = []

    def __str__(self):
        return 'CaptureWriter'

    def setOptions(self, **kw):
        return self

    def putData(self, mibname, data, comments=(), dryRun=False):
        self.written.append((mibname, data, dryRun))

    def getData(self, filename):
        return ''


def make_codegen(kind):
    return JsonCodeGen() if kind == 'json' else PySnmpCodeGen()


def compile_set(texts, requested, codegen='json', dialect='smiV2', stubs=BASE_NAMES, extra_base=(), source='memory',
                **options):
    """Full pipeline with fresh objects.  Returns (status dict, {module: text written}).
    source: 'memory' (texts handed over by an in-memory reader), 'files' / 'zip' (texts written octet for octet as UTF-8 into a
    scratch directory / archive and read back by the real FileReader / ZipReader)."""
    writer = CaptureWriter()
    comp = MibCompiler(fresh_parser(dialect) if isinstance(dialect, (str, dict)) else dialect,
                       make_codegen(codegen) if isinstance(codegen, str) else codegen, writer)
    alltexts = base_texts(extra_base)
    alltexts.update(texts)
    tmp = None
    try:
        if source == 'memory':
            comp.addSources(DictReader(alltexts))
        else:
            import tempfile
            tmp = tempfile.mkdtemp(prefix='mcsrc', dir=os.environ.get('VERIF_TMP') or ('/dev/shm' if os.path.isdir('/dev/shm') else None))
            blobs = dict((n, t if isinstance(t, bytes) else t.encode('utf-8')) for n, t in alltexts.items())
            if source == 'files':
                from pysmi.reader.localfile import FileReader
                for n, b in blobs.items():
                    with open(os.path.join(tmp, n + '.mib'), 'wb') as f:
                        f.write(b)
                comp.addSources(FileReader(tmp))
            else:
                import zipfile
                from pysmi.reader.zipreader import ZipReader
                with zipfile.ZipFile(os.path.join(tmp, 'm.zip'), 'w') as z:
                    for n, b in sorted(blobs.items()):
                        z.writestr(n + '.mib', b)
                comp.addSources(ZipReader(os.path.join(tmp, 'm.zip')))
        comp.addSearchers(StubSearcher(*stubs))
        res = comp.compile(*requested, **options)
    finally:
        if tmp:
            import shutil
            shutil.rmtree(tmp, ignore_errors=True)
    return res, dict((n, d) for n, d, _ in writer.written)


# --------------------------------------------------------------------------- speed: template cache

class _JinjaProxy(object):
    """Stands in for the name `jinja2` inside pysmi.codegen.{pysnmp,jsondoc}: Environment objects are cached
    per constructor arguments, so the (unchanged) template files are compiled once per process instead of
    once per genCode() call.  Rendering, filters and error types are the real ones."""

    def __init__(self, real):
        self._real = real
        self._envs = {}
        self.exceptions = real.exceptions
        self.FileSystemLoader = real.FileSystemLoader

    def __getattr__(self, name):
        return getattr(self._real, name)

    def Environment(self, loader=None, **kw):
        sp = getattr(loader, 'searchpath', None)
        key = (tuple(sp) if sp is not None else id(loader), tuple(sorted(kw.items())))
        if key not in self._envs:
            self._envs[key] = self._real.Environment(loader=loader, **kw)
        return self._envs[key]


def fast_jinja():
    import jinja2
    import pysmi.codegen.pysnmp as m1
    import pysmi.codegen.jsondoc as m2
    for m in (m1, m2):
        if not isinstance(m.jinja2, _JinjaProxy):
            m.jinja2 = _JinjaProxy(jinja2)


if not os.environ.get('MC_SLOW_JINJA'):
    fast_jinja()
