"""Fault-injecting stand-ins for the names `os`, `tempfile` and `py_compile` inside pysmi.writer.localfile and
pysmi.writer.pyfile (rebound in the imported module objects at run time - no source change).

Every call through a proxy is a *point*: it is logged, it may be failed according to the plan
({occurrence number: fault}), and it is a switch point for the cooperative scheduler (mc.sched).
Path arithmetic (join, normpath ...) is passed through untouched and is not a point.
"""
import errno
import os as _os
import py_compile as _py_compile
import tempfile as _tempfile

# fault kinds each call can really show
FAULTS = {
    'os.makedirs': ['EACCES', 'ENOSPC', 'EEXIST'],
    'tempfile.mkstemp': ['EACCES', 'ENOSPC', 'EMFILE'],
    'os.write': ['EIO', 'ENOSPC', 'short:0', 'short:1', 'short:half', 'short:len-1', 'partial-then-ENOSPC'],
    'os.close': ['EIO', 'EIO-after-effect'],
    'os.rename': ['EACCES', 'EIO', 'EXDEV'],
    'os.unlink': ['EACCES', 'EIO'],
    'os.access': ['False'],
    'py_compile.compile': ['PyCompileError', 'SyntaxError', 'OSError', 'ValueError'],
    'os.path.exists': [],
    'os.path.isfile': [],
}
PURE = ('join', 'normpath', 'dirname', 'basename', 'abspath', 'split', 'splitext', 'sep', 'extsep')


class Recorder(object):
    def __init__(self, plan=None, on_point=None):
        self.plan = dict(plan or {})
        self.trace = []          # (site, thread tag)
        self.injected = []
        self.on_point = on_point  # scheduler hook
        self.tag = None

    def point(self, site):
        """-> fault to inject at this occurrence or None"""
        if self.on_point is not None:
            self.on_point(site)
        idx = len(self.trace)
        self.trace.append(site)
        fault = self.plan.get(idx)
        if fault is None:
            fault = self.plan.get(site)   # a condition of the environment: EVERY call of that kind fails
        if fault is not None:
            self.injected.append((idx, site, fault))
        return fault


def _oserror(code, site):
    return OSError(getattr(errno, code), 'injected %s at %s' % (code, site))


class PathProxy(object):
    def __init__(self, rec):
        self._rec = rec

    def __getattr__(self, name):
        real = getattr(_os.path, name)
        if name in PURE or not callable(real):
            return real

        def call(*a, **k):
            self._rec.point('os.path.' + name)
            return real(*a, **k)
        return call


class OsProxy(object):
    def __init__(self, rec):
        self._rec = rec
        self.path = PathProxy(rec)

    def __getattr__(self, name):
        real = getattr(_os, name)
        if not callable(real) or isinstance(real, type):
            return real
        rec = self._rec

        def call(*a, **k):
            site = 'os.' + name
            fault = rec.point(site)
            if fault is None:
                return real(*a, **k)
            if fault == 'False':
                return False
            if fault.endswith('-after-effect'):
                # e.g. close(): the descriptor is released, then the deferred write error is reported
                real(*a, **k)
                raise _oserror(fault.split('-')[0], site)
            if site == 'os.write':
                fd, data = a[0], a[1]
                if fault.startswith('short:'):
                    what = fault.split(':')[1]
                    n = {'0': 0, '1': 1, 'half': len(data) // 2, 'len-1': max(len(data) - 1, 0)}[what]
                    n = min(n, len(data))
                    if n:
                        _os.write(fd, data[:n])
                    return n
                if fault == 'partial-then-ENOSPC':
                    if len(data) > 1:
                        _os.write(fd, data[:len(data) // 2])
                    raise _oserror('ENOSPC', site)
            raise _oserror(fault, site)
        return call


class TempfileProxy(object):
    def __init__(self, rec):
        self._rec = rec

    def __getattr__(self, name):
        real = getattr(_tempfile, name)
        if not callable(real) or isinstance(real, type):
            return real
        rec = self._rec

        def call(*a, **k):
            site = 'tempfile.' + name
            fault = rec.point(site)
            if fault is None:
                return real(*a, **k)
            raise _oserror(fault, site)
        return call


class PyCompileProxy(object):
    def __init__(self, rec):
        self._rec = rec

    def __getattr__(self, name):
        real = getattr(_py_compile, name)
        if name != 'compile':
            return real
        rec = self._rec

        def call(*a, **k):
            fault = rec.point('py_compile.compile')
            if fault is None:
                return real(*a, **k)
            if fault == 'PyCompileError':
                raise _py_compile.PyCompileError(SyntaxError, SyntaxError('injected'), a[0] if a else '?')
            if fault == 'SyntaxError':
                raise SyntaxError('injected syntax error')
            if fault == 'OSError':
                raise _oserror('EACCES', 'py_compile.compile')
            raise ValueError('injected ValueError in py_compile')
        return call


class Patched(object):
    """Context manager: rebinds os / tempfile / py_compile inside the two writer modules."""

    def __init__(self, rec):
        self.rec = rec

    def __enter__(self):
        import pysmi.writer.localfile as m1
        import pysmi.writer.pyfile as m2
        self.saved = []
        for m in (m1, m2):
            for name, proxy in (('os', OsProxy(self.rec)), ('tempfile', TempfileProxy(self.rec)),
                                ('py_compile', PyCompileProxy(self.rec))):
                if hasattr(m, name):
                    self.saved.append((m, name, getattr(m, name)))
                    setattr(m, name, proxy)
        return self.rec

    def __exit__(self, *exc):
        for m, name, val in self.saved:
            setattr(m, name, val)
        return False


def snapshot(root):
    """Recursive content snapshot of a directory tree (names, kinds, bytes); __pycache__ content is summarised."""
    out = {}
    if not _os.path.exists(root):
        return None
    for dirpath, dirnames, filenames in _os.walk(root):
        rel = _os.path.relpath(dirpath, root)
        dirnames.sort()
        for d in dirnames:
            out[_os.path.join(rel, d) + '/'] = 'dir'
        for f in sorted(filenames):
            p = _os.path.join(dirpath, f)
            if '__pycache__' in dirpath:
                out[_os.path.join(rel, f)] = 'bytecode'
            else:
                with open(p, 'rb') as fh:
                    out[_os.path.join(rel, f)] = fh.read()
    return out
