"""Declarative MIB specs, their rendering to token lists / text, and the reference model of the
parser (expected syntax tree).  Nothing here calls into pysmi: the expected tree is derived from
the grammar actions as documented in DESIGN.md Appendix A.1.

A module spec is a dict:
    {'name': 'X-MIB', 'oid': [subids] | None, 'exports': raw | None,
     'imports': [(module, [symbols]), ...] | None, 'decls': [decl, ...]}
Sub-identifier: 'name' | int | ['name', int]          (lists because specs are JSON-able)
Text clauses are python strings without the surrounding quotes.
"""

RAW = 'RAW:'  # prefix of pseudo tokens that are skipped verbatim by a lexer state


def q(text):
    return '"%s"' % text


def t_oid(subids):
    out = []
    for s in subids:
        if isinstance(s, (list, tuple)):
            out += [s[0], '(', str(s[1]), ')']
        else:
            out.append(str(s))
    return out


def r_oid(subids):
    return ('objectIdentifier', [tuple(s) if isinstance(s, (list, tuple)) else s for s in subids])


def t_value(v):
    return [str(v)]


def r_value(v):
    return v


def t_ranges(ranges):
    out = []
    for i, r in enumerate(ranges):
        if i:
            out.append('|')
        out += t_value(r[0])
        if len(r) == 2:
            out += ['..'] + t_value(r[1])
    return out


def r_ranges(ranges):
    return [tuple(r_value(v) for v in r) for r in ranges]


def t_sub(sub):
    if sub is None:
        return []
    kind, items = sub
    if kind == 'range':
        return ['('] + t_ranges(items) + [')']
    if kind == 'size':
        return ['(', 'SIZE', '('] + t_ranges(items) + [')', ')']
    if kind == 'enum':
        out = ['{']
        for i, (label, n) in enumerate(items):
            if i:
                out.append(',')
            out += [label, '(', str(n), ')']
        return out + ['}']
    raise ValueError(sub)


def r_sub(sub):
    if sub is None:
        return None
    kind, items = sub
    if kind == 'range':
        return ('integerSubType', r_ranges(items))
    if kind == 'size':
        return ('octetStringSubType', r_ranges(items))
    if kind == 'enum':
        return ('enumSpec', [(label, n) for label, n in items])
    raise ValueError(sub)


SIMPLE_WORDS = ('INTEGER', 'Integer32', 'OCTET STRING', 'OBJECT IDENTIFIER')
APP_WORDS = ('IpAddress', 'Counter32', 'Gauge32', 'Unsigned32', 'TimeTicks', 'Opaque', 'Counter64',
             'Counter', 'Gauge', 'NetworkAddress')
ALWAYS_SLOT = ('OBJECT IDENTIFIER', 'IpAddress', 'TimeTicks', 'NetworkAddress')  # productions using anySubType


def t_syntax(syn):
    kind = syn[0]
    if kind in ('simple', 'app', 'ref'):
        return syn[1].split(' ') + t_sub(syn[2] if len(syn) > 2 else None)
    if kind == 'tagged':  # [APPLICATION n] IMPLICIT <simple>
        return ['[', syn[1], str(syn[2]), ']', 'IMPLICIT'] + t_syntax(syn[3])
    if kind == 'bits':
        out = ['BITS', '{']
        for i, (label, n) in enumerate(syn[1]):
            if i:
                out.append(',')
            out += [label, '(', str(n), ')']
        return out + ['}']
    if kind == 'seqof':
        return ['SEQUENCE', 'OF', syn[1]]
    if kind == 'seq':
        out = ['SEQUENCE', '{']
        for i, m in enumerate(syn[1]):
            if i:
                out.append(',')
            out += [m[0]] + m[1].split(' ')
            if len(m) > 2 and m[2] is not None:
                out += t_sub(m[2])
        return out + ['}']
    raise ValueError(syn)


def r_syntax(syn):
    kind = syn[0]
    sub = syn[2] if len(syn) > 2 else None
    if kind == 'simple':
        if sub is None and syn[1] not in ALWAYS_SLOT:
            return ('SimpleSyntax', syn[1])
        return ('SimpleSyntax', syn[1], r_sub(sub))
    if kind == 'app':
        if sub is None and syn[1] not in ALWAYS_SLOT:
            return ('ApplicationSyntax', syn[1])
        return ('ApplicationSyntax', syn[1], r_sub(sub))
    if kind == 'ref':  # reference to a named type
        if sub is None:
            return ('row', syn[1])
        return ('SimpleSyntax', syn[1], r_sub(sub))
    if kind == 'tagged':
        return r_syntax(syn[3])
    if kind == 'bits':
        return ('BITS', [(label, n) for label, n in syn[1]])
    if kind == 'seqof':
        return ('conceptualTable', ('row', syn[1]))
    if kind == 'seq':
        return ('SEQUENCE', [(m[0], m[1]) for m in syn[1]])  # member sub-types are dropped
    raise ValueError(syn)


def t_text(kw, text):
    return [] if text is None else [kw, q(text)]


def r_text(kw, text):
    return None if text is None else (kw, text)


def t_names(names):
    out = []
    for i, n in enumerate(names):
        if i:
            out.append(',')
        out.append(n)
    return out


def t_defval(dv):
    if dv is None:
        return []
    kind = dv[0]
    if kind in ('num', 'lit', 'id'):
        return ['DEFVAL', '{', str(dv[1]), '}']
    if kind == 'str':
        return ['DEFVAL', '{', q(dv[1]), '}']
    if kind == 'bits':
        return ['DEFVAL', '{', '{'] + t_names(dv[1]) + ['}', '}']
    if kind == 'oidnum':
        return ['DEFVAL', '{', '{'] + t_oid(dv[1]) + ['}', '}']
    raise ValueError(dv)


def r_defval(dv):
    if dv is None:
        return None
    kind = dv[0]
    if kind in ('num', 'lit', 'id'):
        return ('DEFVAL', dv[1])
    if kind == 'str':
        return ('DEFVAL', q(dv[1]))
    if kind == 'bits':
        if not dv[1]:
            return None  # documented omission: DEFVAL { { } }
        return ('DEFVAL', ('BitNames', list(dv[1])))
    if kind == 'oidnum':
        return None  # documented omission: numeric OID DEFVALs are parsed and discarded
    raise ValueError(dv)


def decl_tokens(d):
    k = d['k']
    if k == 'value':
        return [d['name'], 'OBJECT', 'IDENTIFIER', '::=', '{'] + t_oid(d['oid']) + ['}']
    if k == 'type':
        return [d['name'], '::='] + t_syntax(d['syntax'])
    if k == 'tc':
        return ([d['name'], '::=', 'TEXTUAL-CONVENTION'] + t_text('DISPLAY-HINT', d.get('display')) +
                ['STATUS', d['status'], 'DESCRIPTION', q(d['descr'])] + t_text('REFERENCE', d.get('ref')) +
                ['SYNTAX'] + t_syntax(d['syntax']))
    if k == 'choice':
        return [d['name'], '::=', 'CHOICE', RAW + d['body']]
    if k == 'macro':
        return [d['name'], 'MACRO', RAW + d['body'], 'END']
    if k == 'oi':
        return ([d['name'], 'OBJECT-IDENTITY', 'STATUS', d['status'], 'DESCRIPTION', q(d['descr'])] +
                t_text('REFERENCE', d.get('ref')) + ['::=', '{'] + t_oid(d['oid']) + ['}'])
    if k == 'ot':
        out = [d['name'], 'OBJECT-TYPE', 'SYNTAX'] + t_syntax(d['syntax']) + t_text('UNITS', d.get('units'))
        if d.get('access'):
            out += [d['access'][0], d['access'][1]]
        out += ['STATUS', d['status']] + t_text('DESCRIPTION', d.get('descr')) + t_text('REFERENCE', d.get('ref'))
        if d.get('augments'):
            out += ['AUGMENTS', '{', d['augments'], '}']
        if d.get('index'):
            out += ['INDEX', '{']
            for i, (implied, name) in enumerate(d['index']):
                if i:
                    out.append(',')
                if implied:
                    out.append('IMPLIED')
                out += str(name).split(' ')   # an index given by number ({ 0 }) is an int
            out.append('}')
        out += t_defval(d.get('defval'))
        return out + ['::=', '{'] + t_oid(d['oid']) + ['}']
    if k == 'trap':
        out = [d['name'], 'TRAP-TYPE', 'ENTERPRISE'] + (['{'] if d.get('braces') else []) + t_oid(d['enterprise']) + \
              (['}'] if d.get('braces') else [])
        if d.get('vars') is not None:
            out += ['VARIABLES', '{'] + t_names(d['vars']) + ['}']
        out += t_text('DESCRIPTION', d.get('descr')) + t_text('REFERENCE', d.get('ref'))
        return out + ['::=', str(d['num'])]
    if k == 'nt':
        out = [d['name'], 'NOTIFICATION-TYPE']
        if d.get('objects') is not None:
            out += ['OBJECTS', '{'] + t_names(d['objects']) + ['}']
        return (out + ['STATUS', d['status'], 'DESCRIPTION', q(d['descr'])] + t_text('REFERENCE', d.get('ref')) +
                ['::=', '{'] + t_oid(d['oid']) + ['}'])
    if k == 'mi':
        out = [d['name'], 'MODULE-IDENTITY']
        if d.get('subjcat') is not None:
            out += ['SUBJECT-CATEGORIES', '{']
            for i, c in enumerate(d['subjcat']):
                if i:
                    out.append(',')
                out += [c[0], '(', str(c[1]), ')'] if isinstance(c, (list, tuple)) else [c]
            out.append('}')
        out += ['LAST-UPDATED', q(d['last']), 'ORGANIZATION', q(d['org']), 'CONTACT-INFO', q(d['contact']),
                'DESCRIPTION', q(d['descr'])]
        for rev, descr in d.get('revs') or []:
            out += ['REVISION', q(rev), 'DESCRIPTION', q(descr)]
        return out + ['::=', '{'] + t_oid(d['oid']) + ['}']
    if k in ('og', 'ng'):
        kw, lst = ('OBJECT-GROUP', 'OBJECTS') if k == 'og' else ('NOTIFICATION-GROUP', 'NOTIFICATIONS')
        return ([d['name'], kw, lst, '{'] + t_names(d['objects']) + ['}', 'STATUS', d['status'],
                'DESCRIPTION', q(d['descr'])] + t_text('REFERENCE', d.get('ref')) +
                ['::=', '{'] + t_oid(d['oid']) + ['}'])
    if k == 'mc':
        out = [d['name'], 'MODULE-COMPLIANCE', 'STATUS', d['status'], 'DESCRIPTION', q(d['descr'])] + \
            t_text('REFERENCE', d.get('ref'))
        for m in d['modules']:
            out.append('MODULE')
            if m.get('name'):
                out.append(m['name'])
            if m.get('mandatory') is not None:
                out += ['MANDATORY-GROUPS', '{'] + t_names(m['mandatory']) + ['}']
            for item in m.get('items') or []:
                if item[0] == 'GROUP':
                    out += ['GROUP', item[1], 'DESCRIPTION', q(item[2])]
                else:
                    _, name, syn, wsyn, minacc, descr = item
                    out += ['OBJECT', name]
                    if syn is not None:
                        out += ['SYNTAX'] + t_syntax(syn)
                    if wsyn is not None:
                        out += ['WRITE-SYNTAX'] + t_syntax(wsyn)
                    if minacc is not None:
                        out += ['MIN-ACCESS', minacc]
                    out += ['DESCRIPTION', q(descr)]
        return out + ['::=', '{'] + t_oid(d['oid']) + ['}']
    if k == 'ac':
        out = [d['name'], 'AGENT-CAPABILITIES', 'PRODUCT-RELEASE', q(d['release']), 'STATUS', d['status'],
               'DESCRIPTION', q(d['descr'])] + t_text('REFERENCE', d.get('ref'))
        for s in d.get('supports') or []:
            out += ['SUPPORTS', s['module'], 'INCLUDES', '{'] + t_names(s['groups']) + ['}']
            for v in s.get('variations') or []:
                out += ['VARIATION', v['name']]
                if v.get('syntax') is not None:
                    out += ['SYNTAX'] + t_syntax(v['syntax'])
                if v.get('wsyntax') is not None:
                    out += ['WRITE-SYNTAX'] + t_syntax(v['wsyntax'])
                if v.get('access') is not None:
                    out += ['ACCESS', v['access']]
                if v.get('creation') is not None:
                    out += ['CREATION-REQUIRES', '{'] + t_names(v['creation']) + ['}']
                out += t_defval(v.get('defval'))
                out += ['DESCRIPTION', q(v['descr'])]
        return out + ['::=', '{'] + t_oid(d['oid']) + ['}']
    raise ValueError(k)


def decl_tree(d):
    k = d['k']
    if k == 'value':
        return ('valueDeclaration', d['name'], r_oid(d['oid']))
    if k == 'type':
        return ('typeDeclaration', d['name'], ('typeDeclarationRHS', r_syntax(d['syntax'])))
    if k == 'tc':
        return ('typeDeclaration', d['name'],
                ('typeDeclarationRHS', r_text('DISPLAY-HINT', d.get('display')), ('Status', d['status']),
                 ('DESCRIPTION', d['descr']), r_text('REFERENCE', d.get('ref')), r_syntax(d['syntax'])))
    if k == 'choice':
        return ('typeDeclaration', d['name'], None)
    if k == 'macro':
        return None
    if k == 'oi':
        return ('objectIdentityClause', d['name'], ('Status', d['status']), ('DESCRIPTION', d['descr']),
                r_text('REFERENCE', d.get('ref')), r_oid(d['oid']))
    if k == 'ot':
        return ('objectTypeClause', d['name'], r_syntax(d['syntax']), r_text('UNITS', d.get('units')),
                ('MaxAccessPart', d['access'][1]) if d.get('access') else None,
                ('Status', d['status']), r_text('DESCRIPTION', d.get('descr')), r_text('REFERENCE', d.get('ref')),
                d.get('augments') or None,
                ('INDEX', [(1 if implied else 0, name) for implied, name in d['index']]) if d.get('index') else None,
                r_defval(d.get('defval')), r_oid(d['oid']))
    if k == 'trap':
        return ('trapTypeClause', d['name'], r_oid(d['enterprise']),
                ('VarTypes', list(d['vars'])) if d.get('vars') is not None else [],
                r_text('DESCRIPTION', d.get('descr')), r_text('REFERENCE', d.get('ref')), d['num'])
    if k == 'nt':
        return ('notificationTypeClause', d['name'],
                ('Objects', list(d['objects'])) if d.get('objects') is not None else [],
                ('Status', d['status']), ('DESCRIPTION', d['descr']), r_text('REFERENCE', d.get('ref')),
                r_oid(d['oid']))
    if k == 'mi':
        revs = d.get('revs') or None
        return ('moduleIdentityClause', d['name'], ('LAST-UPDATED', d['last']), ('ORGANIZATION', d['org']),
                ('CONTACT-INFO', d['contact']), ('DESCRIPTION', d['descr']),
                ('Revisions', [(rev, ('DESCRIPTION', descr)) for rev, descr in revs]) if revs else None,
                r_oid(d['oid']))
    if k in ('og', 'ng'):
        tag, lst = ('objectGroupClause', 'Objects') if k == 'og' else ('notificationGroupClause', 'Notifications')
        return (tag, d['name'], (lst, list(d['objects'])), ('Status', d['status']), ('DESCRIPTION', d['descr']),
                r_text('REFERENCE', d.get('ref')), r_oid(d['oid']))
    if k == 'mc':
        mods = []
        for m in d['modules']:
            objs = list(m.get('mandatory') or [])
            objs += [item[1] for item in (m.get('items') or []) if item[0] == 'GROUP']
            mods.append((m.get('name') or None, objs))
        return ('moduleComplianceClause', d['name'], ('Status', d['status']), ('DESCRIPTION', d['descr']),
                r_text('REFERENCE', d.get('ref')), ('ComplianceModules', mods), r_oid(d['oid']))
    if k == 'ac':
        return ('agentCapabilitiesClause', d['name'], ('PRODUCT-RELEASE', d['release']), ('Status', d['status']),
                ('DESCRIPTION', d['descr']), r_text('REFERENCE', d.get('ref')), r_oid(d['oid']))
    raise ValueError(k)


def module_tokens(m):
    out = [m['name']]
    if m.get('oid'):
        out += ['{'] + t_oid(m['oid']) + ['}']
    out += ['DEFINITIONS', '::=', 'BEGIN']
    if m.get('exports') is not None:
        out += ['EXPORTS', RAW + m['exports'] + ';']
    if m.get('imports') is not None:
        out.append('IMPORTS')
        for mod, syms in m['imports']:
            out += t_names(syms) + ['FROM', mod]
        out.append(';')
    for d in m.get('decls') or []:
        out += decl_tokens(d)
    return out + ['END']


def module_tree(m):
    imports = None
    if m.get('imports'):
        imports = {}
        for mod, syms in m['imports']:
            imports.setdefault(mod, [])
            imports[mod] = imports[mod] + list(syms)
    decls = [decl_tree(d) for d in m.get('decls') or []] or None
    return (m['name'], r_oid(m['oid']) if m.get('oid') else None, imports, decls)


def file_tokens(mods):
    out = []
    for m in mods:
        out += module_tokens(m)
    return out


def file_tree(mods):
    return [module_tree(m) for m in mods]


# --------------------------------------------------------------------------- layout

SAFE_EDGE = set('{}(),;|')


def _safe(tok):
    return tok == '::=' or tok == '..' or tok[0] == '"' or tok[0] in SAFE_EDGE or tok[-1] in SAFE_EDGE


def can_fuse(left, right):
    """True if writing the two tokens with nothing in between is certainly tokenised the same."""
    if left.startswith(RAW) or right.startswith(RAW):
        return True  # the raw chunk carries its own delimiters
    return _safe(left) or _safe(right)


def join(tokens, seps=None, default=' ', lead='', trail='\n'):
    """Render tokens; seps maps gap index (1..T-1 between tokens i-1 and i) -> separator."""
    parts = [lead]
    for i, tok in enumerate(tokens):
        if i:
            parts.append(default if seps is None or i not in seps else seps[i])
        parts.append(tok[len(RAW):] if tok.startswith(RAW) else tok)
    parts.append(trail)
    return ''.join(parts)


def render(mods, **kw):
    return join(file_tokens(mods), **kw)


def pretty(mods):
    """Conventional layout: one clause keyword per line (used where layout is not the subject)."""
    lines = []
    for m in mods:
        toks = module_tokens(m)
        cur = []
        for tok in toks:
            raw = tok.startswith(RAW)
            txt = tok[len(RAW):] if raw else tok
            if txt in BREAK_BEFORE and cur:
                lines.append(' '.join(cur))
                cur = ['   ']
            cur.append(txt)
            if txt in ('BEGIN', ';', 'END') or raw:
                lines.append(' '.join(cur))
                cur = []
        if cur:
            lines.append(' '.join(cur))
    return '\n'.join(lines) + '\n'


BREAK_BEFORE = set(['SYNTAX', 'UNITS', 'MAX-ACCESS', 'ACCESS', 'STATUS', 'DESCRIPTION', 'REFERENCE', 'INDEX', 'AUGMENTS',
                    'DEFVAL', '::=', 'IMPORTS', 'LAST-UPDATED', 'ORGANIZATION', 'CONTACT-INFO', 'REVISION',
                    'OBJECTS', 'NOTIFICATIONS', 'MODULE', 'MANDATORY-GROUPS', 'GROUP', 'ENTERPRISE', 'VARIABLES',
                    'PRODUCT-RELEASE', 'SUPPORTS', 'INCLUDES', 'VARIATION', 'DISPLAY-HINT', 'END', 'FROM'])
