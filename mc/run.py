"""CLI: python -m mc.run <Cxx> [--tier quick|thorough] [--replay file] [--family name ...]

exit 0: property held on everything explored (known findings are listed, not alarms)
exit 1: at least one violation that known_findings.json does not list (VIOLATION lines)
exit 3: harness-internal error
"""
import argparse
import os
import sys


def main():
    if os.environ.get('PYTHONHASHSEED') != '0' and not os.environ.get('MC_KEEP_HASHSEED'):
        # set iteration order is an input of the code under test: pin it, enumerate it where it matters
        env = dict(os.environ, PYTHONHASHSEED='0')
        os.execve(sys.executable, [sys.executable, '-m', 'mc.run'] + sys.argv[1:], env)
    ap = argparse.ArgumentParser()
    ap.add_argument('prop')
    ap.add_argument('--tier', default=os.environ.get('VERIF_TIER') or 'quick', choices=['quick', 'thorough'])
    ap.add_argument('--replay')
    ap.add_argument('--replay-mode', default='auto', choices=['auto', 'case', 'block', 'history'])
    ap.add_argument('--quiet', action='store_true')
    ap.add_argument('--family', action='append')
    ap.add_argument('--jobs', type=int)
    ap.add_argument('--no-evidence', action='store_true')
    args = ap.parse_args()

    from mc import core
    sys.path.insert(0, core.REPO)
    sys.dont_write_bytecode = True
    import pysmi
    if not os.path.abspath(pysmi.__file__).startswith(os.path.abspath(core.REPO) + os.sep):
        print('INTERNAL: pysmi imported from %s, not from %s' % (pysmi.__file__, core.REPO))
        return 3

    # one scratch directory per run, removed at the end: pool workers are terminated without running their exit handlers, so
    # what they leave behind is swept here (a nested run - the replay of a violation - works inside its parent's directory)
    import shutil
    import tempfile
    scratch_base = os.environ.get('VERIF_TMP') or ('/dev/shm' if os.path.isdir('/dev/shm') else None)
    run_tmp = tempfile.mkdtemp(prefix='mcrun', dir=scratch_base)
    os.environ['VERIF_TMP'] = run_tmp
    try:
        return _run(args, core)
    finally:
        shutil.rmtree(run_tmp, ignore_errors=True)


def _run(args, core):
    try:
        if args.replay:
            return core.replay(args.prop, args.replay, quiet=args.quiet, mode=args.replay_mode)
        seed = int(os.environ.get('VERIF_SEED') or 0)
        evidence, lines, bad = core.run_check(args.prop, args.tier, seed, only=args.family, jobs=args.jobs)
        if not args.no_evidence and not args.family:
            core.write_evidence(args.prop, evidence)
        cov = evidence['coverage']
        print('%s tier=%s seed=%d states=%d transitions=%d distinct_outcomes=%d wall=%.1fs' % (
            args.prop, args.tier, seed, cov['states'], cov['transitions'], cov['distinct_nontrivial'],
            evidence['wall_s']))
        for name, pf in sorted(cov['families'].items()):
            print('  family %-28s cases=%-9d steps=%-10d blocks=%-5d cpu=%.1fs' % (
                name, pf['cases'], pf['steps'], pf['blocks'], pf['cpu_s']))
        for line in lines:
            print(line)
        return 1 if bad else 0
    except core.InternalError as exc:
        print('INTERNAL: %s' % exc)
        return 3


if __name__ == '__main__':
    sys.exit(main())
