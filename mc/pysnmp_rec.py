"""Recording stand-in for pysnmp's MibBuilder: executing a generated module against it yields, for every
symbol, its class, OID, syntax class chain, constraints, named values, default, and every set*() call.
Independent of pysnmp (and of pysmi): only records what the generated code does.
"""
import os
import sys
import tempfile


class Spec(object):
    def __init__(self, items=()):
        self.items = tuple(items)

    def __add__(self, other):
        return Spec(self.items + (other,))


class _Constraint(object):
    def __init__(self, *args):
        self.args = args

    def canon(self):
        return (type(self).__name__,) + tuple(a.canon() if isinstance(a, _Constraint) else a for a in self.args)


class ConstraintsUnion(_Constraint):
    pass


class ConstraintsIntersection(_Constraint):
    pass


class SingleValueConstraint(_Constraint):
    pass


class ValueRangeConstraint(_Constraint):
    pass


class ValueSizeConstraint(_Constraint):
    pass


class NamedValues(object):
    def __init__(self, *pairs):
        self.pairs = tuple(tuple(p) for p in pairs)


class Asn1Type(object):
    subtypeSpec = Spec()
    namedValues = NamedValues()

    def __init__(self, *args, **kwargs):
        self.args = args
        self.kwargs = kwargs

    @classmethod
    def chain(cls):
        """Names of the classes this type derives from, generated helper classes included."""
        return [c.__name__ for c in cls.__mro__ if c not in (object, Asn1Type)]

    @classmethod
    def basechain(cls):
        return [c.__name__ for c in cls.__mro__ if c.__dict__.get('_builtin')]


def _builtin(name, *bases):
    return type(name, bases or (Asn1Type,), {'_builtin': True})


Integer = _builtin('Integer')
OctetString = _builtin('OctetString')
ObjectIdentifier = _builtin('ObjectIdentifier')
Integer32 = _builtin('Integer32', Integer)
Unsigned32 = _builtin('Unsigned32', Integer)
Gauge32 = _builtin('Gauge32', Integer)
Counter32 = _builtin('Counter32', Integer)
Counter64 = _builtin('Counter64', Integer)
TimeTicks = _builtin('TimeTicks', Integer)
IpAddress = _builtin('IpAddress', OctetString)
Opaque = _builtin('Opaque', OctetString)
Bits = _builtin('Bits', OctetString)


class TextualConvention(object):
    _builtin = True


class Node(object):
    """Any SMI object: records constructor arguments and every method call."""
    kind = 'Node'

    def __init__(self, *args, **kwargs):
        self.ctor = args
        self.ctor_kw = kwargs
        self.calls = []

    @property
    def oid(self):
        return self.ctor[0] if self.ctor else None

    def __getattr__(self, name):
        if name.startswith('__'):
            raise AttributeError(name)

        def method(*args, **kwargs):
            self.calls.append((name, args, kwargs))
            if name == 'getIndexNames':
                for n, a, k in reversed(self.calls):
                    if n == 'setIndexNames':
                        return a
                return ()
            if name == 'getName':
                return self.oid
            return self

        return method

    def called(self, name):
        return [a for n, a, k in self.calls if n == name]


def _node(kind):
    return type(kind, (Node,), {'kind': kind})


NODE_KINDS = ['ModuleIdentity', 'ObjectIdentity', 'MibIdentifier', 'MibScalar', 'MibTable', 'MibTableRow',
              'MibTableColumn', 'NotificationType', 'ObjectGroup', 'NotificationGroup', 'ModuleCompliance',
              'AgentCapabilities']
NODES = dict((k, _node(k)) for k in NODE_KINDS)

BASE = {
    'ASN1': {'Integer': Integer, 'OctetString': OctetString, 'ObjectIdentifier': ObjectIdentifier},
    'ASN1-ENUMERATION': {'NamedValues': NamedValues},
    'ASN1-REFINEMENT': {'ConstraintsUnion': ConstraintsUnion, 'ConstraintsIntersection': ConstraintsIntersection,
                        'SingleValueConstraint': SingleValueConstraint, 'ValueRangeConstraint': ValueRangeConstraint,
                        'ValueSizeConstraint': ValueSizeConstraint},
    'SNMPv2-SMI': dict(NODES, Integer32=Integer32, Unsigned32=Unsigned32, Gauge32=Gauge32, Counter32=Counter32,
                       Counter64=Counter64, TimeTicks=TimeTicks, IpAddress=IpAddress, Opaque=Opaque, Bits=Bits),
    'SNMPv2-TC': {'TextualConvention': TextualConvention,
                  'DisplayString': type('DisplayString', (TextualConvention, OctetString), {'_builtin': True})},
    'SNMPv2-CONF': {'ModuleCompliance': NODES['ModuleCompliance'], 'NotificationGroup': NODES['NotificationGroup'],
                    'ObjectGroup': NODES['ObjectGroup'], 'AgentCapabilities': NODES['AgentCapabilities']},
}


class Missing(object):
    """Placeholder for a symbol that no loaded module exports."""

    def __init__(self, module, name):
        self.module, self.name = module, name

    def __getattr__(self, name):
        if name.startswith('__'):
            raise AttributeError(name)
        return lambda *a, **k: self

    def __call__(self, *a, **k):
        return self

    def __mro_entries__(self, bases):
        # 'class X(<placeholder>)': derive from a stand-in type that carries the missing name
        return (type(str(self.name), (Asn1Type,), {'_missing': True}),)


class RecBuilder(object):
    def __init__(self, loadTexts=True, prior=None):
        self.loadTexts = loadTexts
        self.exports = dict(prior or {})      # module -> {name: obj}
        self.imports = []                     # (module, name, resolved)
        self.current = None

    def importSymbols(self, module, *names, **kw):
        out = []
        for n in names:
            if module in self.exports and n in self.exports[module]:
                obj = self.exports[module][n]
                ok = True
            elif module in BASE and n in BASE[module]:
                obj = BASE[module][n]
                ok = True
            else:
                obj = Missing(module, n)
                ok = False
            self.imports.append((module, n, ok))
            out.append(obj)
        return tuple(out)

    def exportSymbols(self, module, *anon, **named):
        self.exports.setdefault(module, {}).update(named)


def run_module(text, builder, modname='<mib>'):
    """Execute generated pysnmp code; -> (namespace | None, error string | None)."""
    try:
        code = compile(text, modname, 'exec')
    except SyntaxError as exc:
        return None, 'SyntaxError: %s (line %s)' % (exc.msg, exc.lineno)
    ns = {'mibBuilder': builder}
    try:
        exec(code, ns)
    except Exception as exc:
        return None, '%s: %s' % (type(exc).__name__, exc)
    return ns, None


def syntax_of(node):
    """(class object of the syntax instance) for MibScalar / MibTableColumn."""
    if len(node.ctor) > 1:
        return type(node.ctor[1])
    return None


def constraints_of(cls):
    """Constraint pieces added on top of the parent type, in order, canonical tuples."""
    spec = cls.__dict__.get('subtypeSpec')
    if spec is None:
        return []
    out = []
    for item in spec.items:
        out.append(item.canon() if isinstance(item, _Constraint) else item)
    return out


def named_values_of(cls):
    nv = cls.__dict__.get('namedValues')
    return list(nv.pairs) if isinstance(nv, NamedValues) else None


# --------------------------------------------------------------------------- real pysnmp

def real_load(modules, order=None):
    """Write generated modules to a scratch dir and load them with the real pysnmp MibBuilder.
    -> (None | error string, {module: {symbol: (classname, oid | None)}})"""
    from pysnmp.smi import builder
    tmp = tempfile.mkdtemp(prefix='mcload', dir=os.environ.get('VERIF_TMP') or ('/dev/shm' if os.path.isdir('/dev/shm') else None))
    try:
        for name, text in modules.items():
            with open(os.path.join(tmp, name + '.py'), 'w') as f:
                f.write(text)
        mb = builder.MibBuilder()
        mb.loadTexts = True
        mb.add_mib_sources(builder.DirMibSource(tmp))
        try:
            mb.load_modules(*(order or sorted(modules)))
        except Exception as exc:
            return '%s: %s' % (type(exc).__name__, str(exc)[:300]), {}
        out = {}
        for name in modules:
            syms = {}
            for sym, obj in mb.mibSymbols.get(name, {}).items():
                oid = None
                if hasattr(obj, 'getName') and not isinstance(obj, type):
                    try:
                        oid = tuple(obj.getName())
                    except Exception:
                        oid = None
                syms[sym] = (obj.__name__ if isinstance(obj, type) else type(obj).__name__, oid)
            out[name] = syms
        return None, out
    finally:
        import shutil
        shutil.rmtree(tmp, ignore_errors=True)
        for k in [k for k in sys.modules if k.startswith('mcload')]:
            del sys.modules[k]
