"""Explorer core: block-parallel exhaustive enumeration, outcome hashing, evidence,
replay files and known-findings matching.

A *check* (mc/checks/Cxx.py) exposes ``FAMILIES``: a list of objects with

    name                      short identifier
    blocks(tier)              -> list of JSON-able block descriptors (unit of parallelism)
    cases(block, tier)        -> iterator of JSON-able case descriptors (deterministic)
    run_case(case)            -> (outcome, violations, steps)
                                 outcome     any repr-able canonical observation
                                 violations  list of (signature, detail)
                                 steps       number of calls made into the implementation
    describe                  one line: what is enumerated / what makes a case non trivial

Nothing here samples: every block is walked completely, VERIF_SEED only rotates the order
in which blocks are handed to workers.
"""
import fnmatch
import hashlib
import json
import multiprocessing
import os
import random
import signal
import subprocess
import sys
import time
import traceback

VERIF = os.path.dirname(os.path.dirname(os.path.abspath(__file__)))
REPO = os.environ.get('VERIF_REPO', '/repo')
NPROC = int(os.environ.get('VERIF_JOBS', '0')) or min(16, os.cpu_count() or 1)
OUTCOME_CAP = 3000000


def h64(obj):
    if not isinstance(obj, (bytes, str)):
        obj = repr(obj)
    if isinstance(obj, str):
        obj = obj.encode('utf-8', 'surrogatepass')
    return int.from_bytes(hashlib.blake2b(obj, digest_size=8).digest(), 'big')


def jdump(obj):
    return json.dumps(obj, sort_keys=True, default=repr, ensure_ascii=True)


class InternalError(Exception):
    """A defect of the harness itself (never a property violation)."""


# --------------------------------------------------------------------------- workers

_CHECK = None


def _load_check(prop):
    global _CHECK
    if _CHECK is None or _CHECK.__name__ != 'mc.checks.' + prop:
        import importlib
        _CHECK = importlib.import_module('mc.checks.' + prop)
    return _CHECK


def _family(prop, name):
    mod = _load_check(prop)
    for fam in mod.FAMILIES:
        if fam.name == name:
            return fam
    raise InternalError('no family %s in %s' % (name, prop))


class CaseTimeout(BaseException):
    pass


def _on_alarm(signum, frame):
    raise CaseTimeout()


def safe_run_case(prop, fam, case):
    # the limit is CPU time of this process (ITIMER_PROF), so that a loaded machine cannot turn a slow case into a
    # "does not terminate" verdict; a generous wall-clock limit backs it up for waits that burn no CPU
    limit = getattr(fam, 'case_timeout', 120)
    try:
        if limit:
            old = signal.signal(signal.SIGALRM, _on_alarm)
            oldp = signal.signal(signal.SIGPROF, _on_alarm)
            signal.setitimer(signal.ITIMER_PROF, limit)
            signal.setitimer(signal.ITIMER_REAL, max(limit * 20, 900))
        try:
            return fam.run_case(case)
        finally:
            if limit:
                signal.setitimer(signal.ITIMER_PROF, 0)
                signal.setitimer(signal.ITIMER_REAL, 0)
                signal.signal(signal.SIGALRM, old)
                signal.signal(signal.SIGPROF, oldp)
    except CaseTimeout:
        return 'timeout', [('%s|%s|no-termination-within-%ds' % (prop, fam.name, limit), 'case %s' % jdump(case))], 1
    except InternalError:
        raise
    except Exception as exc:
        # an exception the check did not anticipate: on the unchanged tree this is a harness bug
        # (seen during development); on a changed tree it is a behaviour change worth an alarm
        tb = traceback.extract_tb(exc.__traceback__)
        where = '%s:%s' % (os.path.basename(tb[-1].filename), tb[-1].name) if tb else '?'
        return 'crash', [('%s|%s|unexpected-exception|%s|%s' % (prop, fam.name, type(exc).__name__, where),
                          traceback.format_exc()[-1500:])], 1


_WORKER_HISTORY = []   # (family, block) pairs this process has run, in order
_WORKER_TIMEOUTS = [0]  # cases of this process that ran into the time limit
TIMEOUTS_PER_WORKER = 3  # a run that keeps hanging has failed already: the worker skips its remaining cases (reported)


def _run_block(args):
    prop, famname, block, tier = args
    fam = _family(prop, famname)
    t0 = time.time()
    before = list(_WORKER_HISTORY)
    _WORKER_HISTORY.append((famname, block))
    n = steps = extra_states = 0
    casehashes = set()
    outcomes = set()
    viols = {}
    samples = []
    skipped = 0
    try:
        for case in fam.cases(block, tier):
            if _WORKER_TIMEOUTS[0] >= TIMEOUTS_PER_WORKER:
                skipped += 1
                continue
            outcome, vs, st = safe_run_case(prop, fam, case)
            if outcome == 'timeout':
                _WORKER_TIMEOUTS[0] += 1
            n += 1
            if isinstance(st, tuple):  # (implementation calls, states explored inside this case by a nested search)
                st, inner = st
                extra_states += inner
            steps += st
            casehashes.add(h64(jdump(case)))
            if len(outcomes) < OUTCOME_CAP:
                outcomes.add(h64(outcome))
            if len(samples) < 1:
                samples.append({'family': famname, 'case': case, 'outcome': _short(outcome)})
            for sig, detail in vs:
                if sig not in viols:
                    viols[sig] = {'family': famname, 'case': case, 'signature': sig, 'detail': detail, 'count': 1,
                                  'block': block, 'history': before}
                else:
                    viols[sig]['count'] += 1
    except Exception:
        return {'error': 'family %s block %r: %s' % (famname, block, traceback.format_exc())}
    return {'family': famname, 'n': n, 'steps': steps, 'states': len(casehashes) + extra_states, 'outcomes': outcomes,
            'viols': viols, 'samples': samples, 'wall': time.time() - t0, 'skipped': skipped}


def _short(o, limit=400):
    s = o if isinstance(o, str) else repr(o)
    return s if len(s) <= limit else s[:limit] + '...[%d chars]' % len(s)


# --------------------------------------------------------------------------- findings

def load_findings(prop):
    path = os.path.join(VERIF, 'known_findings.json')
    if not os.path.exists(path):
        return []
    with open(path) as f:
        data = json.load(f)
    return [e for e in data.get('findings', []) if e.get('property') == prop or prop in e.get('also', [])]


def match_finding(findings, sig):
    for e in findings:
        if e.get('kind') != 'known':
            continue  # "fixed" entries suppress nothing
        for pat in e.get('signatures', []):
            if sig == pat or fnmatch.fnmatchcase(sig, pat):
                return e
    return None


# --------------------------------------------------------------------------- driver

def run_check(prop, tier, seed, only=None, jobs=None):
    mod = _load_check(prop)
    t0 = time.time()
    tasks = []
    fams = [f for f in mod.FAMILIES if not only or f.name in only]
    for fam in fams:
        for block in fam.blocks(tier):
            tasks.append((prop, fam.name, block, tier))
    random.Random(seed).shuffle(tasks)  # order only; the set of blocks is fixed
    # longest-looking families first would be nicer, but order must not matter
    tot = {'n': 0, 'steps': 0, 'states': 0}
    perfam = {}
    outcomes = set()
    viols = {}
    samples = {}
    jobs = jobs or NPROC
    if jobs > 1 and len(tasks) > 1:
        ctx = multiprocessing.get_context('fork')
        pool = ctx.Pool(jobs)
        it = pool.imap_unordered(_run_block, tasks, chunksize=1)
    else:
        pool = None
        it = map(_run_block, tasks)
    try:
        for r in it:
            if 'error' in r:
                raise InternalError(r['error'])
            pf = perfam.setdefault(r['family'], {'cases': 0, 'steps': 0, 'blocks': 0, 'cpu_s': 0.0})
            pf['cases'] += r['n']
            pf['steps'] += r['steps']
            pf['blocks'] += 1
            pf['cpu_s'] = round(pf['cpu_s'] + r['wall'], 2)
            tot['n'] += r['n']
            tot['steps'] += r['steps']
            tot['states'] += r['states']
            tot['skipped'] = tot.get('skipped', 0) + r.get('skipped', 0)
            if len(outcomes) < OUTCOME_CAP:
                outcomes |= r['outcomes']
            for sig, v in r['viols'].items():
                if sig not in viols or len(jdump(v['case'])) < len(jdump(viols[sig]['case'])):
                    c = viols[sig]['count'] if sig in viols else 0
                    viols[sig] = dict(v)
                    viols[sig]['count'] = c + v['count']
                else:
                    viols[sig]['count'] += v['count']
            if r['samples'] and r['family'] not in samples:
                samples[r['family']] = r['samples'][0]
    finally:
        if pool is not None:
            pool.terminate()
            pool.join()

    findings = load_findings(prop)
    known, unknown = {}, []
    for sig in sorted(viols):
        e = match_finding(findings, sig)
        if e is not None:
            known.setdefault(e['id'], (e, []))[1].append(sig)
        else:
            unknown.append(sig)

    replay_dir = os.path.join(VERIF, 'replays', prop)
    os.makedirs(replay_dir, exist_ok=True)
    out_lines = []
    for eid, (e, sigs) in sorted(known.items()):
        out_lines.append('KNOWN-FINDING: property=%s %s [%s; %d signature(s), %d case(s)]' % (
            prop, e['what'], eid, len(sigs), sum(viols[s]['count'] for s in sigs)))
    paths = {}
    for sig in unknown:
        v = viols[sig]
        path = os.path.join(replay_dir, '%016x.json' % h64(sig))
        with open(path, 'w') as f:
            json.dump({'property': prop, 'tier': tier, 'family': v['family'], 'case': v['case'],
                       'signature': sig, 'detail': v['detail'], 'count': v['count'],
                       # for results that depend on what the same process did before (state kept between cases)
                       'block': v.get('block'), 'history': v.get('history', [])}, f, indent=1, default=repr)
        paths[sig] = path
    # replay discipline: an alarm is only raised if a fresh process reproduces it
    confirmed = []
    for sig in unknown[:12]:
        rc = subprocess.run([sys.executable, '-m', 'mc.run', prop, '--replay', paths[sig], '--quiet'],
                            cwd=VERIF, capture_output=True, text=True)
        if rc.returncode != 1 or sig not in rc.stdout:
            raise InternalError('violation %s did not reproduce in a fresh process (rc=%s)\n%s\n%s' % (
                sig, rc.returncode, rc.stdout[-2000:], rc.stderr[-2000:]))
        confirmed.append(sig)
    for sig in unknown:
        out_lines.append('VIOLATION property=%s replay=%s' % (prop, paths[sig]))
        out_lines.append('  signature: %s' % sig)
        out_lines.append('  detail: %s' % _short(viols[sig]['detail'], 600))

    if tot.get('skipped'):
        out_lines.append('NOTE: exploration cut short - %d case(s) skipped by workers that had met the time limit %d times' % (
            tot['skipped'], TIMEOUTS_PER_WORKER))
    wall = time.time() - t0
    describe = '; '.join('%s: %s' % (f.name, getattr(f, 'describe', '')) for f in fams)
    evidence = {
        'property_id': prop,
        'tier': tier,
        'seed': seed,
        'level': 'model_checking',
        'coverage': {
            'states': tot['states'],
            'transitions': tot['steps'],
            'traces_validated_against_impl': tot['n'],
            'evaluations': tot['n'],
            'distinct_nontrivial': len(outcomes),
            'distinct_outcomes_capped': len(outcomes) >= OUTCOME_CAP,
            'rule': ('states = distinct enumerated cases (hash of the case descriptor, per block); '
                     'transitions = calls into the implementation; distinct_nontrivial = distinct canonical '
                     'observations (outcome hashes) over all cases. ' + describe)[:6000],
            'exhaustive': not tot.get('skipped'),
            'cases_skipped_after_repeated_time_limits': tot.get('skipped', 0),
            'bounds': getattr(mod, 'BOUNDS', {}).get(tier, ''),
            'families': perfam,
            'samples': [samples[k] for k in sorted(samples)][:12],
            'known_findings_matched': sorted(known),
            'unknown_violation_signatures': unknown[:50],
        },
        'assumptions': list(getattr(mod, 'ASSUMPTIONS', [])),
        'wall_s': round(wall, 2),
        'violations': len(unknown),
    }
    if not evidence['coverage']['samples']:
        evidence['coverage']['samples'] = [{'note': 'no case enumerated'}]
    return evidence, out_lines, bool(unknown)


def write_evidence(prop, evidence):
    path = os.path.join(VERIF, 'evidence', prop + '.json')
    os.makedirs(os.path.dirname(path), exist_ok=True)
    tmp = path + '.tmp%d' % os.getpid()
    with open(tmp, 'w') as f:
        json.dump(evidence, f, indent=1, default=repr, sort_keys=True)
        f.write('\n')
    os.replace(tmp, path)
    validate_evidence(path)
    return path


def validate_evidence(path):
    schema = '/root/.vp/EVIDENCE.schema.json'
    if not os.path.exists(schema):
        return
    code = ('import json,sys,jsonschema\n'
            'jsonschema.validate(json.load(open(sys.argv[1])), json.load(open(sys.argv[2])))\n')
    try:
        rc = subprocess.run(['python3-vt', '-c', code, path, schema], capture_output=True, text=True, timeout=60)
    except (OSError, subprocess.TimeoutExpired):
        return
    if rc.returncode != 0:
        raise InternalError('evidence file does not validate: ' + rc.stderr[-1500:])


def replay(prop, path, quiet=False, mode='auto'):
    """mode 'case': the recorded case alone; 'block': the cases of its block up to the violation; 'history': what the
    driver and the worker had done before, then the block - each in the process this is called in, which should be a
    fresh one ('auto' runs the case and, if the signature does not show, re-executes itself in the other modes)."""
    with open(path) as f:
        rec = json.load(f)
    fam = _family(prop, rec['family'])
    want = rec.get('signature')
    tier = rec.get('tier', 'quick')
    vs = []
    if mode in ('auto', 'case'):
        outcome, vs, steps = safe_run_case(prop, fam, rec['case'])
        if not quiet:
            print('case: %s' % jdump(rec['case']))
            print('outcome: %s' % _short(outcome, 3000))
        if mode == 'auto' and want and rec.get('block') is not None and want not in [s_ for s_, _ in vs]:
            # not reproduced by the case alone: the result depends on state left behind in the process by earlier
            # cases.  Every attempt needs a process of its own.
            for m in ('block', 'history'):
                rc = subprocess.run([sys.executable, '-m', 'mc.run', prop, '--replay', path, '--replay-mode', m] +
                                    (['--quiet'] if quiet else []), cwd=VERIF, capture_output=True, text=True)
                if rc.returncode == 1 and want in rc.stdout:
                    sys.stdout.write(rc.stdout)
                    return 1
    else:
        plan = [(rec['family'], rec['block'])]
        if mode == 'history':
            # the workers are forked from a driver that had enumerated the blocks of every family
            for f_ in _load_check(prop).FAMILIES:
                list(f_.blocks(tier))
            plan = [tuple(h) for h in rec.get('history', [])] + plan
        found = None
        for famname, block in plan:
            f2 = _family(prop, famname)
            for case in f2.cases(block, tier):
                o2, v2, _ = safe_run_case(prop, f2, case)
                hits = [(s_, d_) for s_, d_ in v2 if s_ == want]
                if hits:
                    found = (case, hits[0])
                    break
            if found:
                break
        if found:
            print('history-dependent: reproduced only after replaying %d block(s) of earlier cases in one process' % len(plan))
            print('case: %s' % jdump(found[0]))
            vs = [found[1]]
    hit = False
    for sig, detail in vs:
        print('violation signature: %s' % sig)
        if not quiet:
            print('  detail: %s' % _short(detail, 3000))
        hit = True
    if hit:
        print('VIOLATION property=%s replay=%s' % (prop, path))
    return 1 if hit else 0
