"""Drive the real MibCompiler.compile() through scripted environments ("worlds") and judge every run against a
reference model written from the texts of properties C07-C10 and C19 (DESIGN.md A.3).

A world (JSON-able dict):
  n          number of user modules (names A, B, C)
  edges      list of [importer, imported] pairs over user modules (self loops and cycles allowed)
  used       1 if the imported symbol is used as an OID parent by the importer, 0 if it is only listed in IMPORTS
  req        ordered list of requested names
  nsrc       number of sources; src[s][m] in {'ok', 'notfound', 'error'}          (default: source 0 holds everything)
  variant    {m: k} which of several distinct healthy texts source s supplies is (m, s) -> text id  (C08)
  text       {m: kind}  healthy | empty | comment | lexerr | synerr | truncated | dupsym | unktype | badrange | badimport | twomods | misnamed |
                        bundle (two modules, the first importing from the second)
  symerr     [m...]  the symbol-table generator raises PySmiSemanticError for m
  generr     [m...]  the code generator raises PySmiCodegenError for m
  emptygen   [m...]  the code generator returns an empty text for m (as the null code generator does)
  searchers  list of {'honours_rebuild': bool, 'ans': {m: 'fresh' | 'absent' | 'error' | 'normal'}}
  borrowers  list of {'texts': bool, 'ans': {m: 'has' | 'absent' | 'error'}}
  wrerr      [m...]  the writer raises PySmiWriterError for m
  opts       {noDeps, rebuild, dryRun, genTexts, writeMibs, ignoreErrors, dstTemplate (a copy of the stock template)}
"""
import json

from mc import env
from mc.env import error, MibInfo

from pysmi.borrower.anyfile import AnyFileBorrower
from pysmi.codegen.jsondoc import JsonCodeGen
from pysmi.codegen.symtable import SymtableCodeGen
from pysmi.compiler import MibCompiler
from pysmi.searcher.stub import StubSearcher

USER = ['A', 'B', 'C']
STATUSES = ('compiled', 'untouched', 'failed', 'unprocessed', 'missing', 'borrowed')
OPTS = ('noDeps', 'rebuild', 'dryRun', 'genTexts', 'writeMibs', 'ignoreErrors')


def default_opts():
    return {'noDeps': False, 'rebuild': False, 'dryRun': False, 'genTexts': False, 'writeMibs': True,
            'ignoreErrors': False}


def module_text(world, m, variant=0, name=None):
    """Healthy text of user module m under the world's import graph."""
    name = name or m
    idx = USER.index(m)
    imports = ['enterprises FROM SNMPv2-SMI']
    parent = 'enterprises'
    for a, b in world.get('edges', []):
        if a == m:
            imports.append('x%s FROM %s' % (b, b))
            if world.get('used') and b != m:
                parent = 'x%s' % b
    lines = ['%s DEFINITIONS ::= BEGIN' % name, 'IMPORTS %s;' % '\n    '.join(imports),
             'x%s OBJECT IDENTIFIER ::= { %s %d }' % (m, parent, 100 + idx),
             'y%s OBJECT IDENTIFIER ::= { x%s %d }' % (m, m, 1 + variant), 'END', '']
    return '\n'.join(lines)


def text_kind(world, s, m):
    """The kind of text source s holds under the file name m: world['text'][m + str(s)] overrides world['text'][m]."""
    t = world.get('text', {})
    return t.get('%s%d' % (m, s), t.get(m, 'healthy'))


BROKEN_LINE = 'x%s OBJECT IDENTIFIER ::= { nowhereDefined 1 }'


def broken_text(world, m, variant=0):
    """m's text with its own node hung below a parent nobody defines: parses, the symbol table cannot be built."""
    good = module_text(world, m, variant)
    lines = good.split('\n')
    at = [i for i, ln in enumerate(lines) if ln.startswith('x%s OBJECT IDENTIFIER' % m)][0]
    lines[at] = BROKEN_LINE % m
    return '\n'.join(lines)


def mate_text(m):
    return '%sX DEFINITIONS ::= BEGIN\nw%s OBJECT IDENTIFIER ::= { 1 3 6 1 4 1 5%d }\nEND\n' % (m, m, USER.index(m))


MATE_VARIANT = 7   # the copy of another user module that travels in a 'plus<U>' file carries this variant number


def source_text(world, s, m):
    kind = text_kind(world, s, m)
    variant = world.get('variant', {}).get('%s%d' % (m, s), 0)
    good = module_text(world, m, variant)
    if kind == 'healthy':
        return good
    if kind == 'empty':
        return ''
    if kind == 'comment':
        return '-- nothing but a comment\n'
    if kind == 'lexerr':
        return good.replace('OBJECT IDENTIFIER ::= {', 'OBJECT IDENTIFIER $ ::= {', 1)
    if kind == 'synerr':
        return good.replace('OBJECT IDENTIFIER ::= {', 'OBJECT ::= {', 1)
    if kind == 'truncated':
        return good[:good.index('END')]
    if kind == 'dupsym':
        return good.replace('END', 'x%s OBJECT IDENTIFIER ::= { enterprises 999 }\nEND' % m)
    if kind == 'unktype':
        # a real symbol-table failure that leaves a postponed symbol behind (object of a type nobody defines)
        return good.replace('IMPORTS ', 'IMPORTS OBJECT-TYPE FROM SNMPv2-SMI\n    ', 1).replace(
            'END', 'u%s OBJECT-TYPE SYNTAX NowhereDefinedType MAX-ACCESS read-only STATUS current DESCRIPTION "d" ::= { x%s 7 }\nEND' % (m, m))
    if kind == 'badrange':
        # a real code generation failure: an empty hex literal cannot be a range bound
        return good.replace('END', "R%s ::= INTEGER (''H..'ff'H)\nEND" % m)
    if kind == 'badimport':
        return good.replace('IMPORTS ', 'IMPORTS nosuchSymbol FROM SNMPv2-TC\n    ', 1).replace(
            'END', 'z%s OBJECT IDENTIFIER ::= { nosuchSymbol 1 }\nEND' % m)
    if kind == 'twomods':
        return good + mate_text(m)
    if kind == 'bundle':
        # a vendor file holding two modules, the first importing from the second BY ITS MODULE NAME: that name is queued for
        # look-up although no source has a file called like it - the module is already there
        return good.replace('IMPORTS ', 'IMPORTS w%s FROM %sX\n    ' % (m, m), 1) + mate_text(m)
    if kind == 'misnamed':
        return module_text(world, m, variant, name=m + 'REAL')
    if kind == 'misnamedbroken':
        # a file named unlike its only module, and that module hangs below a parent nobody defines
        return broken_text(world, m, variant).replace('%s DEFINITIONS' % m, '%sREAL DEFINITIONS' % m, 1)
    if kind.startswith('only'):
        # a file that holds nothing but a copy of ANOTHER user module
        return module_text(world, kind[4:], MATE_VARIANT)
    # --- files holding a module whose symbol table cannot be built (really: an OID parent nobody defines) next to others
    if kind == 'brokenfirst':
        return broken_text(world, m, variant) + mate_text(m)
    if kind == 'brokenlast':
        return mate_text(m) + broken_text(world, m, variant)
    if kind == 'copies-bs':
        return broken_text(world, m, variant) + good      # a broken copy of m followed by a sound one
    if kind == 'copies-sb':
        return good + broken_text(world, m, variant)
    if kind.startswith('plus'):
        # m followed by a copy of ANOTHER user module (marked by its variant number)
        return good + module_text(world, kind[4:], MATE_VARIANT)
    if kind.startswith('brokenplus'):
        return good + broken_text(world, kind[10:], MATE_VARIANT)
    raise ValueError(kind)


def file_entries(world, s, m):
    """[(canonical module name, symbol table can be built, variant)] of the file source s holds under the name m, in file order;
    None if the text does not parse."""
    kind = text_kind(world, s, m)
    v = world.get('variant', {}).get('%s%d' % (m, s), 0)
    if kind in ('lexerr', 'synerr', 'truncated'):
        return None
    if kind in ('empty', 'comment'):
        return []
    sym = world.get('symerr', [])
    if kind in ('twomods', 'bundle'):
        out = [(m, True, v), (m + 'X', True, 0)]
    elif kind == 'misnamed':
        out = [(m + 'REAL', True, v)]
    elif kind == 'misnamedbroken':
        out = [(m + 'REAL', False, v)]
    elif kind.startswith('only'):
        out = [(kind[4:], True, MATE_VARIANT)]
    elif kind in ('dupsym', 'unktype'):
        out = [(m, False, v)]
    elif kind == 'brokenfirst':
        out = [(m, False, v), (m + 'X', True, 0)]
    elif kind == 'brokenlast':
        out = [(m + 'X', True, 0), (m, False, v)]
    elif kind == 'copies-bs':
        out = [(m, False, v), (m, True, v)]
    elif kind == 'copies-sb':
        out = [(m, True, v), (m, False, v)]
    elif kind.startswith('brokenplus'):
        out = [(m, True, v), (kind[10:], False, MATE_VARIANT)]
    elif kind.startswith('plus'):
        out = [(m, True, v), (kind[4:], True, MATE_VARIANT)]
    else:
        out = [(m, True, v)]
    return [(c, ok and c not in sym, var) for c, ok, var in out]


def file_modules(world, m, s=0):
    """Canonical names of the modules a healthy-enough file for m holds; None if the text does not parse."""
    ents = file_entries(world, s, m)
    if ents is None:
        return None
    out = []
    for c, ok, var in ents:
        if c not in out:
            out.append(c)
    return out


class Log(list):
    pass


class Source(object):
    def __init__(self, idx, world, log):
        self.idx, self.world, self.log = idx, world, log

    def __str__(self):
        return 'Source%d' % self.idx

    def getData(self, mibname, **options):
        self.log.append(('read', self.idx, mibname))
        if mibname in env.BASE_NAMES:
            if self.idx == 0:
                return MibInfo(path='base://' + mibname, file=mibname, name=mibname, mtime=500), env.base_text(mibname)
            raise error.PySmiReaderFileNotFoundError('no %s' % mibname, reader=self)
        ans = 'notfound'
        if mibname in USER[:self.world['n']]:
            ans = self.world.get('src', {}).get('%s%d' % (mibname, self.idx), 'ok' if self.idx == 0 else 'notfound')
        if ans == 'notfound':
            raise error.PySmiReaderFileNotFoundError('no %s' % mibname, reader=self)
        if ans == 'error':
            exc = error.PySmiReaderError('injected reader error %s@%d' % (mibname, self.idx), reader=self)
            self.log.append(('injected', id(exc), 'read', mibname))
            self.log.injected[mibname] = self.log.injected.get(mibname, []) + [exc]
            raise exc
        return MibInfo(path='src%d://%s' % (self.idx, mibname), file=mibname + '.mib', name=mibname, mtime=1000), \
            source_text(self.world, self.idx, mibname)


class Parser(object):
    def __init__(self, log):
        self.log = log
        self.real = env.shared_parser('smiV2')
        self.real.reset()

    def reset(self):
        self.real.reset()

    def parse(self, data, **kw):
        self.log.append(('parse', data))
        try:
            return self.real.parse(data, **kw)
        except Exception:
            self.real.reset()  # keep the shared parser usable: state carry-over is C12's subject, not this harness's
            raise


class Symtable(SymtableCodeGen):
    def __init__(self, world, log):
        SymtableCodeGen.__init__(self)
        self.world, self.log = world, log

    def genCode(self, ast, symbolTable, **kwargs):
        self.log.append(('symtable', ast[0]))
        if ast[0] in self.world.get('symerr', []):
            exc = error.PySmiSemanticError('injected symbol table error %s' % ast[0])
            self.log.injected[ast[0]] = self.log.injected.get(ast[0], []) + [exc]
            raise exc
        return SymtableCodeGen.genCode(self, ast, symbolTable, **kwargs)


class Codegen(JsonCodeGen):
    def __init__(self, world, log):
        JsonCodeGen.__init__(self)
        self.world, self.log = world, log
        self.produced = {}

    def genCode(self, ast, symbolTable, **kwargs):
        self.log.append(('codegen', ast[0], bool(kwargs.get('genTexts'))))
        if ast[0] in self.world.get('generr', []):
            exc = error.PySmiCodegenError('injected code generation error %s' % ast[0])
            self.log.injected[ast[0]] = self.log.injected.get(ast[0], []) + [exc]
            raise exc
        info, data = JsonCodeGen.genCode(self, ast, symbolTable, **kwargs)
        if ast[0] in self.world.get('emptygen', []):
            data = ''   # a generator may have nothing to say about a module (the null code generator): that is its text
        self.produced[ast[0]] = data
        return info, data


class Searcher(object):
    def __init__(self, idx, spec, log):
        self.idx, self.spec, self.log = idx, spec, log

    def __str__(self):
        return 'Searcher%d' % self.idx

    def fileExists(self, mibname, mtime, rebuild=False):
        self.log.append(('search', self.idx, mibname, bool(rebuild)))
        if rebuild and self.spec.get('honours_rebuild', True):
            return
        ans = self.spec.get('ans', {}).get(mibname, 'absent')
        if mibname in self.spec.get('copy', {}):
            # a transformed copy with a modification time, compared the way the file searchers do
            ans = 'fresh' if self.spec['copy'][mibname] >= mtime else 'absent'
        if ans == 'fresh':
            raise error.PySmiFileNotModifiedError('fresh %s' % mibname, searcher=self)
        if ans == 'absent':
            raise error.PySmiFileNotFoundError('no %s' % mibname, searcher=self)
        if ans == 'error':
            raise error.PySmiSearcherError('injected searcher error %s' % mibname, searcher=self)
        return


class BorrowReader(object):
    def __init__(self, idx, spec, log):
        self.idx, self.spec, self.log = idx, spec, log

    def __str__(self):
        return 'BorrowReader%d' % self.idx

    def setOptions(self, **kw):
        return self

    def getData(self, mibname, **options):
        self.log.append(('borrow', self.idx, mibname, bool(options.get('genTexts'))))
        ans = self.spec.get('ans', {}).get(mibname, 'absent')
        if ans == 'hasempty':
            # an empty pre-transformed copy is a copy
            return MibInfo(path='borrow%d://%s' % (self.idx, mibname), file=mibname + '.json', name=mibname,
                           mtime=self.spec.get('mtime', {}).get(mibname, BORROWED_MTIME)), ''
        if ans == 'has':
            return MibInfo(path='borrow%d://%s' % (self.idx, mibname), file=mibname + '.json', name=mibname,
                           mtime=self.spec.get('mtime', {}).get(mibname, BORROWED_MTIME)), \
                'BORROWED-%d-%s' % (self.idx, mibname)
        if ans == 'error':
            raise error.PySmiReaderError('injected borrower error %s' % mibname, reader=self)
        if ans == 'plainerror':
            # what a strict reader (ignoreErrors=False) raises for a directory / archive it cannot open
            raise error.PySmiError('injected plain package error %s' % mibname)
        raise error.PySmiReaderFileNotFoundError('no %s' % mibname, reader=self)


class Writer(object):
    def __init__(self, world, log):
        self.world, self.log = world, log

    def __str__(self):
        return 'Writer'

    def setOptions(self, **kw):
        return self

    def getData(self, filename):
        return ''

    def putData(self, mibname, data, comments=(), dryRun=False):
        self.log.append(('write', mibname, data, bool(dryRun)))
        if mibname in self.world.get('wrerr', []):
            exc = error.PySmiWriterError('injected writer error %s' % mibname, writer=self)
            self.log.injected[mibname] = self.log.injected.get(mibname, []) + [exc]
            raise exc
        self.log.append(('written', mibname))


_template = []


def template_copy():
    """A verbatim copy of the stock JSON template under another name in a scratch directory (option dstTemplate)."""
    import atexit
    import os
    import shutil
    import tempfile
    import pysmi.codegen.jsondoc as jd
    if not _template or not os.path.exists(_template[0]):
        d = tempfile.mkdtemp(prefix='mctmpl', dir=os.environ.get('VERIF_TMP') or ('/dev/shm' if os.path.isdir('/dev/shm') else None))
        src = os.path.join(os.path.dirname(jd.__file__), 'templates', jd.JsonCodeGen.TEMPLATE_NAME)
        dst = os.path.join(d, 'site-json.j2')
        shutil.copy(src, dst)
        del _template[:]
        _template.append(dst)
        pid = os.getpid()
        atexit.register(lambda: os.getpid() == pid and shutil.rmtree(d, ignore_errors=True))
    return _template[0]


def run_world(world, budget=4000):
    """-> observation dict: status map (or escaped exception), the call log, generated payloads."""
    log = Log()
    log.injected = {}
    codegen = Codegen(world, log)
    comp = MibCompiler(Parser(log), codegen, Writer(world, log))
    comp._symbolgen = Symtable(world, log)
    comp.addSources(*[Source(i, world, log) for i in range(world.get('nsrc', 1))])
    searchers = [Searcher(i, s, log) for i, s in enumerate(world.get('searchers', []))]
    searchers.append(StubSearcher(*env.BASE_NAMES))
    comp.addSearchers(*searchers)
    comp.addBorrowers(*[AnyFileBorrower(BorrowReader(i, b, log), genTexts=b.get('texts', False))
                        for i, b in enumerate(world.get('borrowers', []))])
    opts = dict(default_opts(), **world.get('opts', {}))
    if world.get('implicit'):
        # the call names only the options that differ from the defaults: an option left out means its default
        opts = dict(world.get('opts', {}))
    if opts.get('dstTemplate'):
        opts['dstTemplate'] = template_copy()
    obs = {'log': log, 'produced': codegen.produced, 'injected': log.injected}
    try:
        res = comp.compile(*world['req'], **opts)
    except Exception as exc:
        obs['escaped'] = exc
        return obs
    obs['result'] = res
    return obs


# --------------------------------------------------------------------------- reference model

SOURCE_MTIME = 1000
BORROWED_MTIME = 2000


def first_fresh(world, m, rebuild, mtime=SOURCE_MTIME):
    """Does the searcher list declare m up to date?  (asked in the order added; errors and absences are skipped;
    rebuild silences protocol-following searchers but not stub lists).  mtime: that of the text being considered -
    the source's before compiling, the borrowable copy's before borrowing."""
    for s in world.get('searchers', []):
        if rebuild and s.get('honours_rebuild', True):
            continue
        if m in s.get('copy', {}):
            if s['copy'][m] >= mtime:
                return True
            continue
        if s.get('ans', {}).get(m, 'absent') == 'fresh':
            return True
    return False


def reference(world):
    """-> dict: keys (canonical names that must appear), allowed {name: set of statuses}, writes {name: 'once'|'never'|'any'},
    payload {name: ('gen', module) | ('borrow', idx)}, borrow_asked (modules that may be offered to borrowers), closure."""
    opts = dict(default_opts(), **world.get('opts', {}))
    n = world['n']
    users = USER[:n]
    nsrc = world.get('nsrc', 1)
    imports = dict((m, [b for a, b in world.get('edges', []) if a == m]) for m in users)

    requested = list(world['req'])
    # requested names are FILE names (the modules inside may be called differently), names taken from IMPORTS clauses are
    # MODULE names: a name may have to be looked up in both capacities
    todo = [(m, True) for m in requested]
    seen = set()
    looked = set()
    parsed = {}        # canonical name -> requested-name (alias)
    variant_of = {}    # canonical name -> variant number of the copy that counts
    kind_of = {}       # canonical name -> kind of the text it came in
    failed = {}        # name -> set of allowed statuses ('failed' / 'missing')
    requested_canon = set()
    order = []
    broken_imports = {}   # name a failure is recorded under -> modules its (parsed) IMPORTS clause names
    asked_upto = {}       # name -> number of sources consulted for it so far
    module_failed = set() # modules whose text was found and whose symbol table could not be built (as opposed to names no source served)
    while todo or broken_imports:
        if not todo:
            # C07: 'every module reachable through the IMPORTS of successfully PARSED modules' - a module whose symbol table
            # cannot be built was parsed; its imports count once it is clear that the module stays failed
            for name in sorted(broken_imports):
                imps = broken_imports.pop(name)
                if name in failed:
                    todo.extend((i, False) for i in imps)
            continue
        m, req = todo.pop(0)
        if (m, req) in looked:
            continue
        looked.add((m, req))
        seen.add(m)
        if m in env.BASE_NAMES:
            continue
        if m in parsed and not req:
            continue   # the module of that name has arrived already, inside a file known under another name
        # (a REQUESTED name is a file name: the file is read even when a module of that name is known from elsewhere)
        if m not in users:
            if m not in parsed:
                failed.setdefault(m, set(['missing']))
            continue
        answers = [world.get('src', {}).get('%s%d' % (m, s), 'ok' if s == 0 else 'notfound') for s in range(nsrc)]
        accepted = False
        answered = False           # a source answered the name with a file that holds modules
        source_failed = False      # a source failed on the NAME m (reader error, text that does not parse)
        name_failure = None        # ... and the statuses that failure allows for the name
        for s, a in enumerate(answers):
            if s < asked_upto.get(m, 0):
                continue           # consulted when m was looked up in its other capacity: not asked again
            asked_upto[m] = s + 1
            if a == 'error':
                # a failure of this source; the later ones are still asked
                name_failure = set(['failed', 'missing'])
                source_failed = True
                continue
            if a != 'ok':
                continue
            ents = file_entries(world, s, m)
            if ents is None:
                name_failure = set(['failed'])      # does not parse: a later source may do better
                source_failed = True
                continue
            if not ents:
                if m not in failed and name_failure is None:
                    name_failure = set(['missing', 'failed'])   # a file without any module: as good as not found
                    source_failed = True
                continue
            broken_here = set()
            answered = True
            for c, ok, var in ents:
                if c in parsed:
                    continue     # the copy that came first stays (sound or not, a further copy changes nothing)
                if not ok:
                    # the failure belongs to the MODULE, whatever name its file was found under
                    failed[c] = set(['failed'])
                    module_failed.add(c)
                    broken_here.add(c)
                    base = c if c in users else c[:-4] if c.endswith('REAL') and c[:-4] in users else None
                    if base:
                        broken_imports[c] = list(imports.get(base, []))
                    if c == m:
                        source_failed = False    # the module's own failure takes the place of an earlier source's
                        name_failure = None
                    if req:
                        requested_canon.add(c)   # part of a requested file, like its sound modules
                    continue
                parsed[c] = m
                variant_of[c] = var
                kind_of[c] = text_kind(world, s, m)
                order.append(c)
                failed.pop(c, None)   # could not be had before (asked for by name, or a broken copy precedes this one)
                module_failed.discard(c)
                broken_here.discard(c)
                broken_imports.pop(c, None)
                if req:
                    requested_canon.add(c)
                if c in users:
                    todo.extend((i, False) for i in imports.get(c, []))
                elif c.endswith('REAL') and c[:-4] in users:
                    todo.extend((i, False) for i in imports.get(c[:-4], []))
            if m in broken_here:
                continue      # the module asked for is the broken one of this file: a later source may have a sound copy
            if req and not any(c in parsed for c, ok, var in ents):
                continue      # nothing sound in the file asked for: a later source may do better
            if not req and m not in parsed:
                # m is known from an IMPORTS clause, so it names a MODULE; this file holds modules called differently
                continue
            accepted = True      # (a failure of an earlier source on this name is forgotten: this one answers it)
            break
        if accepted or m in parsed or req and answered:
            # answered; or a file name whose module is known from another file, or that was answered by a file of broken modules:
            # the modules carry the statuses - a failure of a SOURCE on the name is moot.  (A failure of the MODULE m, found
            # in an earlier source, is not: it stands whatever later sources do.)
            if m not in module_failed:
                failed.pop(m, None)
        elif m in module_failed:
            pass                 # the module's failure stands
        elif name_failure is not None:
            failed[m] = name_failure
        elif m not in failed:
            failed[m] = set(['missing'])

    ref = {'allowed': {}, 'writes': {}, 'payload': {}, 'gen': set(), 'nogen': set()}
    built = []
    for c in order:
        src_name = parsed[c]
        if first_fresh(world, c, opts['rebuild']):
            ref['allowed'][c] = set(['untouched'])
            ref['writes'][c] = 'never'
            ref['nogen'].add(c)
            continue
        if opts['noDeps'] and c not in requested_canon and c not in requested:
            ref['allowed'][c] = set(['untouched'])
            ref['writes'][c] = 'never'
            ref['nogen'].add(c)
            continue
        base = c[:-1] if c.endswith('X') and c[:-1] in users else c[:-4] if c.endswith('REAL') else c
        # a *used* import (the imported node is the OID parent) of a module that never got a symbol table makes code
        # generation of the importer fail as well
        out_edges = [b for a, b in world.get('edges', []) if a == base]
        used_import = ([b for b in out_edges if b != base] or [None])[-1] if world.get('used') else None
        # (module_text() hangs the module's own node below the node imported LAST; the other imports are only listed)
        cascade = c in (base, base + 'REAL') and any(
            b not in parsed and (b == used_import or (b == base and c != base)) for b in out_edges)
        # ... and so does a module further up the chain of used imports: the OID of the parent is resolved to the root, through
        # the symbol table of every module on the way (that a module on the way fails LATER, in code generation, does not matter)
        cur, hops = used_import, set([base])
        while cascade is False and c in (base, base + 'REAL') and cur is not None and cur not in hops:
            hops.add(cur)
            if cur not in parsed:
                cascade = True
                break
            cur_edges = [b for a, b in world.get('edges', []) if a == cur]
            cur = ([b for b in cur_edges if b != cur] or [None])[-1]
        # (a module filed under another name that imports "itself" by the file name imports a module that does not exist,
        # and the imported symbol collides with its own)
        if cascade or c in world.get('generr', []) or (kind_of.get(c) in ('badimport', 'badrange') and c == base):
            failed[c] = set(['failed'])
            ref['gen'].add(c)
            continue
        ref['gen'].add(c)
        built.append(c)
        ref['payload'][c] = ('gen', c)

    # borrowing
    borrowed = []
    eligible = set()
    for m in list(failed):
        if opts['noDeps'] and m not in requested and m not in requested_canon:
            continue
        eligible.add(m)
        got = None
        for i, b in enumerate(world.get('borrowers', [])):
            if bool(b.get('texts', False)) != bool(opts['genTexts']):
                continue
            if b.get('ans', {}).get(m, 'absent') in ('has', 'hasempty'):
                got = i
                break
        if got is None:
            continue
        del failed[m]
        if first_fresh(world, m, opts['rebuild'], world['borrowers'][got].get('mtime', {}).get(m, BORROWED_MTIME)):
            ref['allowed'][m] = set(['untouched'])
            ref['writes'][m] = 'never'
            continue
        borrowed.append(m)
        ref['payload'][m] = ('borrow', got)
    ref['eligible'] = eligible

    for m, allowed in failed.items():
        ref['allowed'][m] = set(allowed)
        ref['writes'][m] = 'never'
    if failed and not opts['ignoreErrors']:
        for c in built + borrowed:
            ref['allowed'][c] = set(['unprocessed'])
            ref['writes'][c] = 'never'
    else:
        for c in built + borrowed:
            ok = 'compiled' if c in built else 'borrowed'
            if not opts['writeMibs']:
                ref['allowed'][c] = set([ok])
                ref['writes'][c] = 'never'
            elif c in world.get('wrerr', []):
                ref['allowed'][c] = set(['failed'])
                ref['writes'][c] = 'attempt'
            else:
                ref['allowed'][c] = set([ok])
                ref['writes'][c] = 'once'
    ref['unrepaired'] = bool(failed)
    ref['closure'] = seen
    ref['parsed'] = parsed
    ref['requested_canon'] = requested_canon
    ref['variant_of'] = variant_of
    return ref


# --------------------------------------------------------------------------- judging

def features(world):
    f = []
    for m, k in sorted(world.get('text', {}).items()):
        if k != 'healthy':
            f.append(k)
    for key, tag in (('symerr', 'symerr'), ('generr', 'generr'), ('wrerr', 'wrerr'), ('emptygen', 'emptygen')):
        if world.get(key):
            f.append(tag)
    for k, a in sorted(world.get('src', {}).items()):
        f.append('src-' + a)
    if world.get('searchers'):
        f.append('searchers=%d' % len(world['searchers']))
        for s in world['searchers']:
            for m, a in s.get('ans', {}).items():
                if a != 'absent':
                    f.append('search-' + a)
    if world.get('borrowers'):
        for b in world['borrowers']:
            for m, a in b.get('ans', {}).items():
                if a != 'absent':
                    f.append('borrow-' + a)
    if world.get('nsrc', 1) > 1:
        f.append('nsrc=%d' % world['nsrc'])
    return ','.join(sorted(set(f))) or 'plain'


def well_formed(world):
    """Worlds the reference model speaks about: an import never names the file alias of a module that is really
    called differently (that would be an import of a module that does not exist)."""
    return True   # (an import naming the file alias of a differently named module used to be exempt: it is a missing module)


def judge(world, obs, sigbase, step_budget_factor=10):
    """All invariants of C07-C10/C19 that can be decided from one run.  -> list of (signature, detail)"""
    vs = []
    feat = features(world)
    desc = 'world %s' % json.dumps(world, sort_keys=True)
    if not well_formed(world):
        # only containment and termination are demanded
        if 'escaped' in obs:
            return [('%s|exception-escapes-compile|%s|%s' % (sigbase, type(obs['escaped']).__name__, feat), desc)]
        return []

    def v(clause, detail):
        vs.append(('%s|%s|%s' % (sigbase, clause, feat), '%s\n%s' % (detail, desc)))

    if 'escaped' in obs:
        exc = obs['escaped']
        v('exception-escapes-compile|%s' % type(exc).__name__, repr(exc))
        return vs
    res = obs['result']
    log = obs['log']
    opts = dict(default_opts(), **world.get('opts', {}))
    ref = reference(world)

    # --- generic invariants (no model needed)
    for k, st in res.items():
        if str(st) not in STATUSES:
            v('unknown-status', '%s -> %r' % (k, st))
    writes = {}
    for e in log:
        if e[0] == 'write':
            writes.setdefault(e[1], []).append(e)
    written_ok = set(e[1] for e in log if e[0] == 'written')
    for m, ws in writes.items():
        if len(ws) > 1:
            v('written-more-than-once', '%s: %d putData calls' % (m, len(ws)))
    if opts['writeMibs']:
        for k, st in res.items():
            if st in ('compiled', 'borrowed') and k not in written_ok:
                v('reported-%s-but-not-written' % st, k)
        for m in written_ok:
            if res.get(m) not in ('compiled', 'borrowed'):
                v('written-but-reported-%s' % res.get(m), m)
    else:
        if writes:
            v('writes-with-writeMibs-off', repr(sorted(writes)))
    for m, ws in writes.items():
        data = ws[0][2]
        want = obs['produced'].get(m)
        if res.get(m) == 'borrowed' or (want is None and data.startswith('BORROWED-')):
            empties = [b for b in world.get('borrowers', []) if b.get('ans', {}).get(m) == 'hasempty']
            if data == '' and empties:
                pass
            elif not data.startswith('BORROWED-') or not data.endswith('-' + m):
                v('borrowed-payload-not-verbatim', '%s: %r' % (m, data[:80]))
        elif data != want:
            v('payload-not-what-codegen-produced', '%s: written %r..., generated %r...' % (m, data[:60], (want or '')[:60]))
        if bool(ws[0][3]) != bool(opts['dryRun']):
            v('dryRun-flag-not-forwarded', m)
    for k, st in res.items():
        if st == 'failed':
            err = getattr(st, 'error', None)
            if not isinstance(err, error.PySmiError):
                v('failed-without-error', '%s -> %r' % (k, err))
            elif k in obs['injected'] and not any(err is e for e in obs['injected'][k]) and \
                    not any(e[0] == 'codegen' and e[1] == k for e in log) and \
                    all(kind == 'healthy' for key, kind in world.get('text', {}).items() if key == k or key[-1:].isdigit()):
                # (a module that reached code generation may fail there for reasons of its own: a used import without symbol table)
                # (a per-source text may hold other modules too, so any unsound one can be the origin of a real error)
                v('failed-carries-another-error', '%s: %r, injected %r' % (k, err, obs['injected'][k]))

    # --- every requested name is accounted for, whatever the reference model says: by a status of its own, or by the statuses of
    #     the modules that a file of that name holds
    nsrc_ = world.get('nsrc', 1)
    for m in world.get('req', []):
        if m in res:
            continue
        held = set()
        for s in range(nsrc_):
            if world.get('src', {}).get('%s%d' % (m, s), 'ok' if s == 0 else 'notfound') == 'ok' and m in USER[:world['n']]:
                held |= set(c for c, ok, var in (file_entries(world, s, m) or []))
        if not held & set(res):
            v('requested-name-without-any-status', '%s; result keys %r' % (m, sorted(res)))

    # --- agreement with the reference model
    missing_keys = [k for k in ref['allowed'] if k not in res]
    for k in missing_keys:
        alias_ok = False
        v('module-dropped-from-result', '%s absent; result keys %r' % (k, sorted(res)))
    for base in env.BASE_NAMES:
        if base in res and res[base] != 'untouched':
            v('base-module-not-untouched', '%s -> %s' % (base, res[base]))
    for k, allowed in ref['allowed'].items():
        if k in res and str(res[k]) not in allowed:
            v('status-%s-where-%s' % (res[k], '/'.join(sorted(allowed))), '%s' % k)
    extra = [k for k in res if k not in ref['allowed'] and k not in env.BASE_NAMES]
    if extra:
        v('unexpected-result-key', repr(extra))
    for k, w in ref['writes'].items():
        nw = len(writes.get(k, []))
        if w == 'never' and nw:
            v('written-although-%s' % '/'.join(sorted(ref['allowed'][k])), k)
        if w in ('once', 'attempt') and nw != 1:
            v('not-handed-to-writer', '%s: %d putData calls' % (k, nw))
    for k, (how, arg) in ref['payload'].items():
        if how == 'borrow' and k in writes and writes[k][0][2] != (
                '' if world['borrowers'][arg].get('ans', {}).get(k) == 'hasempty' else 'BORROWED-%d-%s' % (arg, k)):
            v('borrowed-from-wrong-borrower', '%s: %r, expected borrower %d' % (k, writes[k][0][2], arg))
    gens = [e[1] for e in log if e[0] == 'codegen']
    for k in ref['nogen']:
        if k in gens:
            v('generated-although-not-needed', k)
    for k in ref['gen']:
        if gens.count(k) != 1:
            v('codegen-calls=%d' % gens.count(k), k)
    # each (source, module) at most once; sources in order until the first holder
    reads = {}
    for e in log:
        if e[0] == 'read':
            reads.setdefault(e[2], []).append(e[1])
    for m, idxs in reads.items():
        if len(idxs) != len(set(idxs)):
            v('source-asked-twice', '%s: %r' % (m, idxs))
        if idxs != sorted(idxs):
            v('sources-out-of-order', '%s: %r' % (m, idxs))
    for m in ref['closure']:
        # (a name whose module already arrived inside a file known under another name needs no look-up of its own)
        if m not in reads and m not in ref['parsed']:
            v('closure-module-never-looked-up', m)
    # borrowers: only for eligible, not-built modules, only matching flavour reaches the reader
    for e in log:
        if e[0] == 'borrow':
            _, idx, m, texts = e
            if m not in ref['eligible']:
                v('borrower-asked-for-ineligible-module', '%s (eligible %r)' % (m, sorted(ref['eligible'])))
            if bool(world['borrowers'][idx].get('texts', False)) != bool(opts['genTexts']):
                v('borrower-of-wrong-flavour-consulted', '%s from borrower %d' % (m, idx))
    # termination / at most one fetch+parse per module is implied by reads; step budget:
    nsteps = len(log)
    budget = step_budget_factor * (40 + 12 * len(ref['closure']) * max(1, world.get('nsrc', 1)))
    if nsteps > budget:
        v('step-budget-exceeded', '%d component calls' % nsteps)
    return vs


def observation_key(obs):
    if 'escaped' in obs:
        return 'escaped:%s' % type(obs['escaped']).__name__
    return json.dumps([sorted((k, str(s)) for k, s in obs['result'].items()),
                       sorted(e[1] for e in obs['log'] if e[0] == 'written')])
