#!/venv/bin/python
"""Evaluate a seeded property-breaking change against the checks.

usage: mutant_eval.py <dir with patch.diff and demo.py> <seed id> <property> [--checks C01,C02] [--tier quick|thorough]

1. scratch worktree of /repo HEAD, patch applied
2. the repository's own test suite must still pass there (86 passed)
3. demo.py must exit 1 with the change and 0 without it
4. the named checks are run with VERIF_REPO=<worktree>; exit status and violation signatures are recorded
5. patch.diff, demo.py and meta.json are stored under /verif/seeded/<seed id>/ ; the worktree is removed
"""
import argparse
import json
import os
import re
import shutil
import subprocess
import sys
import tempfile
import time

VERIF = os.path.dirname(os.path.dirname(os.path.abspath(__file__)))
PY = '/venv/bin/python'


def sh(cmd, **kw):
    return subprocess.run(cmd, shell=isinstance(cmd, str), capture_output=True, text=True, **kw)


def main():
    ap = argparse.ArgumentParser()
    ap.add_argument('src')
    ap.add_argument('seed_id')
    ap.add_argument('prop')
    ap.add_argument('--checks')
    ap.add_argument('--tier', default='quick')
    ap.add_argument('--needs', default='')
    ap.add_argument('--no-store', action='store_true')
    a = ap.parse_args()
    checks = (a.checks or a.prop).split(',')
    wt = tempfile.mkdtemp(prefix='mutwt_', dir='/tmp')
    os.rmdir(wt)
    meta = {'seed_id': a.seed_id, 'breaks_property': a.prop, 'needs_to_manifest': a.needs, 'ran': []}
    try:
        r = sh(['git', '-C', '/repo', 'worktree', 'add', '--detach', wt, 'HEAD'])
        assert r.returncode == 0, r.stderr
        meta['repo_head'] = sh(['git', '-C', '/repo', 'rev-parse', '--short', 'HEAD']).stdout.strip()
        patch = os.path.join(a.src, 'patch.diff')
        r = sh(['git', '-C', wt, 'apply', patch])
        if r.returncode != 0:
            print('PATCH DOES NOT APPLY', r.stderr)
            meta['patch_applies'] = False
            return 2
        meta['patch_applies'] = True
        env = dict(os.environ, PYTHONPATH=wt)
        t = sh('cd %s && %s -m pytest -q -p no:cacheprovider --timeout=900 --continue-on-collection-errors 2>&1 | tail -1' % (wt, PY),
               env=env)
        meta['test_suite_with_change'] = t.stdout.strip()
        demo = os.path.join(a.src, 'demo.py')
        os.makedirs(os.path.join(wt, '_mutant'), exist_ok=True)
        shutil.copy(demo, os.path.join(wt, '_mutant', 'demo.py'))
        d1 = sh('cd %s && timeout 300 %s _mutant/demo.py' % (wt, PY), env=env)
        meta['demo_exit_with_change'] = d1.returncode
        meta['demo_output_with_change'] = (d1.stdout + d1.stderr)[-600:]
        clean = tempfile.mkdtemp(prefix='mutclean_', dir='/tmp')
        os.rmdir(clean)
        sh(['git', '-C', '/repo', 'worktree', 'add', '--detach', clean, 'HEAD'])
        os.makedirs(os.path.join(clean, '_mutant'), exist_ok=True)
        shutil.copy(demo, os.path.join(clean, '_mutant', 'demo.py'))
        d0 = sh('cd %s && timeout 300 %s _mutant/demo.py' % (clean, PY), env=dict(os.environ, PYTHONPATH=clean))
        sh(['git', '-C', '/repo', 'worktree', 'remove', '--force', clean])
        shutil.rmtree(clean, ignore_errors=True)
        meta['demo_exit_without_change'] = d0.returncode
        print('tests: %s | demo with change: %s | without: %s' % (meta['test_suite_with_change'], d1.returncode, d0.returncode))
        for c in checks:
            t0 = time.time()
            r = sh('cd %s && %s -m mc.run %s --tier %s --no-evidence' % (VERIF, PY, c, a.tier),
                   env=dict(os.environ, VERIF_REPO=wt))
            sigs = re.findall(r'signature: (.*)', r.stdout)
            internal = re.findall(r'INTERNAL: (.*)', r.stdout)
            rec = {'check': c, 'tier': a.tier, 'exit': r.returncode, 'violations': len(sigs), 'signatures': sigs[:8],
                   'internal': internal[:2], 'wall_s': round(time.time() - t0, 1)}
            meta['ran'].append(rec)
            print('%s %s: exit %d, %d violation signature(s)%s  [%0.fs]' % (c, a.tier, r.returncode, len(sigs),
                                                                             ' INTERNAL ' + internal[0][:200] if internal else '',
                                                                             time.time() - t0))
            for s in sigs[:4]:
                print('    ', s[:200])
        meta['caught_by'] = [x['check'] + ':' + x['tier'] for x in meta['ran'] if x['exit'] == 1]
        if not a.no_store:
            dst = os.path.join(VERIF, 'seeded', a.seed_id)
            os.makedirs(dst, exist_ok=True)
            shutil.copy(patch, os.path.join(dst, 'patch.diff'))
            shutil.copy(demo, os.path.join(dst, 'demo.py'))
            notes = os.path.join(a.src, 'notes.md')
            if os.path.exists(notes):
                shutil.copy(notes, os.path.join(dst, 'notes.md'))
            old = {}
            mp = os.path.join(dst, 'meta.json')
            if os.path.exists(mp):
                old = json.load(open(mp))
                meta['ran'] = old.get('ran', []) + meta['ran']
                meta['caught_by'] = sorted(set(old.get('caught_by', []) + meta['caught_by']))
                if not meta['needs_to_manifest']:
                    meta['needs_to_manifest'] = old.get('needs_to_manifest', '')
            with open(mp, 'w') as f:
                json.dump(meta, f, indent=1)
        return 0
    finally:
        sh(['git', '-C', '/repo', 'worktree', 'remove', '--force', wt])
        shutil.rmtree(wt, ignore_errors=True)


if __name__ == '__main__':
    sys.exit(main())
