#!/venv/bin/python
"""Regenerates the two generated sections of DESIGN.md (between the BEGIN/END markers) from known_findings.json and
seeded/*/meta.json."""
import glob
import json
import os
import re

VERIF = os.path.dirname(os.path.dirname(os.path.abspath(__file__)))


def findings_table():
    kf = json.load(open(os.path.join(VERIF, 'known_findings.json')))
    rows = ['| id | property | disposition | what | reported by signatures |', '|---|---|---|---|---|']
    for e in kf['findings']:
        disp = 'fixed in /repo `%s`' % e['commit'] if e['kind'] == 'fixed' else '**known finding** (recorded, check prints KNOWN-FINDING)'
        props = e['property'] + (' (+' + ', '.join(e['also']) + ')' if e.get('also') else '')
        sigs = '; '.join('`%s`' % s for s in e['signatures'][:2]) + (' …' if len(e['signatures']) > 2 else '')
        rows.append('| %s | %s | %s | %s | %s |' % (e['id'], props, disp, e['what'].split(' (input')[0][:260], sigs))
    return '\n'.join(rows)


def mutants_table():
    rows = ['| seeded change | property | needs to manifest | caught by (first run -> after strengthening) |', '|---|---|---|---|']
    for mp in sorted(glob.glob(os.path.join(VERIF, 'seeded', '*', 'meta.json'))):
        m = json.load(open(mp))
        first = {}
        for r in m['ran']:
            first.setdefault(r['check'], r['exit'])
        missed_first = sorted(c for c, e in first.items() if e != 1)
        caught = ', '.join(m.get('caught_by', [])) or 'NOT CAUGHT'
        note = (' (first run of %s missed it; strengthened)' % ', '.join(missed_first)) if missed_first and m.get('caught_by') else ''
        if m.get('obsolete'):
            note += ' - OBSOLETE on the final tree: ' + m['obsolete']
        rows.append('| `%s` | %s | %s | %s%s |' % (m['seed_id'], m['breaks_property'], m.get('needs_to_manifest', ''), caught, note))
    return '\n'.join(rows)


def main():
    p = os.path.join(VERIF, 'DESIGN.md')
    s = open(p).read()
    for name, fn in (('FINDINGS', findings_table), ('MUTANTS', mutants_table)):
        rx = re.compile(r'(<!-- BEGIN %s -->\n).*?(<!-- END %s -->)' % (name, name), re.S)
        assert rx.search(s), name
        s = rx.sub(lambda m: m.group(1) + fn() + '\n' + m.group(2), s)
    open(p, 'w').write(s)


if __name__ == '__main__':
    main()
